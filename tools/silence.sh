#!/bin/bash
# tools/silence.sh <seed>...   runs every quick check from a fresh process per seed on the current tree; prints one line per run
cd /verif
for seed in "$@"; do
  for p in C01 C02 C03 C04 C05 C06 C07 C08 C09 C10 C11 C12 C13 C14 C15 C16 C17 C18 C19; do
    s=$(date +%s); out=$(VERIF_SEED=$seed ./check $p quick 2>/dev/null); rc=$?; e=$(date +%s)
    echo "seed=$seed $p rc=$rc $((e-s))s $(echo "$out" | grep -E '^(OK|VIOLATION)' | head -1 | cut -c1-110)"
  done
done
