#!/usr/bin/env python3
"""Collects the seeded changes confirmed by tools/seedcheck.sh from /tmp/wt/<ID>-out into /verif/seeded/<ID>-<N>/
(patch.diff, demo.rs, meta.json) and writes /verif/seeded/MATRIX.md."""
import json, os, re, shutil, glob
ROOT = '/verif/seeded'
os.makedirs(ROOT, exist_ok=True)
rows = []
for out in sorted(glob.glob('/tmp/wt/C*-out')) + sorted(glob.glob('/tmp/wt2/C*-out')) + sorted(glob.glob('/tmp/wt3/C*-out')) + sorted(glob.glob('/tmp/wt4/C*-out')) + sorted(glob.glob('/tmp/wt5/C*-out')) + sorted(glob.glob('/tmp/wt6/C*-out')) + sorted(glob.glob('/tmp/wt7/C*-out')) + sorted(glob.glob('/tmp/wt8/C*-out')) + sorted(glob.glob('/tmp/wt9/C*-out')):
    pid = os.path.basename(out)[:3]
    rnd = 9 if out.startswith('/tmp/wt9') else 8 if out.startswith('/tmp/wt8') else 7 if out.startswith('/tmp/wt7') else 6 if out.startswith('/tmp/wt6') else 5 if out.startswith('/tmp/wt5') else 4 if out.startswith('/tmp/wt4') else 3 if out.startswith('/tmp/wt3') else (2 if out.startswith('/tmp/wt2') else 1)
    for n in (1, 2):
        r = os.path.join(out, f'result{n}.json')
        if not os.path.exists(r):
            continue
        res = json.load(open(r))
        ok = all(res.get(k) is True for k in ('demo_passes_clean', 'applies', 'compiles', 'tests_pass', 'demo_fails_patched'))
        caught = res.get('caught_by', '').split()
        label = n + (rnd - 1) * 2
        d = os.path.join(ROOT, f'{pid}-{label}')
        if not ok:
            rows.append((pid, n + (rnd - 1) * 2, 'REJECTED (not confirmed: %s)' % res, [], ''))
            continue
        os.makedirs(d, exist_ok=True)
        shutil.copy(os.path.join(out, f'patch{n}.diff'), os.path.join(d, 'patch.diff'))
        shutil.copy(os.path.join(out, f'demo{n}.rs'), os.path.join(d, 'demo.rs'))
        notes = open(os.path.join(out, f'notes{n}.md'), errors='replace').read() if os.path.exists(os.path.join(out, f'notes{n}.md')) else ''
        detail = open(os.path.join(out, f'detail{n}.txt'), errors='replace').read().strip() if os.path.exists(os.path.join(out, f'detail{n}.txt')) else ''
        files = sorted(set(re.findall(r'^\+\+\+ b/(\S+)', open(os.path.join(d, 'patch.diff')).read(), re.M)))
        meta = {
            'breaks_property': pid,
            'origin': 'written by an independent sub-agent that saw only the property text and a scratch worktree of /repo (nothing from /verif)',
            'files_changed': files,
            'what_it_needs_to_manifest_and_why (author notes)': notes,
            'confirmed_by_me': {
                'scratch_worktree': f'{os.path.dirname(out)}/{pid} (git worktree of /repo HEAD, removed afterwards)',
                'commands': [
                    'cargo run --offline --example seeded_demo   # demo on the clean tree: exit 0',
                    'git apply patch.diff && cargo build --offline   # compiles',
                    'cargo test --offline   # all 168 unit + 43 integration + 2 doc tests pass with the change',
                    'cargo run --offline --example seeded_demo   # demo with the change: non-zero exit',
                    'tools/seedcheck.sh: every ./check <ID> quick run against the patched worktree (harness copy with the path dependency redirected)',
                ],
                'results': res,
            },
            'caught_by_quick_checks': caught,
            'caught_by_target_property_check': any(c.startswith(pid) for c in caught),
            'first_detail_line_of_target_check': detail,
        }
        bl = os.path.join(out, f'baseline{n}.json')
        if os.path.exists(bl):
            b = json.load(open(bl))
            bc = b.get('caught_by', '').split()
            meta['baseline (the checks as they stood when this change was written, before they were strengthened)'] = {
                'caught_by_quick_checks': bc,
                'caught_by_target_property_check': any(c.startswith(pid) for c in bc),
            }
            # the re-run after strengthening may have been restricted to the target check: keep what the baseline run saw as well
            merged = sorted(set(caught) | set(bc))
            meta['caught_by_quick_checks'] = merged
            meta['caught_by_target_property_check'] = any(c.startswith(pid) for c in merged)
            caught = merged
        mp = os.path.join(d, 'meta.json')
        if os.path.exists(mp):
            try:
                prev = json.load(open(mp))
                if 'run_against_repo' in prev:
                    meta['run_against_repo'] = prev['run_against_repo']
            except Exception:
                pass
        json.dump(meta, open(mp, 'w'), indent=1)
        first = notes.strip().splitlines()[0] if notes.strip() else ''
        rows.append((pid, label, 'confirmed', caught, first))
with open(os.path.join(ROOT, 'MATRIX.md'), 'w') as f:
    f.write('# Seeded changes and which quick checks catch them\n\n')
    f.write('Each change compiles, passes the 211 existing tests and fails its own demonstration (confirmed in a scratch worktree).\n')
    f.write('`caught by` lists every property whose quick check printed a VIOLATION against the changed tree.\n\n')
    f.write('| change | status | target caught | caught by (quick tier) | summary |\n|---|---|---|---|---|\n')
    for pid, n, st, caught, first in rows:
        tgt = 'yes' if any(c.startswith(pid) for c in caught) else ('NO' if st == 'confirmed' else '-')
        f.write(f'| {pid}-{n} | {st} | {tgt} | {" ".join(caught)} | {first[:160]} |\n')
print(len(rows), 'rows')
