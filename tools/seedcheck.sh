#!/bin/bash
# tools/seedcheck.sh <ID> <N>
# Confirms a seeded change delivered in /tmp/wt/<ID>-out/{patchN.diff,demoN.rs} in the scratch worktree /tmp/wt/<ID>:
#  (a) applies and compiles, (b) the existing tests pass, (c) the demo fails with it and passes without;
# then runs every check's quick tier against a scratch copy of the harness pointed at the patched worktree
# and prints which properties report a VIOLATION. Results: /tmp/wt/<ID>-out/resultN.json
set -u
ID="$1"; N="$2"; BASE="${3:-/tmp/wt}"
WT=$BASE/$ID; OUT=$BASE/$ID-out
PATCH=$OUT/patch$N.diff; DEMO=$OUT/demo$N.rs
MH=/tmp/mh/$(basename $BASE)-$ID-$N
export CARGO_NET_OFFLINE=true
cd "$WT" || exit 2
git checkout -q -- . ; git clean -fdq examples
res() { python3 - "$@" <<'PY'
import json,sys
out,key,val=sys.argv[1],sys.argv[2],sys.argv[3]
try: d=json.load(open(out))
except Exception: d={}
try: val=json.loads(val)
except Exception: pass
d[key]=val
json.dump(d,open(out,'w'),indent=1)
PY
}
R=$OUT/result$N.json; rm -f "$R"
cp "$DEMO" examples/seeded_demo.rs
# demo on the clean tree
if cargo run -q --offline --example seeded_demo >/dev/null 2>&1; then res "$R" demo_passes_clean true; else res "$R" demo_passes_clean false; fi
rm -f examples/seeded_demo.rs
if ! git apply --check "$PATCH" 2>/dev/null; then res "$R" applies false; echo "$ID-$N: patch does not apply"; exit 1; fi
git apply "$PATCH"; res "$R" applies true
if cargo build -q --offline >/dev/null 2>&1; then res "$R" compiles true; else res "$R" compiles false; git checkout -q -- .; exit 1; fi
# the existing suite, without the demonstration present (cargo test also builds everything under examples/)
if cargo test -q --offline >$OUT/test$N.log 2>&1; then res "$R" tests_pass true; else res "$R" tests_pass false; fi
cp "$DEMO" examples/seeded_demo.rs
if cargo run -q --offline --example seeded_demo >$OUT/demo$N.log 2>&1; then res "$R" demo_fails_patched false; else res "$R" demo_fails_patched true; fi
rm -f examples/seeded_demo.rs
# harness copy against the patched worktree
mkdir -p "$MH"; rsync -a --delete --exclude target /verif/harness/ "$MH/harness/"
sed -i "s#reval = { path = \"/repo\" }#reval = { path = \"$WT\" }#" "$MH/harness/Cargo.toml"
cp /verif/KNOWN_FINDINGS.txt "$MH/"; rsync -a /verif/regressions "$MH/"
TGT="${SEEDCHECK_TARGET:-/tmp/mh/target}"
export CARGO_TARGET_DIR="$TGT"
(cd "$MH/harness" && cargo build -q --offline --bin rvv_deep >"$OUT/hbuilddev$N.log" 2>&1)
if ! (cd "$MH/harness" && cargo build -q --release --offline --bins >"$OUT/hbuild$N.log" 2>&1); then
  if grep -Eq 'E0277|cannot be (sent|shared) between threads' "$OUT/hbuild$N.log"; then res "$R" harness_build "send-sync-compile-error"; else res "$R" harness_build "failed"; fi
fi
caught=""
for P in ${SEEDCHECK_ONLY:-C01 C02 C03 C04 C05 C06 C07 C08 C09 C10 C11 C12 C13 C14 C15 C16 C17 C18 C19}; do
  BIN=rvv; [ $P = C18 ] && BIN=rvv_c18
  if [ $P = C18 ] && grep -Eq 'E0277|cannot be (sent|shared) between threads' "$OUT/hbuild$N.log" 2>/dev/null; then caught="$caught $P(static)"; continue; fi
  [ -x "$TGT/release/$BIN" ] || continue
  VERIF_DIR="$MH" timeout 600 "$TGT/release/$BIN" $P quick >"$MH/$P.out" 2>"$MH/$P.err"
  rc=$?
  if grep -q "^VIOLATION" "$MH/$P.out"; then caught="$caught $P"; fi
  if [ $rc -ne 0 ] && [ $rc -ne 1 ]; then caught="$caught $P(rc=$rc)"; fi
done
res "$R" caught_by "\"$caught\""
grep -h "^DETAIL" "$MH/$ID.out" 2>/dev/null | head -2 | cut -c1-400 > "$OUT/detail$N.txt"
cd "$WT" && git checkout -q -- . && git clean -fdq examples
echo "$ID-$N: $(cat $R | tr -d '\n ')"
