#!/usr/bin/env python3
"""Systematic sensitivity run (mutation analysis) of the checks in /verif against mendelt/reval.

For every syntactic mutant of the listed source files (relational / arithmetic / boolean operator swaps, method swaps,
match-arm result swaps, single-arm deletions) in a scratch worktree of /repo:
  1. build the crate (mutants that do not compile are skipped),
  2. run the crate's own tests (mutants killed by the existing suite are recorded as such and not examined further),
  3. run the quick tier of the relevant checks through a scratch copy of the harness pointed at the worktree,
  4. record killed-by / survived.
Nothing is ever written to /repo. Results: <out>/results.jsonl and a summary on stdout.

usage: tools/mutate.py <scratch-dir> [--files f1,f2,...] [--max N] [--seed S]
"""
import json, os, re, subprocess, sys, random, shutil, time

OPSET = 1
REPO = '/repo'
VERIF = '/verif'

# file -> checks to run (quick tier) for mutants of that file
FILES = {
    'src/expr/eval/mod.rs': ['C02', 'C01', 'C03', 'C04', 'C05', 'C10', 'C09'],
    'src/expr/eval/context.rs': ['C10', 'C02', 'C09'],
    'src/function.rs': ['C11', 'C15', 'C09', 'C05', 'C12'],
    'src/ruleset/mod.rs': ['C09', 'C11', 'C12'],
    'src/ruleset/builder.rs': ['C15', 'C09'],
    'src/ruleset/rule.rs': ['C14', 'C09'],
    'src/symbol.rs': ['C15', 'C10'],
    'src/expr/keywords.rs': ['C15'],
    'src/expr/mod.rs': ['C16', 'C07'],
    'src/expr/index.rs': ['C16', 'C10'],
    'src/value/mod.rs': ['C16', 'C02'],
    'src/value/convert.rs': ['C17', 'C03'],
    'src/value/ser.rs': ['C13', 'C09'],
    'src/parse/helpers.rs': ['C08', 'C06', 'C07'],
    'src/parse/unescape.rs': ['C08', 'C06'],
    'src/parse/rule.rs': ['C14', 'C06'],
    'src/reval.lalrpop': ['C07', 'C08', 'C14', 'C06'],
}

SWAPS = [
    (r' >= ', ' > '), (r' > ', ' >= '), (r' <= ', ' < '), (r' < ', ' <= '), (r' == ', ' != '), (r' != ', ' == '),
    (r' \+ ', ' - '), (r' - ', ' + '), (r' \* ', ' / '), (r' / ', ' * '), (r' % ', ' / '),
    (r' & ', ' | '), (r' \| ', ' & '), (r' \^ ', ' & '), (r' && ', ' || '), (r' \|\| ', ' && '),
    (r'\btrue\b', 'false'), (r'\bfalse\b', 'true'),
    (r'checked_add', 'checked_sub'), (r'checked_sub', 'checked_add'), (r'checked_mul', 'checked_add'),
    (r'checked_div', 'checked_rem'), (r'checked_rem', 'checked_div'), (r'checked_neg', 'checked_abs'),
    (r'checked_add_signed', 'checked_sub_signed'), (r'checked_sub_signed', 'checked_add_signed'),
    (r'\.floor\(\)', '.ceil()'), (r'\.round\(\)', '.floor()'), (r'\.fract\(\)', '.trunc()'),
    (r'to_uppercase', 'to_lowercase'), (r'to_lowercase', 'to_uppercase'), (r'\.trim\(\)', '.trim_start()'),
    (r'num_weeks', 'num_days'), (r'num_days', 'num_hours'), (r'num_hours', 'num_minutes'), (r'num_minutes', 'num_seconds'),
    (r'num_seconds', 'num_minutes'), (r'try_weeks', 'try_days'), (r'try_days', 'try_hours'), (r'try_hours', 'try_minutes'),
    (r'try_minutes', 'try_seconds'), (r'try_seconds', 'try_minutes'),
    (r'\.year\(\)', '.month() as i32'), (r'\.month\(\)', '.day()'), (r'\.day\(\)', '.month()'), (r'\.hour\(\)', '.minute()'),
    (r'\.minute\(\)', '.second()'), (r'\.second\(\)', '.minute()'),
    (r'Ok\(Value::None\)', 'Err(Error::InvalidType)'), (r'Err\(Error::InvalidType\)', 'Ok(Value::None)'),
    (r'Ok\(false\.into\(\)\)', 'Ok(true.into())'), (r'Value::Bool\(false\)', 'Value::Bool(true)'),
    (r'Error::DivisionByZero', 'Error::InvalidType'), (r'unwrap_or\(Value::None\)', 'unwrap_or(Value::Bool(false))'),
    (r'\.contains_key\(', '.contains_key(&String::new()) || !'), (r'\.contains\(', '.starts_with('),
    (r'from_str_radix\(&value\[2\.\.\], 16\)', 'from_str_radix(&value[2..], 10)'), (r', 8\)', ', 10)'), (r', 2\)', ', 8)'),
    (r'&value\[1\.\.\]', '&value[2..]'), (r"'\\n'", "'\\r'"), (r"'\\t'", "' '"),
    (r'\.insert\(', '.entry('), (r'is_xid_start', 'is_xid_continue'), (r'is_xid_continue', 'is_alphanumeric'),
    (r'as i128', 'as i64 as i128'), (r'i128::from', 'i128::from'),
    (r'KWD_AND', 'KWD_OR'), (r'OP_GTE', 'OP_GT'), (r'Expr::contains\(l, r\)', 'Expr::contains(r, l)'),
    (r'Expr::contains\(r, l\)', 'Expr::contains(l, r)'), (r'Expr::sub\(l, r\)', 'Expr::sub(r, l)'),
    (r'<l:AddExpr> OP_ADD <r:MultExpr>', '<l:MultExpr> OP_ADD <r:AddExpr>'),
    (r'<l:MultExpr> OP_MULT <r:BitExpr>', '<l:BitExpr> OP_MULT <r:MultExpr>'),
    (r'<l:LogExpr> KWD_AND <r:EqExpr>', '<l:EqExpr> KWD_AND <r:LogExpr>'),
    (r'\.skip\(1\)', '.skip(0)'), (r'\.next\(\)', '.last()'),
]

# second wave (--set 2): constants, negated conditions, option/result predicates, iterator adaptors, tuple fields,
# argument order, statement deletion
SWAPS2 = [
    (r'\b0\b', '1'), (r'\b1\b', '0'), (r'\b1\b', '2'), (r'\b2\b', '3'), (r'\b7\b', '6'), (r'\b8\b', '7'), (r'\b10\b', '9'),
    (r'\b16\b', '15'), (r'\b60\b', '59'), (r'\b24\b', '23'), (r'\b1000\b', '999'), (r'\b100\b', '99'),
    (r'\bif (?!let)([^{]+) \{', r'if !(\1) {'), (r'\bif (?!let)([^{]+) \{', 'if true {'), (r'\bif (?!let)([^{]+) \{', 'if false {'),
    (r'is_some\(\)', 'is_none()'), (r'is_none\(\)', 'is_some()'), (r'is_ok\(\)', 'is_err()'), (r'is_err\(\)', 'is_ok()'),
    (r'\.is_empty\(\)', '.len() == 1'), (r'\.all\(', '.any('), (r'\.any\(', '.all('), (r'\.min\(', '.max('), (r'\.max\(', '.min('),
    (r'\.rev\(\)', ''), (r'\.first\(\)', '.last()'), (r'\.last\(\)', '.first()'), (r'\.\.=', '..'),
    (r'\.0\b', '.1'), (r'\.1\b', '.0'), (r'\(left, right\)', '(right, left)'), (r'\(l, r\)', '(r, l)'), (r'\(a, b\)', '(b, a)'),
    (r'\(value, index\)', '(index, value)'), (r'\(coll, item\)', '(item, coll)'),
    (r'unwrap_or_default\(\)', 'unwrap()'), (r'\.take\((\w+)\)', r'.take(\1 + 1)'), (r'\.skip\((\w+)\)', r'.skip(\1 + 1)'),
    (r'to_string\(\)', 'to_string().to_lowercase()'), (r'\.abs\(\)', ''), (r'-(\w+)\b', r'\1'),
    (r'starts_with', 'ends_with'), (r'ends_with', 'starts_with'),
    (r'saturating_', 'wrapping_'), (r'wrapping_', 'saturating_'), (r'checked_', 'wrapping_'),
    (r'i64::try_from', 'i32::try_from'), (r'u32::try_from', 'u16::try_from'), (r'usize::try_from', 'u8::try_from'),
    (r'Value::Int', 'Value::Float'), (r'Value::None', 'Value::Bool(false)'),
    (r'i128::MAX', 'i64::MAX as i128'), (r'i128::MIN', 'i64::MIN as i128'), (r'u64::MAX', 'u32::MAX as u64'),
    (r'\.clone\(\)', '.clone()'), (r'Ordering::Less', 'Ordering::Greater'), (r'Ordering::Greater', 'Ordering::Less'),
    (r'partial_cmp\((\w+)\)', r'partial_cmp(\1).map(|o| o.reverse())'),
    (r'eq_ignore_ascii_case', 'eq'), (r'\.chars\(\)', '.chars().rev()'), (r'\.bytes\(\)', '.bytes().rev()'),
    (r'\.len\(\)', '.len() + 1'), (r'\.len\(\)', '.len().saturating_sub(1)'), (r'\.push\(', '.insert(0, '),
    (r'\.trim_matches\(', '.trim_start_matches('), (r'replace\(', 'replacen('),
]


def in_test_module(lines, i):
    # everything after the first `#[cfg(test)]` of a file is test code
    for j in range(i, -1, -1):
        if lines[j].strip().startswith('#[cfg(test)]'):
            return True
    return False


def candidates(path, text):
    lines = text.split('\n')
    out = []
    for i, line in enumerate(lines):
        s = line.strip()
        if not s or s.startswith('//') or s.startswith('#[') or s.startswith('use ') or in_test_module(lines, i):
            continue
        for pat, rep in (SWAPS2 if OPSET == 2 else SWAPS):
            for m in re.finditer(pat, line):
                new = line[:m.start()] + (m.expand(rep) if OPSET == 2 else rep) + line[m.end():]
                if new != line:
                    out.append((i, line, new, f'{pat} -> {rep}'))
        # statement deletion (second wave): a whole-line call statement that binds nothing
        if OPSET == 2 and re.match(r'^\s*[a-z_][A-Za-z0-9_.]*(\.|::)[a-z_]+\(.*\);\s*$', line) and not s.startswith(('let ', 'return')):
            out.append((i, line, '', 'delete statement'))
        if OPSET == 2:
            continue
        # single-line match arm deletion (`pattern => result,`) inside eval / convert style matches
        if re.match(r'^\s*\(?[A-Za-z_:(),| &*]+\)?\s*(if [^=]+)?=> .*,\s*$', line) and '_ =>' not in line and path.endswith('.rs'):
            out.append((i, line, '', 'delete arm'))
    seen = set()
    uniq = []
    for c in out:
        if (c[0], c[2]) not in seen:
            seen.add((c[0], c[2]))
            uniq.append(c)
    return uniq


def run(cmd, cwd, timeout, env=None):
    try:
        p = subprocess.run(cmd, cwd=cwd, shell=True, stdout=subprocess.PIPE, stderr=subprocess.STDOUT, timeout=timeout, env=env)
        return p.returncode, p.stdout.decode(errors='replace')
    except subprocess.TimeoutExpired:
        return 124, 'timeout'


def main():
    out = sys.argv[1]
    files = list(FILES)
    maxn = 10 ** 9
    seed = 1
    args = sys.argv[2:]
    while args:
        a = args.pop(0)
        if a == '--files':
            files = args.pop(0).split(',')
        elif a == '--max':
            maxn = int(args.pop(0))
        elif a == '--seed':
            seed = int(args.pop(0))
        elif a == '--set':
            global OPSET
            OPSET = int(args.pop(0))
    os.makedirs(out, exist_ok=True)
    wt = os.path.join(out, 'wt')
    if not os.path.isdir(wt):
        subprocess.check_call(f'git -C {REPO} worktree add -q --detach {wt} HEAD', shell=True)
    mh = os.path.join(out, 'mh')
    os.makedirs(mh, exist_ok=True)
    subprocess.check_call(f'rsync -a --delete --exclude target {VERIF}/harness/ {mh}/harness/', shell=True)
    subprocess.check_call(f"sed -i 's#reval = {{ path = \"/repo\" }}#reval = {{ path = \"{wt}\" }}#' {mh}/harness/Cargo.toml", shell=True)
    shutil.copy(f'{VERIF}/KNOWN_FINDINGS.txt', mh)
    subprocess.check_call(f'rsync -a {VERIF}/regressions {mh}/', shell=True)
    env = dict(os.environ, CARGO_NET_OFFLINE='true', CARGO_TARGET_DIR=os.path.join(out, 'target'), VERIF_DIR=mh)
    wenv = dict(os.environ, CARGO_NET_OFFLINE='true', CARGO_TARGET_DIR=os.path.join(out, 'wt-target'))
    muts = []
    for f in files:
        text = open(os.path.join(wt, f)).read()
        for (i, old, new, desc) in candidates(f, text):
            muts.append((f, i, old, new, desc))
    random.Random(seed).shuffle(muts)
    muts = muts[:maxn]
    done = set()
    resf = os.path.join(out, 'results.jsonl')
    if os.path.exists(resf):
        for l in open(resf):
            r = json.loads(l)
            done.add((r['file'], r['line'], r['desc']))
    print(f'{len(muts)} mutants ({len(done)} already done)', flush=True)
    for k, (f, i, old, new, desc) in enumerate(muts):
        if (f, i + 1, desc) in done:
            continue
        path = os.path.join(wt, f)
        orig = open(path).read()
        lines = orig.split('\n')
        assert lines[i] == old
        lines[i] = new
        open(path, 'w').write('\n'.join(lines))
        rec = {'file': f, 'line': i + 1, 'desc': desc, 'old': old.strip(), 'new': new.strip()}
        t0 = time.time()
        try:
            rc, log = run('cargo build --offline -q', wt, 600, wenv)
            if rc != 0:
                rec['status'] = 'does-not-compile'
                continue
            rc, log = run('cargo test --offline -q', wt, 900, wenv)
            if rc != 0:
                rec['status'] = 'killed-by-existing-tests'
                continue
            rc, log = run('cargo build --release --offline -q --bins', os.path.join(mh, 'harness'), 900, env)
            if rc != 0:
                rec['status'] = 'harness-does-not-compile'
                rec['log'] = log[-400:]
                continue
            killed = []
            for c in FILES.get(f, []):
                b = 'rvv_c18' if c == 'C18' else 'rvv'
                rc, log = run(f'{env["CARGO_TARGET_DIR"]}/release/{b} {c} quick', mh, 900, env)
                if 'VIOLATION' in log:
                    killed.append(c)
                    break  # first relevant check that kills is enough
                if rc not in (0, 1):
                    killed.append(f'{c}(rc={rc})')
                    break
            rec['status'] = 'killed' if killed else 'SURVIVED'
            rec['killed_by'] = killed
        finally:
            open(path, 'w').write(orig)
            rec['secs'] = round(time.time() - t0, 1)
            open(resf, 'a').write(json.dumps(rec) + '\n')
            print(k, rec['status'], f, i + 1, desc, rec.get('killed_by', ''), flush=True)
    # summary
    stats = {}
    for l in open(resf):
        r = json.loads(l)
        stats[r['status']] = stats.get(r['status'], 0) + 1
    print(json.dumps(stats))


if __name__ == '__main__':
    main()
