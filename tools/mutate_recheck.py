#!/usr/bin/env python3
"""tools/mutate_recheck.py <scratch-dir> [harness-dir]
Second pass of the mutation analysis: every mutant that tools/mutate.py recorded as SURVIVED (it had only run the checks
mapped to the mutated file) is applied again in the scratch worktree and confronted with ALL 19 quick checks, through a
scratch copy of the harness (default /verif/harness) pointed at the worktree. Results: <scratch-dir>/recheck.jsonl."""
import json, os, subprocess, sys, shutil, time

out = sys.argv[1]
hsrc = sys.argv[2] if len(sys.argv) > 2 else '/verif/harness'
vsrc = os.path.dirname(hsrc.rstrip('/'))
wt = os.path.join(out, 'wt')
mh = os.path.join(out, 'mh2')
os.makedirs(mh, exist_ok=True)
subprocess.check_call(f'rsync -a --delete --exclude target {hsrc}/ {mh}/harness/', shell=True)
subprocess.check_call(f"sed -i 's#reval = {{ path = \"/repo\" }}#reval = {{ path = \"{wt}\" }}#' {mh}/harness/Cargo.toml", shell=True)
shutil.copy(f'{vsrc}/KNOWN_FINDINGS.txt', mh)
subprocess.check_call(f'rsync -a {vsrc}/regressions {mh}/', shell=True)
env = dict(os.environ, CARGO_NET_OFFLINE='true', CARGO_TARGET_DIR=os.path.join(out, 'target2'), VERIF_DIR=mh)
wenv = dict(os.environ, CARGO_NET_OFFLINE='true', CARGO_TARGET_DIR=os.path.join(out, 'wt-target'))
CHECKS = ['C%02d' % i for i in range(1, 20)]


def run(cmd, cwd, timeout, env=None):
    try:
        p = subprocess.run(cmd, cwd=cwd, shell=True, stdout=subprocess.PIPE, stderr=subprocess.STDOUT, timeout=timeout, env=env)
        return p.returncode, p.stdout.decode(errors='replace')
    except subprocess.TimeoutExpired:
        return 124, 'timeout'


recs = [json.loads(l) for l in open(os.path.join(out, 'results.jsonl'))]
surv = [r for r in recs if r['status'] == 'SURVIVED']
print(len(surv), 'survivors to recheck', flush=True)
resf = os.path.join(out, 'recheck.jsonl')
done = set()
if os.path.exists(resf):
    for l in open(resf):
        r = json.loads(l)
        done.add((r['file'], r['line'], r['desc']))
for r in surv:
    if (r['file'], r['line'], r['desc']) in done:
        continue
    path = os.path.join(wt, r['file'])
    orig = open(path).read()
    lines = orig.split('\n')
    i = r['line'] - 1
    assert lines[i].strip() == r['old'], (lines[i], r['old'])
    indent = lines[i][:len(lines[i]) - len(lines[i].lstrip())]
    lines[i] = indent + r['new'] if r['new'] else ''
    open(path, 'w').write('\n'.join(lines))
    rec = dict(r)
    t0 = time.time()
    try:
        rc, log = run('cargo build --release --offline -q --bins', os.path.join(mh, 'harness'), 1200, env)
        if rc != 0:
            rec['recheck'] = 'harness-does-not-compile'
            continue
        killed = []
        for c in CHECKS:
            b = 'rvv_c18' if c == 'C18' else 'rvv'
            rc, log = run(f'{env["CARGO_TARGET_DIR"]}/release/{b} {c} quick', mh, 900, env)
            if 'VIOLATION' in log:
                killed.append(c)
            elif rc not in (0, 1):
                killed.append(f'{c}(rc={rc})')
        rec['recheck'] = 'killed' if killed else 'SURVIVED'
        rec['killed_by_all'] = killed
    finally:
        open(path, 'w').write(orig)
        rec['secs2'] = round(time.time() - t0, 1)
        open(resf, 'a').write(json.dumps(rec) + '\n')
        print(rec['recheck'], r['file'], r['line'], r['desc'], rec.get('killed_by_all', ''), flush=True)
print('RECHECK-DONE')
