#!/bin/bash
# For every kept seeded change: apply it to /repo, run the target property's quick check through ./check,
# undo it straight afterwards, and record the outcome in seeded/<id>/meta.json ("run_against_repo").
cd /verif
git -C /repo status --short | grep -q . && { echo "/repo is not clean"; exit 2; }
for d in seeded/C*-*; do
  [ -f "$d/patch.diff" ] || continue
  grep -q run_against_repo "$d/meta.json" 2>/dev/null && [ -z "${SEED_CONFIRM_ALL:-}" ] && continue
  id=$(basename "$d" | cut -c1-3)
  if ! git -C /repo apply --check "$PWD/$d/patch.diff" 2>/dev/null; then echo "$d: does not apply to /repo"; continue; fi
  git -C /repo apply "$PWD/$d/patch.diff"
  out=$(./check "$id" quick 2>/dev/null); rc=$?
  git -C /repo checkout -- .
  line=$(echo "$out" | grep -m1 "^VIOLATION")
  detail=$(echo "$out" | grep -m1 "^DETAIL" | cut -c1-500)
  python3 - "$d/meta.json" "$id" "$rc" "$line" "$detail" <<'PY'
import json,sys
p,id,rc,line,detail=sys.argv[1:6]
m=json.load(open(p))
m['run_against_repo']={'commands':[f'git -C /repo apply seeded/{p.split("/")[1]}/patch.diff', f'./check {id} quick', 'git -C /repo checkout -- .'],
  'exit_code':int(rc),'violation_line':line,'detail':detail}
json.dump(m,open(p,'w'),indent=1)
PY
  echo "$d rc=$rc $line"
done
git -C /repo status --short
