#!/usr/bin/env python3
"""Regenerates /verif/MANIFEST.json from the table below (run after adding a property check)."""
import json, os, sys
HERE = os.path.dirname(os.path.dirname(os.path.abspath(__file__)))

# id -> (technique, level text, level note, design ref)
CHECKS = {
 "C01": ("property-based testing: bounded-exhaustive operand enumeration + seeded random expression trees (proptest, shrinking) against a reference evaluator; panic-catching totality oracle",
         "Exploration: every node kind x every operand tuple of a 130-value boundary pool (exhaustive), all depth-2 compositions over an extremes pool, and seeded random trees to depth 6 are evaluated under a panic-catching boundary; a panic, a Pending future, or a value where the exact result is out of range is a violation. Holds on what was explored; absence beyond it is not established.",
         "Trusts the reference evaluator's range rules (harness/src/model/eval.rs) and the primitive checked arithmetic of std / rust_decimal / chrono; build uses overflow-checks=on.",
         "DESIGN.md §4 C01"),
}

PENDING_REASON = "check not built yet in this session (work in progress; see DESIGN.md §4 for the planned generated-input check)"
ALL = ["C%02d" % i for i in range(1, 20)]

def main():
    checks = []
    for pid in ALL:
        if pid not in CHECKS:
            continue
        tech, text, note, ref = CHECKS[pid]
        checks.append({
            "property_id": pid,
            "quick_cmd": f"./check {pid} quick",
            "thorough_cmd": f"./check {pid} thorough",
            "evidence_file": f"/verif/evidence/{pid}.json",
            "replay_cmd_template": f"./check {pid} --replay {{path}}",
            "engine": "rvv",
            "level_claimed": {"category": "exploration", "text": text, "design_ref": ref},
            "level_note": note,
            "technique": tech,
        })
    manifest = {
        "version": 1,
        "setup_cmd": "cd /verif/harness && CARGO_NET_OFFLINE=true cargo build --release --offline --bins",
        "hooks": {
            "guard": "none",
            "enable": "no hooks: every observation point is public API; checks build /repo's working tree as a path dependency of /verif/harness",
            "baseline_off_cmd": "cd /repo && cargo test --workspace --no-fail-fast --offline",
            "source_commits": [],
            "add_only": True,
        },
        "engines": [
            {"name": "rvv", "path": "/verif/harness", "serves_properties": sorted(CHECKS.keys()),
             "kind_free_text": "Rust harness (proptest + rayon): bounded-exhaustive enumerations and seeded random generation with shrinking against reference evaluator / reference parser / models; one binary, ./check <ID> quick|thorough|--replay"},
        ],
        "checks": checks,
        "notes": "Known findings and fixed defects: /verif/KNOWN_FINDINGS.txt. Seeds: VERIF_SEED (default 0xC0FFEE). Exit 2 = infrastructure problem, never a violation.",
        "not_applicable": [{"property_id": p, "reason": PENDING_REASON} for p in ALL if p not in CHECKS],
    }
    with open(os.path.join(HERE, "MANIFEST.json"), "w") as f:
        json.dump(manifest, f, indent=1)
        f.write("\n")

if __name__ == "__main__":
    main()
