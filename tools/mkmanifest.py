#!/usr/bin/env python3
"""Regenerates /verif/MANIFEST.json from the table below (run after adding a property check)."""
import json, os, sys
HERE = os.path.dirname(os.path.dirname(os.path.abspath(__file__)))

# id -> (technique, level text, level note, design ref)
CHECKS = {
 "C02": ("property-based differential testing against an independent reference evaluator: bounded-exhaustive operand enumeration (depth 1 and 2) + seeded random typed expression trees with shrinking",
         "Exploration: every node kind x every ordered operand tuple of a boundary pool and a mid-range pool, every depth-2 composition over a reduced pool, and seeded random typed trees to depth 8 are evaluated and compared (value or error class) with a reference evaluator written from the property statements. Holds on what was explored.",
         "Trusts the reference evaluator (operator table of DESIGN.md §3.3; self-tested against the repository's own expected values at start-up) and the primitive arithmetic of std / rust_decimal / chrono.",
         "DESIGN.md §4 C02"),
 "C03": ("property-based testing: exhaustive type-pair cell enumeration against an independent support table + random trees with a buried wrongly-typed literal against the reference evaluator",
         "Exploration: every unary/binary/ternary node kind x every ordered pair of a pool covering all 9 non-None types (including the values that coincide after coercion) is judged by a support table of its own (unsupported => type error, == across types => false, only casts change type); buried mismatches in random typed trees are compared with the reference evaluator.",
         "Trusts the support table in harness/src/props/c03.rs and the reference evaluator for the tree part.",
         "DESIGN.md §4 C03"),
 "C04": ("property-based testing: exhaustive None-position cell enumeration against the statement's table + random trees with missing lookups against the reference evaluator",
         "Exploration: every node kind x None in each operand position x every boundary-pool value as the other operand (exhaustive) against the statement's list transcribed as a table; random typed trees in which None arises from lookups that miss, compared with the reference evaluator.",
         "Trusts the table in harness/src/props/c04.rs and the reference evaluator for the tree part.",
         "DESIGN.md §4 C04"),
 "C05": ("model-based property testing over invocation histories: call-logging non-cacheable probes, exhaustive lazy-operand family + seeded random lazy/strict trees, oracle = reference evaluator's predicted call sequence and first error",
         "Exploration: the exact sequence of user-function invocations and the result/first error are compared with the reference evaluator's (lazy if/and/or/==, everything else once, left to right, key order) on an exhaustive small family and on seeded random boolean-typed trees to depth 5.",
         "Observation only through the harness's logging probes registered in a RuleSet; trusts the reference evaluator's laziness rules.",
         "DESIGN.md §4 C05"),
 "C10": ("property-based testing with unique-leaf inputs: generated nested inputs x access paths (present, absent at each level, off-by-one, wrong step kind) and near-miss symbol/function tables; oracle = direct walk of the input",
         "Exploration: seeded random nested inputs with unique leaf tokens and near-miss keys x generated access paths, through constructors and through text, compared with a direct walk written in the check itself; symbol/function lookups over near-miss name pools must resolve exactly or fail naming the name.",
         "Trusts the direct walk in harness/src/props/c10.rs.",
         "DESIGN.md §4 C10"),
 "C01": ("property-based testing: bounded-exhaustive operand enumeration + seeded random expression trees (proptest, shrinking) against a reference evaluator; panic-catching totality oracle",
         "Exploration: every node kind x every operand tuple of a 130-value boundary pool (exhaustive), all depth-2 compositions over an extremes pool, and seeded random trees to depth 6 are evaluated under a panic-catching boundary; a panic, a Pending future, or a value where the exact result is out of range is a violation. Holds on what was explored; absence beyond it is not established.",
         "Trusts the reference evaluator's range rules (harness/src/model/eval.rs) and the primitive checked arithmetic of std / rust_decimal / chrono; build uses overflow-checks=on.",
         "DESIGN.md §4 C01"),
}

PENDING_REASON = "check not built yet in this session (work in progress; see DESIGN.md §4 for the planned generated-input check)"
ALL = ["C%02d" % i for i in range(1, 20)]

def main():
    checks = []
    for pid in ALL:
        if pid not in CHECKS:
            continue
        tech, text, note, ref = CHECKS[pid]
        checks.append({
            "property_id": pid,
            "quick_cmd": f"./check {pid} quick",
            "thorough_cmd": f"./check {pid} thorough",
            "evidence_file": f"/verif/evidence/{pid}.json",
            "replay_cmd_template": f"./check {pid} --replay {{path}}",
            "engine": "rvv",
            "level_claimed": {"category": "exploration", "text": text, "design_ref": ref},
            "level_note": note,
            "technique": tech,
        })
    manifest = {
        "version": 1,
        "setup_cmd": "cd /verif/harness && CARGO_NET_OFFLINE=true cargo build --release --offline --bins",
        "hooks": {
            "guard": "none",
            "enable": "no hooks: every observation point is public API; checks build /repo's working tree as a path dependency of /verif/harness",
            "baseline_off_cmd": "cd /repo && cargo test --workspace --no-fail-fast --offline",
            "source_commits": [],
            "add_only": True,
        },
        "engines": [
            {"name": "rvv", "path": "/verif/harness", "serves_properties": sorted(CHECKS.keys()),
             "kind_free_text": "Rust harness (proptest + rayon): bounded-exhaustive enumerations and seeded random generation with shrinking against reference evaluator / reference parser / models; one binary, ./check <ID> quick|thorough|--replay"},
        ],
        "checks": checks,
        "notes": "Known findings and fixed defects: /verif/KNOWN_FINDINGS.txt. Seeds: VERIF_SEED (default 0xC0FFEE). Exit 2 = infrastructure problem, never a violation.",
        "not_applicable": [{"property_id": p, "reason": PENDING_REASON} for p in ALL if p not in CHECKS],
    }
    with open(os.path.join(HERE, "MANIFEST.json"), "w") as f:
        json.dump(manifest, f, indent=1)
        f.write("\n")

if __name__ == "__main__":
    main()
