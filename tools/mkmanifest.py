#!/usr/bin/env python3
"""Regenerates /verif/MANIFEST.json from the table below (run after adding a property check)."""
import json, os, sys
HERE = os.path.dirname(os.path.dirname(os.path.abspath(__file__)))

# id -> (technique, level text, level note, design ref)
CHECKS = {
 "C02": ("property-based differential testing against an independent reference evaluator: bounded-exhaustive operand enumeration (depth 1 and 2) + seeded random typed expression trees with shrinking",
         "Exploration: every node kind x every ordered operand tuple of a boundary pool and a mid-range pool, every depth-2 composition over a reduced pool, every binary kind over two structurally identical operands (NaN-valued and others), every public way of writing a literal, and seeded random typed trees (pools include leap seconds, word-final sigma and other context-sensitive case mappings, maps holding none) to depth 8 are evaluated and compared (value or error class) with a reference evaluator written from the property statements. Holds on what was explored.",
         "Trusts the reference evaluator (operator table of DESIGN.md §3.3; self-tested against the repository's own expected values at start-up) and the primitive arithmetic of std / rust_decimal / chrono.",
         "DESIGN.md §4 C02"),
 "C03": ("property-based testing: exhaustive type-pair cell enumeration against an independent support table + random trees with a buried wrongly-typed literal against the reference evaluator",
         "Exploration: every unary/binary/ternary node kind x every ordered pair of a pool covering all 9 non-None types (including the values that coincide after coercion) and every index step (text key / position built through the Index variants and every From impl, digit-looking texts, maps with digit keys) is judged by a support table of its own; an ill-typed element anywhere in a searched list literal of 2-40 elements is a type error (unsupported => type error, == across types => false, only casts change type); buried mismatches in random typed trees are compared with the reference evaluator.",
         "Trusts the support table in harness/src/props/c03.rs and the reference evaluator for the tree part.",
         "DESIGN.md §4 C03"),
 "C04": ("property-based testing: exhaustive None-position cell enumeration against the statement's table + random trees with missing lookups against the reference evaluator",
         "Exploration: every node kind x None in each operand position x every boundary-pool value as the other operand (exhaustive) against the statement's list transcribed as a table; 25 None-valued / None-rule-valued conditions in 10 if/and/or frames through constructors, text, Expr::evaluate and a ruleset; every cell also with its operands supplied by symbols and by input fields; 20 expressions over an input that is None as a whole through four entry points; random typed trees in which None arises from lookups that miss, compared with the reference evaluator.",
         "Trusts the table in harness/src/props/c04.rs and the reference evaluator for the tree part.",
         "DESIGN.md §4 C04"),
 "C05": ("model-based property testing over invocation histories: call-logging non-cacheable probes, exhaustive lazy-operand family + seeded random lazy/strict trees, oracle = reference evaluator's predicted call sequence and first error",
         "Exploration: the exact sequence of user-function invocations and the result/first error are compared with the reference evaluator's (lazy if/and/or/==, everything else once, left to right, key order) on an exhaustive small family (incl. left/right-nested chains of every binary kind over typed call results lists/maps of up to 300 items, membership in list literals with the match at every position, else-if ladders repeating one subject) and on seeded random boolean-typed trees to depth 5.",
         "Observation only through the harness's logging probes registered in a RuleSet; trusts the reference evaluator's laziness rules.",
         "DESIGN.md §4 C05"),
 "C06": ("property-based robustness testing / fuzzing of the parsers: exhaustive short sequences over the full token alphabet + grammar-generated texts with token/character mutations, out-of-range numerals, all escape forms, arbitrary Unicode; panic-catching oracle + reference literal-range oracle",
         "Exploration: every generated text is given to Expr::parse, Rule::parse and Rule::parse behind a comment+metadata prefix under a panic-catching boundary (also from a thread-local destructor while the thread exits, for comment blocks indented with multi-byte white space, and - in child processes built with the release and with the dev profile - for flat texts of 4 kB to 2 MB); a panic, or acceptance of a literal that the reference conversion routines classify as denoting no value, is a violation.",
         "Trusts the reference literal conversion routines (harness/src/model/parse.rs) for the out-of-range oracle.",
         "DESIGN.md §4 C06"),
 "C07": ("differential property testing against an independent recursive-descent reference parser: bounded-exhaustive token sequences (viable-prefix-pruned beyond the exhaustive length), class expansion, and print/parse round trips of enumerated and random trees under three parenthesisation modes",
         "Exploration: accept/reject and tree equality of Expr::parse against a reference lexer + recursive-descent parser written from the precedence table, on every token sequence up to length 4 over one representative per token class, every extension of viable prefixes to length 6-7, class-expanded variants (incl. reserved-but-unlexed words as identifiers), texts with `/* */` look-alikes and free-text comments holding brackets and quotes, 140 near-miss texts of neighbouring languages next to their nearest derivable spelling, every accepted constant sequence bare / parenthesised / wrapped as the value of a rule's metadata item, and on minimal/full/random renderings of every depth-2 tree and of random trees.",
         "Trusts the reference lexer/parser (harness/src/model/{lex,parse}.rs) and the harness printers.",
         "DESIGN.md §4 C07"),
 "C08": ("property-based round-trip testing of literal spellings (value -> harness printer -> Expr::parse) for ints in four radices, floats, decimals, strings with escapes; differential word classification against the reference lexer; metamorphic layout/comment insertion",
         "Exploration: literals printed by the harness's own routines must parse to exactly the value (ints over the whole i128 range incl. limits +-1, float bits, decimal mantissa+scale, string contents); words near keywords must be classified as the reference lexer does; two random layouts of one token sequence must give the same tree.",
         "Trusts std's f64 parsing as the IEEE reference and the harness's digit/escape printers; decimal literals beyond the 96-bit mantissa are left to C06 (totality only).",
         "DESIGN.md §4 C08"),
 "C14": ("property-based testing with a constructive oracle (rule texts assembled from generated line scripts: comment lines anywhere, metadata items, expression; expected name/description/metadata/expression known by construction) + exhaustive token-level differential of the rule grammar against a reference rule parser (all extensions of viable prefixes over a 16-symbol alphabet incl. @ ; :)",
         "Exploration: every token sequence up to length 8 (quick) / 9 (thorough, sampled beyond the budget) extending a viable prefix must be accepted/rejected exactly as the reference derivation says, with the same name, metadata (last occurrence wins) and expression, and MissingRuleName exactly when no @name item is present; then seeded random line scripts: Rule::parse's name(), description(), iter_metadata() and expr() (or its error) are compared with what the script was built from.",
         "Trusts the script assembler (harness/src/props/c14.rs) and, for the expression part, Expr::parse as stated by the property.",
         "DESIGN.md §4 C14"),
 "C16": ("property-based round-trip testing: Expr::parse(&e.to_string()) == e over exhaustive depth-2 families, literal-leaf families and seeded random parser-image trees; metamorphic evaluation check on a sample",
         "Exploration: every enumerated and random tree of the parser's image is printed with Display and parsed back, through Expr::parse and as the expression of a rule text through Rule::parse; the result must equal the tree (literals exactly); a sample is also evaluated before/after on random inputs. Non-finite float literals are a known finding, isolated by re-checking with the literal replaced.",
         "Trusts the image generator to stay inside the parser's image (cross-checked by C07's print/parse round trip).",
         "DESIGN.md §4 C16"),
 "C09": ("model-based property testing of ruleset evaluation: exhaustive small rulesets over 18 rule kinds (every subset/position of failing rules) + seeded random rulesets and serde inputs; oracle = reference evaluator per rule and serialize/evaluate equivalence",
         "Exploration: outcome count, order, carried rule and value (vs the reference evaluator on the rule alone) for every ruleset of 0-4 rules over 18 kinds (incl. symbols as operands of membership tests), for rules that differ only in a zero's sign / a decimal's scale, zero-sized user functions and odd symbol names, for rulesets of 31-1000 rules and for random rulesets evaluated on 1-3 inputs by the same instance, built through every builder entry point; evaluate(&T) vs evaluate_value(&serialize(T)) for generated serde values including failing Serialize impls.",
         "Trusts the reference evaluator and the serde data-model generator/model (harness/src/sval.rs).",
         "DESIGN.md §4 C09"),
 "C11": ("stateful model-based property testing over call histories: generated rulesets of probe calls with similar-but-distinct arguments, failure sets and fail-first plans, 1-3 consecutive evaluations; oracle = per-evaluation cache model (invocation counts per key, observed values, failure outcomes)",
         "Exploration: an exhaustive family over all ordered pairs of 38 equal / similar / colliding arguments x function identity x cacheability x failure x rule split, long arguments that agree in their first 2 kB, probes that answer none and probes that stop being cacheable after a few invocations, calls under every node kind, arguments spelled as `facts` / a field / an equal literal, evaluations with 129-1000 distinct calls, interleaved evaluations of one ruleset under a harness-owned schedule, and seeded random call histories (functions registered through every builder entry point, failures raised as plain and as crate errors); invocation multisets and outcomes are compared with the cache model.",
         "Invocations are observed through the harness's own probes; for arguments that are == yet distinguishable (0.0/-0.0, d1.0/d1.00, NaN) only the observed values are asserted, not the invocation counts.",
         "DESIGN.md §4 C11"),
 "C12": ("schedule-owning property testing: suspending probes + hand-rolled executor; exhaustive enumeration of poll orders and drop points for a small core, seeded random schedules beyond; metamorphic oracle: any schedule == run-alone baseline",
         "Exploration: 4 small rulesets x 2 evaluations x all 1024 poll orders of 10 choices x 13 drop points (exhaustive), histories of 1-400 abandoned evaluations, histories of 1-300 evaluate(&T) calls whose input fails to serialize, up to 250 evaluations of deeply nested rules in flight at once, identical inputs in flight together, sequences of ==-equal but distinguishable inputs given to one ruleset instance, one evaluation of 600 cacheable calls, seeded histories of plain expression evaluations on one thread, and seeded random schedules of 1-4 interleaved evaluations with optional abandonment; outcomes, attributed invocations, input immutability, rule identity and post-history evaluation are compared with the sequential baseline.",
         "Suspension points exist only inside user functions (owned by the harness); failure plans are stateless so a history-independent baseline exists.",
         "DESIGN.md §4 C12"),
 "C13": ("property-based differential testing of the serializer: generated values of all 29 serde data-model kinds through a hand-written Serialize (incl. failing ones); oracles = prescribed faithful image, serde_json::to_value, panic-catching totality",
         "Exploration: an exhaustive list of every kind at every limit (alone and inside every wrapper kind), sequences / maps / structs / texts of 31-65537 entries and nestings of 8-300 levels through every wrapper kind, failure messages of 0-70000 bytes with multi-byte characters at every offset, raw-identifier field names, 79 real-world Serialize implementations (serde-derive with rename/skip/flatten/tag/untagged attributes, std, chrono and serde_json types, failing ones) and seeded random nested values; the image must equal the prescribed one (or be an error where prescribed), equal serde_json's image on JSON-representable data, and never panic; the same through RuleSet::evaluate(&T).",
         "Trusts serde_json as reference image and the model in harness/src/sval.rs.",
         "DESIGN.md §4 C13"),
 "C15": ("stateful model-based property testing of the builder: generated histories of builder calls against a model (ordered rule names, function set, symbol map), name sweep with an independent Unicode identifier oracle (unicode-ident), probe rules on the built ruleset",
         "Exploration (random histories, and long ones: 31-130 distinct rule / function / symbol names accepted through single and batch calls, then each again; Symbols tables built by From / insert / append; rule and function name pools overlap, functions differ in cacheability): every call's Ok/Err (and the name inside the error) is predicted by the model; the built ruleset is probed for exactly the accepted rules in order, each accepted function under its own name, unknown-function errors for refused names and most-recent symbol values.",
         "Identifier well-formedness = ('_' | XID_Start) XID_Continue* by unicode-ident; characters on which unicode-ident and unicode-xid disagree are excluded and counted.",
         "DESIGN.md §4 C15"),
 "C17": ("property-based testing with exhaustive cores: all 8/16-bit values, +-2^13..2^17 windows around every integer limit into every integer type, every Value variant x every extraction, collections with a bad element at each position; oracle = i128 range arithmetic and round-trip equality",
         "Exploration (exhaustive for the stated finite cores): conversions into Value and back return the original; narrowing succeeds exactly when in range and otherwise gives the overflow error; wrong kinds (incl. strings that spell a value of the wanted kind, lists of [key, value] pairs, maps keyed 0..n and collections of up to 1000 entries) give a type error carrying an equal value; collections convert iff every element does.",
         "Oracle is plain integer range arithmetic written in the check.",
         "DESIGN.md §4 C17"),
 "C18": ("compile-time auto-trait assertions as build precondition + randomized concurrent execution: N in {2,4,16} evaluations of one Arc<RuleSet> (plus large shared rulesets: 96-400 deeply nested suspending evaluations in flight, 100 rules x 500 call sites hammered by 8-16 threads; identical inputs evaluated concurrently; every other task cancelled midway, then every input evaluated again; one evaluation held suspended while 70 000 others run / for 6.5 s while 3000 others start; evaluate(&struct) held while evaluate(&struct.first_field) runs) on a tokio multi-thread runtime and on raw threads, compared with the sequential baseline",
         "Exploration: the dynamic half samples real thread interleavings (it does not enumerate them) and compares outcomes and per-evaluation invocation multisets with sequential runs; the static half (Send/Sync of 10 public types, Send of 4 evaluation futures) is decided by the compiler when the check binary is built and a failure there is reported as the violation.",
         "Weak evidence for 'all interleavings' by design; reval holds no shared mutable state. The static half is not a generated-input check (DESIGN.md §7).",
         "DESIGN.md §4 C18"),
 "C19": ("fault-isolating fuzzing by depth: child process per (construct, depth, operation, stack size) on a geometric depth ladder; oracle = exit status (normal vs killed by signal); thresholds relative to recorded known findings",
         "Exploration: 51 recursive and 3 flat constructs (incl. left-deep chains of every binary operator, deep terms followed by a syntax error and deep metadata values) x 13 operations (incl. evaluation as a rule of a ruleset assembled through with_rule / with_rules, comparison of two differently named rules holding the tree, debug-printing a rule, dropping a 40-rule ruleset), climbed by a release and by a dev-profile build of the child; recorded safe depth = half of the largest depth observed to complete x 2 stack sizes, each ladder (with seeded depth jitter) climbed to 2^17 (quick) / 2^18 (thorough) or the first crash. Crashes deeper than the recorded safe depth of a listed known finding are reported as KNOWN-FINDING; any other crash is a violation.",
         "Thresholds depend on the harness's release profile and the two pinned stack sizes.",
         "DESIGN.md §4 C19"),
 "C10": ("property-based testing with unique-leaf inputs: generated nested inputs x access paths (present, absent at each level, off-by-one, wrong step kind) and near-miss symbol/function tables; oracle = direct walk of the input",
         "Exploration: seeded random nested inputs with unique leaf tokens and near-miss keys x generated access paths, through constructors, through the From impls of Index and through text, compared with a direct walk written in the check itself; bundles of 2-5 paths inside one evaluation rooted at fields and at same-named symbols; lists / maps of 31-1000 entries; symbol/function lookups over near-miss name pools must resolve exactly or fail naming the name.",
         "Trusts the direct walk in harness/src/props/c10.rs.",
         "DESIGN.md §4 C10"),
 "C01": ("property-based testing: bounded-exhaustive operand enumeration + seeded random expression trees (proptest, shrinking) against a reference evaluator; panic-catching totality oracle",
         "Exploration: every node kind x every operand tuple of a 130-value boundary pool (exhaustive), all depth-2 compositions over an extremes pool, seeded random trees to depth 6, and chains / towers of 18 operands of every operator over logged calls (each operand must run once: work linear in the expression) are evaluated under a panic-catching boundary, also from a thread-local destructor while the thread exits; a panic, a Pending future, or a value where the exact result is out of range is a violation. Holds on what was explored; absence beyond it is not established.",
         "Trusts the reference evaluator's range rules (harness/src/model/eval.rs) and the primitive checked arithmetic of std / rust_decimal / chrono; build uses overflow-checks=on.",
         "DESIGN.md §4 C01"),
}

PENDING_REASON = "check not built yet in this session (work in progress; see DESIGN.md §4 for the planned generated-input check)"
ALL = ["C%02d" % i for i in range(1, 20)]

def main():
    checks = []
    for pid in ALL:
        if pid not in CHECKS:
            continue
        tech, text, note, ref = CHECKS[pid]
        checks.append({
            "property_id": pid,
            "quick_cmd": f"./check {pid} quick",
            "thorough_cmd": f"./check {pid} thorough",
            "evidence_file": f"/verif/evidence/{pid}.json",
            "replay_cmd_template": f"./check {pid} --replay {{path}}",
            "engine": "rvv_c18" if pid == "C18" else "rvv",
            "level_claimed": {"category": "exploration", "text": text, "design_ref": ref},
            "level_note": note,
            "technique": tech,
        })
    manifest = {
        "version": 1,
        "setup_cmd": "cd /verif/harness && CARGO_NET_OFFLINE=true cargo build --release --offline --bins && CARGO_NET_OFFLINE=true cargo build --offline --bin rvv_deep",
        "hooks": {
            "guard": "none",
            "enable": "no hooks: every observation point is public API; checks build /repo's working tree as a path dependency of /verif/harness",
            "baseline_off_cmd": "cd /repo && cargo test --workspace --no-fail-fast --offline",
            "source_commits": [],
            "add_only": True,
        },
        "engines": [
            {"name": "rvv", "path": "/verif/harness", "serves_properties": sorted(CHECKS.keys()),
             "kind_free_text": "Rust harness (proptest + rayon): bounded-exhaustive enumerations and seeded random generation with shrinking against reference evaluator / reference parser / models; one binary, ./check <ID> quick|thorough|--replay"},
        ],
        "checks": checks,
        "notes": "Known findings and fixed defects: /verif/KNOWN_FINDINGS.txt. Seeds: VERIF_SEED (default 0xC0FFEE). Exit 2 = infrastructure problem, never a violation. The thorough tier adds a coverage-guided libFuzzer campaign (fuzz/run.sh, oracles inside the target) for C01, C02 (eval_diff), C06, C07, C08, C16 (parse_diff), C13 (ser_diff) and C03, C04, C05, C09, C10, C11, C12, C14, C15 (set_diff: the input bytes are the recipe of the property's own case generator, the oracle is the property's own check).",
        "not_applicable": [{"property_id": p, "reason": PENDING_REASON} for p in ALL if p not in CHECKS],
    }
    with open(os.path.join(HERE, "MANIFEST.json"), "w") as f:
        json.dump(manifest, f, indent=1)
        f.write("\n")

if __name__ == "__main__":
    main()
