#!/bin/bash
# tools/run_seed_ids.sh <base> <lane> <ID>... : runs seedcheck for the listed properties with the lane's own target dir
BASE="$1"; LANE="$2"; shift 2
export SEEDCHECK_TARGET=/tmp/mh/target$LANE
cd /verif
for id in "$@"; do
  out=$BASE/$id-out
  for n in 1 2; do
    [ -f "$out/patch$n.diff" ] || continue
    [ -f "$out/result$n.json" ] && grep -q caught_by "$out/result$n.json" && continue
    tools/seedcheck2.sh "$id" "$n" "$BASE"
  done
done
echo IDS-LANE-$LANE-DONE
