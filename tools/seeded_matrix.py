#!/usr/bin/env python3
"""Regenerates seeded/MATRIX.md from seeded/*/meta.json (no scratch directories needed)."""
import json, glob, os, re
rows = []
for mp in sorted(glob.glob('/verif/seeded/C*-*/meta.json'), key=lambda p: (p.split('/')[-2][:3], int(p.split('/')[-2][4:]))):
    m = json.load(open(mp))
    name = mp.split('/')[-2]
    pid = name[:3]
    caught = m.get('caught_by_quick_checks', [])
    rr = m.get('run_against_repo', {})
    notes = m.get('what_it_needs_to_manifest_and_why (author notes)', '').strip().splitlines()
    first = re.sub(r'^#+\s*', '', notes[0]) if notes else ''
    bl = next((v for k, v in m.items() if k.startswith('baseline')), None)
    base = '' if bl is None else (('target ' if bl['caught_by_target_property_check'] else 'target missed; ') + ('' if bl['caught_by_target_property_check'] else ('others: ' + ' '.join(bl['caught_by_quick_checks']) if bl['caught_by_quick_checks'] else 'no check')))
    rows.append((name, pid, caught, rr.get('exit_code'), base, first))
with open('/verif/seeded/MATRIX.md', 'w') as f:
    f.write('# Seeded changes and which checks catch them\n\n')
    f.write('Each change compiles, passes the 211 existing tests and fails its own demonstration (confirmed in a scratch worktree; details in each `meta.json`).\n\n')
    f.write('* `scratch matrix`: every property whose quick check printed a VIOLATION when all 19 quick checks were run against the changed tree in a scratch copy (harness as of that moment; some checks were strengthened afterwards, see DESIGN.md §8.4).\n')
    f.write('* `target on /repo`: exit code of `./check <target> quick` with the change applied to /repo itself and undone straight afterwards, with the checks as committed (1 = VIOLATION reported).\n\n')
    f.write('| change | target | target on /repo | scratch matrix (quick tier) | before strengthening (rounds 4, 5) | summary |\n|---|---|---|---|---|---|\n')
    n1 = 0
    for name, pid, caught, rc, line, first in rows:
        n1 += (rc == 1)
        f.write(f'| {name} | {pid} | {rc} | {" ".join(caught)} | {line} | {first[:150]} |\n')
    f.write(f'\n{len(rows)} changes; the target property\'s check reports a violation for {n1}; the other {len(rows) - n1} are reported by the check of the '
            f'property whose statement covers them (see the scratch-matrix column and DESIGN.md §8.4).\n')
print(len(rows), n1)
