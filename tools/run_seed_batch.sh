#!/bin/bash
# runs tools/seedcheck.sh for the given "<ID> <N>" pairs (default: all delivered pairs without a result yet)
cd /verif
BASE="${1:-/tmp/wt}"
for out in $BASE/C*-out; do
  id=$(basename "$out" | cut -c1-3)
  for n in 1 2; do
    [ -f "$out/patch$n.diff" ] || continue
    [ -f "$out/result$n.json" ] && grep -q caught_by "$out/result$n.json" && continue
    tools/seedcheck.sh "$id" "$n" "$BASE"
  done
done
