#!/usr/bin/env python3
"""tools/c19_known.py <evidence/C19.json> <KNOWN_FINDINGS.txt>
Prints `known:` lines (recorded safe depth = the largest depth observed to complete divided by --div, default 4; --all prints every crashed ladder, not only those without a line) for every (operation,
construct, stack) ladder of a thorough C19 run on the unchanged tree that crashed and has no line in the findings file yet.
Existing lines are never rewritten; the output is appended by hand after review (the check itself never writes the file)."""
import json, sys, re
ev, kf = sys.argv[1], sys.argv[2]
ALL = "--all" in sys.argv
DIV = int(sys.argv[sys.argv.index("--div") + 1]) if "--div" in sys.argv else 4
def find(o):
    if isinstance(o, dict):
        if 'thresholds' in o:
            return o['thresholds']
        for v in o.values():
            r = find(v)
            if r:
                return r
    return None
t = find(json.load(open(ev)))
have = set(re.findall(r'sig=(deep:\S+)', open(kf).read()))
for sig, v in sorted(t.items()):
    if not v['first_crash'] or (sig in have and not ALL):
        continue
    parts = sig.split(':')
    op, construct, stack = parts[1], parts[2], parts[3] + (' (child built with the dev profile)' if len(parts) > 4 else '')
    safe = v['safe_up_to'] // DIV
    print(f"known: property=C19 sig={sig} safe<={safe} {op} of a deeply nested `{construct}` expression exhausts a {stack} stack and aborts the process "
          f"(no depth limit anywhere; observed: completes at depth {v['safe_up_to']}, aborts at {v['first_crash']['depth']}); a crash at or below depth {safe} would be reported as new")
