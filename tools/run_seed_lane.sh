#!/bin/bash
# tools/run_seed_lane.sh <base> <lane 0|1> : runs seedcheck for the properties of one lane (even/odd) with its own target dir
BASE="$1"; LANE="$2"
export SEEDCHECK_TARGET=/tmp/mh/target$LANE
cd /verif
i=0
for out in $BASE/C*-out; do
  id=$(basename "$out" | cut -c1-3)
  i=$((i+1))
  [ $((i % 2)) -eq "$LANE" ] || continue
  for n in 1 2; do
    [ -f "$out/patch$n.diff" ] || continue
    [ -f "$out/result$n.json" ] && grep -q caught_by "$out/result$n.json" && continue
    tools/seedcheck.sh "$id" "$n" "$BASE"
  done
done
echo LANE-$LANE-DONE
