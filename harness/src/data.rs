//! Rendering, canonical comparison and JSON (replay) encoding of reval `Value` / `Expr`.

use chrono::{DateTime, TimeDelta, Utc};
use reval::expr::{Expr, Index};
use reval::value::Value;
use rust_decimal::Decimal;
use serde_json::{json, Value as J};
use std::collections::BTreeMap;

// ------------------------------------------------------------------------------------------
// rendering (unambiguous, for samples / distinct keys / messages)

pub fn show_value(v: &Value) -> String {
    match v {
        Value::String(s) => format!("{s:?}"),
        Value::Int(i) => format!("i{i}"),
        Value::Float(f) => {
            if f.is_nan() {
                "fNaN".into()
            } else if *f == 0.0 && f.is_sign_negative() {
                "f-0.0".into()
            } else {
                format!("f{f:e}")
            }
        }
        Value::Decimal(d) => format!("d{}e-{}", d.mantissa(), d.scale()),
        Value::Bool(b) => format!("{b}"),
        Value::DateTime(d) => format!("dt({},{})", d.timestamp(), d.timestamp_subsec_nanos()),
        Value::Duration(d) => format!("du({},{})", d.num_seconds(), d.subsec_nanos()),
        Value::Vec(v) => format!("[{}]", v.iter().map(show_value).collect::<Vec<_>>().join(",")),
        Value::Map(m) => format!(
            "{{{}}}",
            m.iter()
                .map(|(k, v)| format!("{k:?}:{}", show_value(v)))
                .collect::<Vec<_>>()
                .join(",")
        ),
        Value::None => "none".into(),
    }
}

pub fn type_name(v: &Value) -> &'static str {
    match v {
        Value::String(_) => "String",
        Value::Int(_) => "Int",
        Value::Float(_) => "Float",
        Value::Decimal(_) => "Decimal",
        Value::Bool(_) => "Bool",
        Value::DateTime(_) => "DateTime",
        Value::Duration(_) => "Duration",
        Value::Vec(_) => "Vec",
        Value::Map(_) => "Map",
        Value::None => "None",
    }
}

pub fn type_idx(v: &Value) -> usize {
    match v {
        Value::String(_) => 0,
        Value::Int(_) => 1,
        Value::Float(_) => 2,
        Value::Decimal(_) => 3,
        Value::Bool(_) => 4,
        Value::DateTime(_) => 5,
        Value::Duration(_) => 6,
        Value::Vec(_) => 7,
        Value::Map(_) => 8,
        Value::None => 9,
    }
}

/// Canonical equality used to compare implementation results with oracle results:
/// floats by bit pattern except that all NaNs are equal; decimals by numeric value when
/// `strict_scale` is false, by mantissa and scale when true.
pub fn same_value(a: &Value, b: &Value, strict_scale: bool) -> bool {
    match (a, b) {
        (Value::String(x), Value::String(y)) => x == y,
        (Value::Int(x), Value::Int(y)) => x == y,
        (Value::Float(x), Value::Float(y)) => (x.is_nan() && y.is_nan()) || x.to_bits() == y.to_bits(),
        (Value::Decimal(x), Value::Decimal(y)) => {
            if strict_scale {
                x.mantissa() == y.mantissa() && x.scale() == y.scale()
            } else {
                x == y
            }
        }
        (Value::Bool(x), Value::Bool(y)) => x == y,
        (Value::DateTime(x), Value::DateTime(y)) => x == y,
        (Value::Duration(x), Value::Duration(y)) => x == y,
        (Value::Vec(x), Value::Vec(y)) => {
            x.len() == y.len() && x.iter().zip(y).all(|(p, q)| same_value(p, q, strict_scale))
        }
        (Value::Map(x), Value::Map(y)) => {
            x.len() == y.len()
                && x.iter()
                    .zip(y)
                    .all(|((k1, p), (k2, q))| k1 == k2 && same_value(p, q, strict_scale))
        }
        (Value::None, Value::None) => true,
        _ => false,
    }
}

/// Strict structural equality of expression trees (literal leaves by `same_value(.., true)`).
pub fn same_expr(a: &Expr, b: &Expr) -> bool {
    use Expr as E;
    match (a, b) {
        (E::Value(x), E::Value(y)) => same_value(x, y, true),
        (E::Reference(x), E::Reference(y)) => x == y,
        (E::Symbol(x), E::Symbol(y)) => x == y,
        (E::Function(n1, x), E::Function(n2, y)) => n1 == n2 && same_expr(x, y),
        (E::Index(x, i), E::Index(y, j)) => i == j && same_expr(x, y),
        (E::If(a1, a2, a3), E::If(b1, b2, b3)) => same_expr(a1, b1) && same_expr(a2, b2) && same_expr(a3, b3),
        (E::Map(x), E::Map(y)) => {
            x.len() == y.len() && x.iter().zip(y).all(|((k1, p), (k2, q))| k1 == k2 && same_expr(p, q))
        }
        (E::Vec(x), E::Vec(y)) => x.len() == y.len() && x.iter().zip(y).all(|(p, q)| same_expr(p, q)),
        _ => {
            let (ka, ca) = node(a);
            let (kb, cb) = node(b);
            ka == kb
                && ka != "leaf"
                && ca.len() == cb.len()
                && ca.iter().zip(cb.iter()).all(|(p, q)| same_expr(p, q))
        }
    }
}

/// Node kind name and children for the uniform unary/binary node kinds
/// ("leaf" for the non-uniform kinds handled separately).
pub fn node(e: &Expr) -> (&'static str, Vec<&Expr>) {
    use Expr as E;
    match e {
        E::Not(a) => ("not", vec![a]),
        E::Neg(a) => ("neg", vec![a]),
        E::Some(a) => ("is_some", vec![a]),
        E::None(a) => ("is_none", vec![a]),
        E::Int(a) => ("int", vec![a]),
        E::Float(a) => ("float", vec![a]),
        E::Dec(a) => ("dec", vec![a]),
        E::DateTime(a) => ("datetime", vec![a]),
        E::Duration(a) => ("duration", vec![a]),
        E::UpperCase(a) => ("uppercase", vec![a]),
        E::LowerCase(a) => ("lowercase", vec![a]),
        E::Trim(a) => ("trim", vec![a]),
        E::Floor(a) => ("floor", vec![a]),
        E::Round(a) => ("round", vec![a]),
        E::Fract(a) => ("fract", vec![a]),
        E::Year(a) => ("year", vec![a]),
        E::Month(a) => ("month", vec![a]),
        E::Week(a) => ("week", vec![a]),
        E::Day(a) => ("day", vec![a]),
        E::Hour(a) => ("hour", vec![a]),
        E::Minute(a) => ("minute", vec![a]),
        E::Second(a) => ("second", vec![a]),
        E::Mult(a, b) => ("mult", vec![a, b]),
        E::Div(a, b) => ("div", vec![a, b]),
        E::Rem(a, b) => ("rem", vec![a, b]),
        E::Add(a, b) => ("add", vec![a, b]),
        E::Sub(a, b) => ("sub", vec![a, b]),
        E::Equals(a, b) => ("eq", vec![a, b]),
        E::NotEquals(a, b) => ("neq", vec![a, b]),
        E::GreaterThan(a, b) => ("gt", vec![a, b]),
        E::GreaterThanEquals(a, b) => ("gte", vec![a, b]),
        E::LessThan(a, b) => ("lt", vec![a, b]),
        E::LessThanEquals(a, b) => ("lte", vec![a, b]),
        E::And(a, b) => ("and", vec![a, b]),
        E::Or(a, b) => ("or", vec![a, b]),
        E::BitAnd(a, b) => ("bitand", vec![a, b]),
        E::BitOr(a, b) => ("bitor", vec![a, b]),
        E::BitXor(a, b) => ("bitxor", vec![a, b]),
        E::Contains(a, b) => ("contains", vec![a, b]),
        E::If(a, b, c) => ("if", vec![a, b, c]),
        E::Value(_) | E::Reference(_) | E::Symbol(_) | E::Function(..) | E::Index(..) | E::Map(_) | E::Vec(_) => {
            ("leaf", vec![])
        }
    }
}

pub const UNARY_KINDS: [&str; 22] = [
    "not", "neg", "is_some", "is_none", "int", "float", "dec", "datetime", "duration", "uppercase",
    "lowercase", "trim", "floor", "round", "fract", "year", "month", "week", "day", "hour", "minute",
    "second",
];
pub const BINARY_KINDS: [&str; 17] = [
    "mult", "div", "rem", "add", "sub", "eq", "neq", "gt", "gte", "lt", "lte", "and", "or", "bitand",
    "bitor", "bitxor", "contains",
];

/// Build a unary node through the public constructors.
pub fn mk1(kind: &str, a: Expr) -> Expr {
    match kind {
        "not" => Expr::not(a),
        "neg" => Expr::neg(a),
        "is_some" => Expr::some(a),
        "is_none" => Expr::none(a),
        "int" => Expr::int(a),
        "float" => Expr::float(a),
        "dec" => Expr::dec(a),
        "datetime" => Expr::datetime(a),
        "duration" => Expr::duration(a),
        "uppercase" => Expr::uppercase(a),
        "lowercase" => Expr::lowercase(a),
        "trim" => Expr::trim(a),
        "floor" => Expr::floor(a),
        "round" => Expr::round(a),
        "fract" => Expr::fract(a),
        "year" => Expr::year(a),
        "month" => Expr::month(a),
        "week" => Expr::week(a),
        "day" => Expr::day(a),
        "hour" => Expr::hour(a),
        "minute" => Expr::minute(a),
        "second" => Expr::second(a),
        _ => panic!("mk1: unknown kind {kind}"),
    }
}

pub fn mk2(kind: &str, a: Expr, b: Expr) -> Expr {
    match kind {
        "mult" => Expr::mult(a, b),
        "div" => Expr::div(a, b),
        "rem" => Expr::rem(a, b),
        "add" => Expr::add(a, b),
        "sub" => Expr::sub(a, b),
        "eq" => Expr::eq(a, b),
        "neq" => Expr::neq(a, b),
        "gt" => Expr::gt(a, b),
        "gte" => Expr::gte(a, b),
        "lt" => Expr::lt(a, b),
        "lte" => Expr::lte(a, b),
        "and" => Expr::and(a, b),
        "or" => Expr::or(a, b),
        "bitand" => Expr::bitwise_and(a, b),
        "bitor" => Expr::bitwise_or(a, b),
        "bitxor" => Expr::bitwise_xor(a, b),
        "contains" => Expr::contains(a, b),
        _ => panic!("mk2: unknown kind {kind}"),
    }
}

pub fn show_expr(e: &Expr) -> String {
    use Expr as E;
    match e {
        E::Value(v) => show_value(v),
        E::Reference(n) => format!("ref:{n}"),
        E::Symbol(n) => format!("sym:{n}"),
        E::Function(n, a) => format!("(call {n} {})", show_expr(a)),
        E::Index(a, Index::Map(k)) => format!("(field {} {k:?})", show_expr(a)),
        E::Index(a, Index::Vec(i)) => format!("(at {} {i})", show_expr(a)),
        E::Map(m) => format!(
            "(map {})",
            m.iter().map(|(k, v)| format!("{k:?}:{}", show_expr(v))).collect::<Vec<_>>().join(" ")
        ),
        E::Vec(v) => format!("(list {})", v.iter().map(show_expr).collect::<Vec<_>>().join(" ")),
        _ => {
            let (k, c) = node(e);
            format!("({k} {})", c.iter().map(|x| show_expr(x)).collect::<Vec<_>>().join(" "))
        }
    }
}

pub fn expr_depth(e: &Expr) -> usize {
    use Expr as E;
    match e {
        E::Value(_) | E::Reference(_) | E::Symbol(_) => 1,
        E::Function(_, a) | E::Index(a, _) => 1 + expr_depth(a),
        E::Map(m) => 1 + m.values().map(expr_depth).max().unwrap_or(0),
        E::Vec(v) => 1 + v.iter().map(expr_depth).max().unwrap_or(0),
        _ => 1 + node(e).1.iter().map(|x| expr_depth(x)).max().unwrap_or(0),
    }
}

// ------------------------------------------------------------------------------------------
// JSON encoding for replay files

pub fn value_to_json(v: &Value) -> J {
    match v {
        Value::String(s) => json!(["s", s]),
        Value::Int(i) => json!(["i", i.to_string()]),
        Value::Float(f) => json!(["f", format!("{:016x}", f.to_bits()), format!("{f:e}")]),
        Value::Decimal(d) => json!(["d", d.mantissa().to_string(), d.scale()]),
        Value::Bool(b) => json!(["b", b]),
        Value::DateTime(d) => json!(["dt", d.timestamp(), d.timestamp_subsec_nanos()]),
        Value::Duration(d) => json!(["du", d.num_seconds(), d.subsec_nanos()]),
        Value::Vec(v) => json!(["v", v.iter().map(value_to_json).collect::<Vec<_>>()]),
        Value::Map(m) => {
            let o: serde_json::Map<String, J> = m.iter().map(|(k, v)| (k.clone(), value_to_json(v))).collect();
            json!(["m", o])
        }
        Value::None => json!(["n"]),
    }
}

pub fn value_from_json(j: &J) -> Option<Value> {
    let a = j.as_array()?;
    let tag = a.first()?.as_str()?;
    Some(match tag {
        "s" => Value::String(a.get(1)?.as_str()?.to_string()),
        "i" => Value::Int(a.get(1)?.as_str()?.parse().ok()?),
        "f" => Value::Float(f64::from_bits(u64::from_str_radix(a.get(1)?.as_str()?, 16).ok()?)),
        "d" => {
            let m: i128 = a.get(1)?.as_str()?.parse().ok()?;
            let s = a.get(2)?.as_u64()? as u32;
            Value::Decimal(Decimal::try_from_i128_with_scale(m, s).ok()?)
        }
        "b" => Value::Bool(a.get(1)?.as_bool()?),
        "dt" => Value::DateTime(DateTime::<Utc>::from_timestamp(a.get(1)?.as_i64()?, a.get(2)?.as_u64()? as u32)?),
        "du" => Value::Duration(TimeDelta::new(a.get(1)?.as_i64()?, a.get(2)?.as_i64()? as u32)?),
        "v" => Value::Vec(a.get(1)?.as_array()?.iter().map(value_from_json).collect::<Option<Vec<_>>>()?),
        "m" => Value::Map(
            a.get(1)?
                .as_object()?
                .iter()
                .map(|(k, v)| value_from_json(v).map(|v| (k.clone(), v)))
                .collect::<Option<BTreeMap<_, _>>>()?,
        ),
        "n" => Value::None,
        _ => return None,
    })
}

pub fn expr_to_json(e: &Expr) -> J {
    use Expr as E;
    match e {
        E::Value(v) => json!(["val", value_to_json(v)]),
        E::Reference(n) => json!(["ref", n]),
        E::Symbol(n) => json!(["sym", n]),
        E::Function(n, a) => json!(["call", n, expr_to_json(a)]),
        E::Index(a, Index::Map(k)) => json!(["field", expr_to_json(a), k]),
        E::Index(a, Index::Vec(i)) => json!(["at", expr_to_json(a), i]),
        E::Map(m) => {
            let o: serde_json::Map<String, J> = m.iter().map(|(k, v)| (k.clone(), expr_to_json(v))).collect();
            json!(["map", o])
        }
        E::Vec(v) => json!(["list", v.iter().map(expr_to_json).collect::<Vec<_>>()]),
        _ => {
            let (k, c) = node(e);
            let mut out = vec![json!(k)];
            out.extend(c.iter().map(|x| expr_to_json(x)));
            J::Array(out)
        }
    }
}

pub fn expr_from_json(j: &J) -> Option<Expr> {
    let a = j.as_array()?;
    let tag = a.first()?.as_str()?;
    Some(match tag {
        "val" => Expr::Value(value_from_json(a.get(1)?)?),
        "ref" => Expr::reff(a.get(1)?.as_str()?),
        "sym" => Expr::symbol(a.get(1)?.as_str()?),
        "call" => Expr::func(a.get(1)?.as_str()?, expr_from_json(a.get(2)?)?),
        "field" => Expr::index(expr_from_json(a.get(1)?)?, Index::Map(a.get(2)?.as_str()?.to_string())),
        "at" => Expr::index(expr_from_json(a.get(1)?)?, Index::Vec(a.get(2)?.as_u64()? as usize)),
        "map" => Expr::Map(
            a.get(1)?
                .as_object()?
                .iter()
                .map(|(k, v)| expr_from_json(v).map(|v| (k.clone(), v)))
                .collect::<Option<BTreeMap<_, _>>>()?,
        ),
        "list" => Expr::Vec(a.get(1)?.as_array()?.iter().map(expr_from_json).collect::<Option<Vec<_>>>()?),
        "if" => Expr::iif(expr_from_json(a.get(1)?)?, expr_from_json(a.get(2)?)?, expr_from_json(a.get(3)?)?),
        k if UNARY_KINDS.contains(&k) => mk1(k, expr_from_json(a.get(1)?)?),
        k if BINARY_KINDS.contains(&k) => mk2(k, expr_from_json(a.get(1)?)?, expr_from_json(a.get(2)?)?),
        _ => return None,
    })
}

// ------------------------------------------------------------------------------------------
// generic tree surgery (used for structural minimisation of failing cases)

pub fn children(e: &Expr) -> Vec<&Expr> {
    use Expr as E;
    match e {
        E::Value(_) | E::Reference(_) | E::Symbol(_) => vec![],
        E::Function(_, a) | E::Index(a, _) => vec![a],
        E::Map(m) => m.values().collect(),
        E::Vec(v) => v.iter().collect(),
        _ => node(e).1,
    }
}

pub fn rebuild(e: &Expr, mut kids: Vec<Expr>) -> Expr {
    use Expr as E;
    match e {
        E::Value(_) | E::Reference(_) | E::Symbol(_) => e.clone(),
        E::Function(n, _) => Expr::func(n.clone(), kids.remove(0)),
        E::Index(_, i) => Expr::index(kids.remove(0), i.clone()),
        E::Map(m) => Expr::Map(m.keys().cloned().zip(kids).collect()),
        E::Vec(_) => Expr::Vec(kids),
        E::If(..) => {
            let c = kids.remove(0);
            let t = kids.remove(0);
            let f = kids.remove(0);
            Expr::iif(c, t, f)
        }
        _ => {
            let (k, c) = node(e);
            if c.len() == 1 {
                mk1(k, kids.remove(0))
            } else {
                let a = kids.remove(0);
                let b = kids.remove(0);
                mk2(k, a, b)
            }
        }
    }
}

/// All trees obtained by replacing one node (at any position) by one of its children, plus, for
/// lists and maps, by dropping one element.
pub fn simpler_variants(e: &Expr) -> Vec<Expr> {
    let kids = children(e);
    let mut out: Vec<Expr> = kids.iter().map(|c| (*c).clone()).collect();
    match e {
        Expr::Vec(v) if !v.is_empty() => {
            for i in 0..v.len() {
                let mut w = v.clone();
                w.remove(i);
                out.push(Expr::Vec(w));
            }
        }
        Expr::Map(m) if !m.is_empty() => {
            for k in m.keys() {
                let mut w = m.clone();
                w.remove(k);
                out.push(Expr::Map(w));
            }
        }
        _ => {}
    }
    for (i, c) in kids.iter().enumerate() {
        for v in simpler_variants(c) {
            let mut ks: Vec<Expr> = kids.iter().map(|c| (*c).clone()).collect();
            ks[i] = v;
            out.push(rebuild(e, ks));
        }
    }
    out
}

pub fn expr_size(e: &Expr) -> usize {
    1 + children(e).iter().map(|c| expr_size(c)).sum::<usize>()
}
