pub mod core;
pub mod data;
pub mod gen;
pub mod model;
pub mod pool;
pub mod probe;
pub mod props;
pub mod sval;
