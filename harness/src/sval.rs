//! A value of the serde data model (all 29 kinds) with a hand-written `Serialize` that calls the
//! corresponding serializer method directly, plus a `Fail` kind whose `Serialize` raises a custom error.

use crate::gen::Dec;
use crate::probe::intern;
use reval::value::Value;
use serde::ser::{
    Error as _, SerializeMap, SerializeSeq, SerializeStruct, SerializeStructVariant, SerializeTuple,
    SerializeTupleStruct, SerializeTupleVariant,
};
use serde::{Serialize, Serializer};
use std::collections::BTreeMap;

#[derive(Clone, Debug, PartialEq)]
pub enum SVal {
    Bool(bool),
    I8(i8),
    I16(i16),
    I32(i32),
    I64(i64),
    I128(i128),
    U8(u8),
    U16(u16),
    U32(u32),
    U64(u64),
    U128(u128),
    F32(f32),
    F64(f64),
    Char(char),
    Str(String),
    Bytes(Vec<u8>),
    None,
    Some(Box<SVal>),
    Unit,
    UnitStruct(String),
    UnitVariant(String, u32, String),
    NewtypeStruct(String, Box<SVal>),
    NewtypeVariant(String, u32, String, Box<SVal>),
    /// elements, whether the length is announced up front
    Seq(Vec<SVal>, bool),
    Tuple(Vec<SVal>),
    TupleStruct(String, Vec<SVal>),
    TupleVariant(String, u32, String, Vec<SVal>),
    Map(Vec<(SVal, SVal)>, bool),
    Struct(String, Vec<(String, SVal)>),
    StructVariant(String, u32, String, Vec<(String, SVal)>),
    /// `Serialize` returns `S::Error::custom(msg)`
    Fail(String),
    /// a std type whose `Serialize` asks the serializer whether the format is human readable (text vs compact form)
    Ip([u8; 4]),
}

impl Serialize for SVal {
    fn serialize<S: Serializer>(&self, s: S) -> Result<S::Ok, S::Error> {
        match self {
            SVal::Bool(v) => s.serialize_bool(*v),
            SVal::I8(v) => s.serialize_i8(*v),
            SVal::I16(v) => s.serialize_i16(*v),
            SVal::I32(v) => s.serialize_i32(*v),
            SVal::I64(v) => s.serialize_i64(*v),
            SVal::I128(v) => s.serialize_i128(*v),
            SVal::U8(v) => s.serialize_u8(*v),
            SVal::U16(v) => s.serialize_u16(*v),
            SVal::U32(v) => s.serialize_u32(*v),
            SVal::U64(v) => s.serialize_u64(*v),
            SVal::U128(v) => s.serialize_u128(*v),
            SVal::F32(v) => s.serialize_f32(*v),
            SVal::F64(v) => s.serialize_f64(*v),
            SVal::Char(v) => s.serialize_char(*v),
            SVal::Str(v) => s.serialize_str(v),
            SVal::Bytes(v) => s.serialize_bytes(v),
            SVal::None => s.serialize_none(),
            SVal::Some(v) => s.serialize_some(&**v),
            SVal::Unit => s.serialize_unit(),
            SVal::UnitStruct(n) => s.serialize_unit_struct(intern(n)),
            SVal::UnitVariant(n, i, v) => s.serialize_unit_variant(intern(n), *i, intern(v)),
            SVal::NewtypeStruct(n, v) => s.serialize_newtype_struct(intern(n), &**v),
            SVal::NewtypeVariant(n, i, var, v) => s.serialize_newtype_variant(intern(n), *i, intern(var), &**v),
            SVal::Seq(items, known) => {
                let mut q = s.serialize_seq(if *known { Some(items.len()) } else { None })?;
                for x in items {
                    q.serialize_element(x)?;
                }
                q.end()
            }
            SVal::Tuple(items) => {
                let mut q = s.serialize_tuple(items.len())?;
                for x in items {
                    q.serialize_element(x)?;
                }
                q.end()
            }
            SVal::TupleStruct(n, items) => {
                let mut q = s.serialize_tuple_struct(intern(n), items.len())?;
                for x in items {
                    q.serialize_field(x)?;
                }
                q.end()
            }
            SVal::TupleVariant(n, i, var, items) => {
                let mut q = s.serialize_tuple_variant(intern(n), *i, intern(var), items.len())?;
                for x in items {
                    q.serialize_field(x)?;
                }
                q.end()
            }
            SVal::Map(items, known) => {
                let mut q = s.serialize_map(if *known { Some(items.len()) } else { None })?;
                // (both ways a Serialize impl may feed a map: key and value separately, or as one entry)
                for (n, (k, v)) in items.iter().enumerate() {
                    if (items.len() + n) % 2 == 0 {
                        q.serialize_key(k)?;
                        q.serialize_value(v)?;
                    } else {
                        q.serialize_entry(k, v)?;
                    }
                }
                q.end()
            }
            SVal::Struct(n, fields) => {
                let mut q = s.serialize_struct(intern(n), fields.len())?;
                for (k, v) in fields {
                    q.serialize_field(intern(k), v)?;
                }
                q.end()
            }
            SVal::StructVariant(n, i, var, fields) => {
                let mut q = s.serialize_struct_variant(intern(n), *i, intern(var), fields.len())?;
                for (k, v) in fields {
                    q.serialize_field(intern(k), v)?;
                }
                q.end()
            }
            SVal::Fail(msg) => Err(S::Error::custom(msg)),
            SVal::Ip(o) => std::net::Ipv4Addr::new(o[0], o[1], o[2], o[3]).serialize(s),
        }
    }
}

#[derive(Debug, Clone, PartialEq)]
pub enum Image {
    Val(Value),
    /// must be an error
    Error,
    /// a map key that is not a plain string: an error, or (if accepted) the JSON image
    KeyDependent,
}

/// The structurally faithful image the property prescribes.
pub fn model_image(v: &SVal) -> Image {
    fn go(v: &SVal) -> Result<Value, Image> {
        let list = |items: &Vec<SVal>| -> Result<Value, Image> {
            Ok(Value::Vec(items.iter().map(go).collect::<Result<Vec<_>, _>>()?))
        };
        let fields = |fs: &Vec<(String, SVal)>| -> Result<Value, Image> {
            let mut m = BTreeMap::new();
            for (k, x) in fs {
                m.insert(k.clone(), go(x)?);
            }
            Ok(Value::Map(m))
        };
        let tagged = |tag: &String, inner: Value| -> Value {
            let mut m = BTreeMap::new();
            m.insert(tag.clone(), inner);
            Value::Map(m)
        };
        Ok(match v {
            SVal::Bool(b) => Value::Bool(*b),
            SVal::I8(x) => Value::Int(*x as i128),
            SVal::I16(x) => Value::Int(*x as i128),
            SVal::I32(x) => Value::Int(*x as i128),
            SVal::I64(x) => Value::Int(*x as i128),
            SVal::I128(x) => Value::Int(*x),
            SVal::U8(x) => Value::Int(*x as i128),
            SVal::U16(x) => Value::Int(*x as i128),
            SVal::U32(x) => Value::Int(*x as i128),
            SVal::U64(x) => Value::Int(*x as i128),
            SVal::U128(x) => {
                if *x > i128::MAX as u128 {
                    return Err(Image::Error);
                }
                Value::Int(*x as i128)
            }
            SVal::F32(x) => Value::Float(f64::from(*x)),
            SVal::F64(x) => Value::Float(*x),
            SVal::Char(c) => Value::String(c.to_string()),
            SVal::Str(s) => Value::String(s.clone()),
            SVal::Bytes(b) => Value::Vec(b.iter().map(|x| Value::Int(*x as i128)).collect()),
            SVal::None | SVal::Unit | SVal::UnitStruct(_) => Value::None,
            SVal::Some(x) | SVal::NewtypeStruct(_, x) => go(x)?,
            SVal::UnitVariant(_, _, var) => Value::String(var.clone()),
            SVal::NewtypeVariant(_, _, var, x) => tagged(var, go(x)?),
            SVal::Seq(items, _) | SVal::Tuple(items) | SVal::TupleStruct(_, items) => list(items)?,
            SVal::TupleVariant(_, _, var, items) => tagged(var, list(items)?),
            SVal::Map(items, _) => {
                let mut m = BTreeMap::new();
                for (k, x) in items {
                    // keys are serialized before values: a failing key fails first
                    match k {
                        SVal::Str(s) => {
                            m.insert(s.clone(), go(x)?);
                        }
                        SVal::Fail(_) => return Err(Image::Error),
                        _ => {
                            if contains_fail(k) || contains_fail(x) {
                                return Err(Image::Error);
                            }
                            return Err(Image::KeyDependent);
                        }
                    }
                }
                Value::Map(m)
            }
            SVal::Struct(_, fs) => fields(fs)?,
            SVal::StructVariant(_, _, var, fs) => tagged(var, fields(fs)?),
            SVal::Fail(_) => return Err(Image::Error),
            // the self-describing, human-readable form (what serde_json shows)
            SVal::Ip(o) => Value::String(format!("{}.{}.{}.{}", o[0], o[1], o[2], o[3])),
        })
    }
    match go(v) {
        Ok(x) => Image::Val(x),
        Err(i) => {
            // an error anywhere wins over key-dependence only if it is certain to be reached; be conservative:
            // any Fail / oversized u128 anywhere in a key-dependent value still allows only an error or the JSON image
            i
        }
    }
}

pub fn contains_fail(v: &SVal) -> bool {
    match v {
        SVal::Fail(_) => true,
        SVal::U128(x) => *x > i128::MAX as u128,
        SVal::Some(x) | SVal::NewtypeStruct(_, x) | SVal::NewtypeVariant(_, _, _, x) => contains_fail(x),
        SVal::Seq(i, _) | SVal::Tuple(i) | SVal::TupleStruct(_, i) | SVal::TupleVariant(_, _, _, i) => {
            i.iter().any(contains_fail)
        }
        SVal::Map(i, _) => i.iter().any(|(k, v)| contains_fail(k) || contains_fail(v)),
        SVal::Struct(_, f) | SVal::StructVariant(_, _, _, f) => f.iter().any(|(_, v)| contains_fail(v)),
        _ => false,
    }
}

pub fn has_nonfinite(v: &SVal) -> bool {
    match v {
        SVal::F32(x) => !x.is_finite(),
        SVal::F64(x) => !x.is_finite(),
        SVal::Some(x) | SVal::NewtypeStruct(_, x) | SVal::NewtypeVariant(_, _, _, x) => has_nonfinite(x),
        SVal::Seq(i, _) | SVal::Tuple(i) | SVal::TupleStruct(_, i) | SVal::TupleVariant(_, _, _, i) => {
            i.iter().any(has_nonfinite)
        }
        SVal::Map(i, _) => i.iter().any(|(k, v)| has_nonfinite(k) || has_nonfinite(v)),
        SVal::Struct(_, f) | SVal::StructVariant(_, _, _, f) => f.iter().any(|(_, v)| has_nonfinite(v)),
        _ => false,
    }
}

/// serde_json image mapped into reval's Value (None when the value is not JSON-representable)
pub fn json_image(v: &SVal) -> Option<Value> {
    if has_nonfinite(v) {
        return None;
    }
    let j = serde_json::to_value(v).ok()?;
    fn conv(j: &serde_json::Value) -> Option<Value> {
        Some(match j {
            serde_json::Value::Null => Value::None,
            serde_json::Value::Bool(b) => Value::Bool(*b),
            serde_json::Value::Number(n) => {
                if let Some(i) = n.as_i64() {
                    Value::Int(i as i128)
                } else if let Some(u) = n.as_u64() {
                    Value::Int(u as i128)
                } else {
                    Value::Float(n.as_f64()?)
                }
            }
            serde_json::Value::String(s) => Value::String(s.clone()),
            serde_json::Value::Array(a) => Value::Vec(a.iter().map(conv).collect::<Option<Vec<_>>>()?),
            serde_json::Value::Object(o) => {
                Value::Map(o.iter().map(|(k, v)| conv(v).map(|v| (k.clone(), v))).collect::<Option<BTreeMap<_, _>>>()?)
            }
        })
    }
    conv(&j)
}

// ------------------------------------------------------------------------------------------
// generator

// (type names carry no meaning for the image: also names that coincide with reval's own value kinds and with the
// private marker names some formats use)
const NAMES: [&str; 19] = [
    "", " ", "r#V", "T", "Event", "Kind", "a", "b", "facts", "Duration", "Decimal", "DateTime", "Value", "Int", "None", "Option", "String",
    "$serde_json::private::Number", "$serde_json::private::RawValue",
];
// (field names are plain strings to a serializer: also raw-identifier spellings, keywords, blanks)
const FIELDS: [&str; 14] = ["a", "b", "id", "name", "facts", "vi", "vm", "a", "r#type", "type", "r#a", "if", "", "A"];

fn name(d: &mut Dec) -> String {
    d.pick(&NAMES).to_string()
}

fn limit_i(d: &mut Dec, min: i128, max: i128) -> i128 {
    match d.below(6) {
        0 => min,
        1 => max,
        2 => 0,
        3 => (-1i128).clamp(min, max),
        4 => min + (d.u64() as i128).rem_euclid((max - min).max(1)).min(max - min),
        _ => (d.below(201) as i128 - 100).clamp(min, max),
    }
}

pub fn gen_sval(d: &mut Dec, depth: u32) -> SVal {
    let scalar_only = depth == 0 || d.exhausted();
    let k = if scalar_only { d.below(19) } else { d.below(35) };
    match k {
        0 => SVal::Bool(d.bool()),
        1 => SVal::I8(limit_i(d, i8::MIN as i128, i8::MAX as i128) as i8),
        2 => SVal::I16(limit_i(d, i16::MIN as i128, i16::MAX as i128) as i16),
        3 => SVal::I32(limit_i(d, i32::MIN as i128, i32::MAX as i128) as i32),
        4 => SVal::I64(limit_i(d, i64::MIN as i128, i64::MAX as i128) as i64),
        5 => SVal::I128(match d.below(4) {
            0 => i128::MIN,
            1 => i128::MAX,
            2 => d.u128() as i128,
            _ => d.below(100) as i128,
        }),
        6 => SVal::U8(limit_i(d, 0, u8::MAX as i128) as u8),
        7 => SVal::U16(limit_i(d, 0, u16::MAX as i128) as u16),
        8 => SVal::U32(limit_i(d, 0, u32::MAX as i128) as u32),
        9 => SVal::U64(limit_i(d, 0, u64::MAX as i128) as u64),
        10 => SVal::U128(match d.below(6) {
            0 => u128::MAX,
            1 => i128::MAX as u128,
            2 => i128::MAX as u128 + 1,
            3 => d.u128(),
            4 => u64::MAX as u128 + 1,
            _ => d.below(100) as u128,
        }),
        11 => SVal::F32(match d.below(6) {
            0 => f32::NAN,
            1 => f32::INFINITY,
            2 => f32::MAX,
            3 => 0.1,
            4 => f32::from_bits(d.u64() as u32),
            _ => d.below(100) as f32 / 4.0,
        }),
        12 => SVal::F64(match d.below(6) {
            0 => f64::NAN,
            1 => f64::NEG_INFINITY,
            2 => f64::MAX,
            3 => -0.0,
            4 => f64::from_bits(d.u64()),
            _ => d.below(100) as f64 / 4.0,
        }),
        13 => SVal::Char(*d.pick(&['a', '\u{0}', 'ß', '😀', '"', '\u{10ffff}', 'A', 'Z', 'İ', 'ǅ', 'Σ', '\u{1e9e}', '\u{a0}', '\n'])),
        14 => SVal::Str(crate::gen::gen_string(d)),
        15 => SVal::Bytes((0..d.below(5)).map(|_| d.byte()).collect()),
        16 => SVal::None,
        17 => SVal::Unit,
        18 => SVal::UnitStruct(name(d)),
        19 => SVal::UnitVariant(name(d), d.below(4) as u32, name(d)),
        20 => SVal::Some(Box::new(gen_sval(d, depth - 1))),
        21 => SVal::NewtypeStruct(name(d), Box::new(gen_sval(d, depth - 1))),
        22 => SVal::NewtypeVariant(name(d), d.below(4) as u32, name(d), Box::new(gen_sval(d, depth - 1))),
        23 | 24 => {
            let n = d.below(4);
            SVal::Seq((0..n).map(|_| gen_sval(d, depth - 1)).collect(), d.bool())
        }
        25 => {
            let n = d.below(4);
            SVal::Tuple((0..n).map(|_| gen_sval(d, depth - 1)).collect())
        }
        26 => {
            let n = d.below(4);
            SVal::TupleStruct(name(d), (0..n).map(|_| gen_sval(d, depth - 1)).collect())
        }
        27 => {
            let n = d.below(4);
            SVal::TupleVariant(name(d), d.below(4) as u32, name(d), (0..n).map(|_| gen_sval(d, depth - 1)).collect())
        }
        28 | 29 => {
            let n = d.below(4);
            let items = (0..n)
                .map(|_| {
                    let key = match d.below(8) {
                        0 => gen_sval(d, 0),
                        1 => SVal::Char('k'),
                        2 => SVal::I32(d.below(5) as i32),
                        _ => SVal::Str(d.pick(&FIELDS).to_string()),
                    };
                    (key, gen_sval(d, depth - 1))
                })
                .collect();
            SVal::Map(items, d.bool())
        }
        30 | 31 => {
            let n = d.below(5);
            SVal::Struct(name(d), (0..n).map(|_| (d.pick(&FIELDS).to_string(), gen_sval(d, depth - 1))).collect())
        }
        32 => {
            let n = d.below(4);
            SVal::StructVariant(
                name(d),
                d.below(4) as u32,
                name(d),
                (0..n).map(|_| (d.pick(&FIELDS).to_string(), gen_sval(d, depth - 1))).collect(),
            )
        }
        33 => SVal::Ip([d.byte(), d.byte(), 0, 1]),
        _ => SVal::Fail(match d.below(6) {
            // long messages with multi-byte characters at every byte offset, empty and odd ones
            4 => format!("{}{}", "x".repeat(d.below(4)), "é€😀".repeat(20 + d.below(60))),
            5 => (*d.pick(&["", "\n", "{}", "%s", "\u{0}"])).to_string(),
            _ => format!("custom failure {}", d.below(9)),
        }),
    }
}

pub fn kind_name(v: &SVal) -> &'static str {
    match v {
        SVal::Bool(_) => "bool",
        SVal::I8(_) => "i8",
        SVal::I16(_) => "i16",
        SVal::I32(_) => "i32",
        SVal::I64(_) => "i64",
        SVal::I128(_) => "i128",
        SVal::U8(_) => "u8",
        SVal::U16(_) => "u16",
        SVal::U32(_) => "u32",
        SVal::U64(_) => "u64",
        SVal::U128(_) => "u128",
        SVal::F32(_) => "f32",
        SVal::F64(_) => "f64",
        SVal::Char(_) => "char",
        SVal::Str(_) => "str",
        SVal::Bytes(_) => "bytes",
        SVal::None => "none",
        SVal::Some(_) => "some",
        SVal::Unit => "unit",
        SVal::UnitStruct(_) => "unit_struct",
        SVal::UnitVariant(..) => "unit_variant",
        SVal::NewtypeStruct(..) => "newtype_struct",
        SVal::NewtypeVariant(..) => "newtype_variant",
        SVal::Seq(..) => "seq",
        SVal::Tuple(_) => "tuple",
        SVal::TupleStruct(..) => "tuple_struct",
        SVal::TupleVariant(..) => "tuple_variant",
        SVal::Map(..) => "map",
        SVal::Struct(..) => "struct",
        SVal::StructVariant(..) => "struct_variant",
        SVal::Fail(_) => "fail",
        SVal::Ip(_) => "human-readable-dependent",
    }
}
