//! C19 — deeply nested input cannot crash the host process.
//! Each case runs in a child process (rvv_deep); the parent only reads the exit status.

use crate::core::*;
use rayon::prelude::*;
use serde_json::json;
use std::os::unix::process::ExitStatusExt;
use std::process::{Command, Stdio};
use std::time::{Duration, Instant};

pub const CONSTRUCTS: [&str; 54] = [
    "neg", "not", "add", "and", "call", "builtin", "list", "map", "ifcond", "ifelse", "paren", "index", "contains", "listfirst",
    "listcomma", "listmap", "mapcomma", "ifthen", "callsum", "subright", "string", "negidx", "listidx", "mapidx", "indexnum",
    "skipeq", "skipand", "skipor", "skipif", "skiplist", "skipmap", "skipcallarg", "escapes", "adderr", "negerr", "listerr", "metalist", "metamap", "metaneg",
    "chain-eq", "chain-neq", "chain-gt", "chain-lte", "chain-sub", "chain-mult", "chain-div", "chain-rem", "chain-or", "chain-bitand", "chain-bitor", "chain-bitxor",
    "flatcontains", "flatcontainslate", "flatlistcalls",
];
pub const OPS: [&str; 13] = [
    "parse", "parse-rule", "display", "debug", "clone", "compare", "drop", "evaluate", "evaluate-in-ruleset", "compare-rules", "debug-rule", "drop-ruleset", "parse-rule-bare-comment",
];
pub const STACKS: [(&str, usize); 2] = [("main8M", 8 << 20), ("worker2M", 2 << 20)];

#[derive(Debug, Clone, PartialEq)]
pub enum ChildResult {
    Completed,
    /// the operation unwound (a Rust panic inside the child's worker thread)
    Panicked,
    /// killed by a signal (stack overflow => SIGSEGV / SIGABRT)
    Crashed(i32),
    SetupRefused,
    Watchdog,
    Other(i32),
}

fn deep_bin() -> String {
    let exe = std::env::current_exe().expect("current exe");
    exe.parent().unwrap().join("rvv_deep").to_string_lossy().to_string()
}

/// the same child built with the dev profile (no optimisation: larger frames, no tail calls), if `./check` built it
pub fn deep_bin_dev() -> Option<String> {
    let exe = std::env::current_exe().ok()?;
    let p = exe.parent()?.parent()?.join("debug").join("rvv_deep");
    p.exists().then(|| p.to_string_lossy().to_string())
}

pub fn run_child(construct: &str, depth: usize, op: &str, stack: usize) -> ChildResult {
    run_child_bin(&deep_bin(), construct, depth, op, stack)
}

pub fn run_child_bin(bin: &str, construct: &str, depth: usize, op: &str, stack: usize) -> ChildResult {
    let mut child = match Command::new(bin)
        .args([construct, &depth.to_string(), op, &stack.to_string()])
        .stdin(Stdio::null())
        .stdout(Stdio::null())
        .stderr(Stdio::null())
        .spawn()
    {
        Ok(c) => c,
        Err(_) => return ChildResult::Other(-1),
    };
    let t0 = Instant::now();
    loop {
        match child.try_wait() {
            Ok(Some(st)) => {
                if let Some(sig) = st.signal() {
                    return ChildResult::Crashed(sig);
                }
                return match st.code() {
                    Some(0) | Some(4) => ChildResult::Completed,
                    Some(5) => ChildResult::Panicked,
                    Some(3) => ChildResult::SetupRefused,
                    Some(c) => ChildResult::Other(c),
                    None => ChildResult::Other(-2),
                };
            }
            Ok(None) => {
                if t0.elapsed() > Duration::from_secs(120) {
                    let _ = child.kill();
                    let _ = child.wait();
                    return ChildResult::Watchdog;
                }
                std::thread::sleep(Duration::from_millis(2));
            }
            Err(_) => return ChildResult::Other(-3),
        }
    }
}

fn ladder(max_pow: u32) -> Vec<usize> {
    let mut v = vec![];
    for p in 4..=max_pow {
        v.push(1usize << p);
        if p < max_pow {
            v.push((1usize << p) + (1usize << (p - 1)));
        }
    }
    v
}

/// recorded safe depth of a known finding: text starts with `safe<=N`
fn known_safe(ctx: &Ctx, sig: &str) -> Option<(usize, String)> {
    let (_, _, text) = ctx.known.lookup("C19", sig)?;
    let n = text.split_whitespace().find_map(|w| w.strip_prefix("safe<=").and_then(|x| x.parse::<usize>().ok()))?;
    Some((n, text.clone()))
}

pub fn run(ctx: &Ctx) {
    ctx.set_rule(
        "Generated: expression texts of 51 recursive constructs and 3 flat ones (membership in a list literal of N items, a list of N calls) (unary - and ! chains, left-deep chains of every binary operator (a+a+..., a != a != ..., a or a or ...), nested user \
         calls, nested built-in calls, nested lists with the nested element last / first / before a trailing comma / inside a map, \
         nested maps (also with trailing comma), if nested in condition / then / else, parentheses, index chains, nested contains, \
         right-nested subtraction, calls of sums, one long string literal of escapes, deep terms followed by a numeric index, numeric \
         index chains, deep operands in never-evaluated positions of ==, and, or, if, deep terms followed by a syntax error, and deep values of a rule's metadata item) x depth on a geometric ladder 16, 24, 32, ... (x1.5 / x1.33 steps) up to 2^17 (quick) / 2^18 \
         (thorough) x operation in {parse, parse as rule, display, debug, clone, compare, drop, evaluate, evaluate as a rule of a ruleset built through with_rule / with_rules, compare two rules of different names holding the tree, debug-print a rule holding the tree, drop a ruleset of 40 rules one of which holds the tree (rulesets are built with a symbol registered), parse as a rule whose first comment line is empty} x stack in {8 MiB, 2 MiB}; \
         each case is one child process whose operation runs on a thread of exactly that stack size; every ladder is climbed twice, by a release build of the child and (to 2^14 / 2^16) by a dev-profile build (no optimisation: larger frames, no tail calls; signatures end in `:dev`); trees are obtained by parsing \
         the text and leaked after the operation so that only the named operation recurses. Each (construct, operation, stack) \
         ladder is climbed until the first crash. Oracle: the child exits normally; death by signal is the property's failure; \
         watchdog expiry is an infrastructure error. Non-trivial: depth >= 256. A crash deeper than the recorded safe depth of a \
         listed known finding is reported as that known finding; a crash at or below it, or for a triple without a listed finding, \
         is a violation.",
    );
    ctx.assume("release profile of the harness (opt-level 2) and the two pinned stack sizes; thresholds are relative to those");

    let max_pow = ctx.tier.pick(17u32, 18u32);
    let rungs = ladder(max_pow);
    // the child built with the dev profile (no optimisation: larger frames, every self-call a real call) climbs a shorter
    // ladder: its limits are lower and its runs slower
    let dev_bin = deep_bin_dev();
    let dev_rungs = ladder(ctx.tier.pick(14u32, 16u32));
    ctx.extra("dev_profile_child", json!(dev_bin.is_some()));
    let mut triples = vec![];
    for c in CONSTRUCTS {
        for o in OPS {
            for (sname, sbytes) in STACKS {
                triples.push((c, o, sname, sbytes, false));
                if dev_bin.is_some() {
                    triples.push((c, o, sname, sbytes, true));
                }
            }
        }
    }
    let t0 = Instant::now();
    struct TripleResult {
        sig: String,
        runs: u64,
        deep_runs: u64,
        safe_max: usize,
        crash_at: Option<(usize, i32)>,
        infra: Option<String>,
    }
    let results: Vec<TripleResult> = triples
        .par_iter()
        .map(|(c, o, sname, sbytes, dev)| {
            let sig = format!("deep:{o}:{c}:{sname}{}", if *dev { ":dev" } else { "" });
            let mut r = TripleResult { sig, runs: 0, deep_runs: 0, safe_max: 0, crash_at: None, infra: None };
            for &rung in if *dev { &dev_rungs } else { &rungs } {
                // seeded jitter: a depth between this rung and the next one (up to +12 %), different per triple and seed
                let mut h = std::collections::hash_map::DefaultHasher::new();
                std::hash::Hash::hash(&(ctx.seed, *c, *o, *sname, rung, *dev), &mut h);
                let d = rung + (std::hash::Hasher::finish(&h) as usize) % (rung / 8).max(1);
                r.runs += 1;
                if d >= 256 {
                    r.deep_runs += 1;
                }
                let outcome = if *dev { run_child_bin(dev_bin.as_ref().unwrap(), c, d, o, *sbytes) } else { run_child(c, d, o, *sbytes) };
                match outcome {
                    // (a panic is a matter for C01 / C06; here only the stack matters)
                    ChildResult::Completed | ChildResult::Panicked => r.safe_max = d,
                    ChildResult::Crashed(sig) => {
                        r.crash_at = Some((d, sig));
                        break;
                    }
                    ChildResult::SetupRefused => break, // the text is rejected at this depth: nothing deeper to do
                    ChildResult::Watchdog => {
                        r.infra = Some(format!("watchdog expired at depth {d}"));
                        break;
                    }
                    ChildResult::Other(code) => {
                        r.infra = Some(format!("child exit code {code} at depth {d}"));
                        break;
                    }
                }
            }
            r
        })
        .collect();

    let mut acc = Acc::default();
    let mut infra_problem = None;
    let mut table = serde_json::Map::new();
    for r in &results {
        acc.evaluations += r.runs;
        acc.nontrivial += r.deep_runs;
        *acc.classes.entry(if r.crash_at.is_some() { "triple:crashes".to_string() } else { "triple:safe-to-top".to_string() }).or_default() += 1;
        table.insert(
            r.sig.clone(),
            json!({"safe_up_to": r.safe_max, "first_crash": r.crash_at.map(|(d, s)| json!({"depth": d, "signal": s}))}),
        );
        if let Some(i) = &r.infra {
            infra_problem = Some(format!("{}: {i}", r.sig));
        }
        if let Some((d, signal)) = r.crash_at {
            let parts: Vec<&str> = r.sig.split(':').collect();
            let case = json!({"construct": parts[2], "op": parts[1], "stack": parts[3], "depth": d, "signal": signal, "dev_profile": parts.len() > 4});
            let issue = Issue::new(
                r.sig.clone(),
                format!(
                    "{} of a {}-deep `{}` expression on a {} stack{} killed the process with signal {signal} (largest depth that completed: {})",
                    parts[1], d, parts[2], parts[3], if parts.len() > 4 { " (child built with the dev profile)" } else { "" }, r.safe_max
                ),
            );
            match known_safe(ctx, &r.sig) {
                Some((safe, text)) if d > safe && !ctx.strict => {
                    let mut h = ctx.known_hits.lock().unwrap();
                    let e = h.entry(r.sig.clone()).or_insert_with(|| (0, text, case.to_string()));
                    e.0 += 1;
                }
                Some((safe, _)) => {
                    let issue = Issue::new(
                        format!("{}:at-or-below-recorded-safe-depth", r.sig),
                        format!("{} (recorded safe depth of the known finding: {safe})", issue.msg),
                    );
                    ctx.violation("deep", case, &issue);
                }
                None => ctx.violation("deep", case, &issue),
            }
        }
        if r.runs > 0 {
            acc.sample(&r.sig, || format!("{} ladder: completed up to depth {}, first crash {:?}", r.sig, r.safe_max, r.crash_at));
        }
    }
    ctx.extra("thresholds", serde_json::Value::Object(table));
    ctx.finish_phase("depth-ladders", acc, false, t0);
    if let Some(p) = infra_problem {
        eprintln!("C19 infrastructure problem: {p}");
        if !ctx.has_failed() {
            ctx.finish();
            std::process::exit(2);
        }
    }
}

pub fn replay(j: &serde_json::Value) -> Option<Verdict> {
    let c = j.get("construct")?.as_str()?;
    let o = j.get("op")?.as_str()?;
    let s = j.get("stack")?.as_str()?;
    let d = j.get("depth")?.as_u64()? as usize;
    let bytes = STACKS.iter().find(|(n, _)| *n == s)?.1;
    let dev = j.get("dev_profile").and_then(|x| x.as_bool()).unwrap_or(false);
    let outcome = if dev { run_child_bin(&deep_bin_dev()?, c, d, o, bytes) } else { run_child(c, d, o, bytes) };
    Some(match outcome {
        ChildResult::Crashed(sig) => Err(Issue::new(
            format!("deep:{o}:{c}:{s}"),
            format!("{o} of a {d}-deep `{c}` expression on a {s} stack killed the process with signal {sig}"),
        )),
        _ => Ok(()),
    })
}
