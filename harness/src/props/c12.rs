//! C12 — evaluation is deterministic, free of side effects and schedule-independent.
//! The harness owns the schedule: suspending probes, a hand-rolled executor polling several
//! evaluations of one ruleset in a generated order, and generated abandonment (drop) points.

use super::setcommon::*;
use crate::core::*;
use crate::data::*;
use crate::gen::{self, Dec};
use crate::model::eval::{self as me};
use crate::probe::{self, SetSpec};
use reval::prelude::*;
use serde_json::json;
use std::collections::BTreeMap;
use std::future::Future;
use std::pin::Pin;
use std::task::{Context, Poll, Waker};

#[derive(Clone, Debug)]
pub struct SchedCase {
    pub spec: SetSpec,
    /// one input per concurrent evaluation (each carries its own `id`)
    pub inputs: Vec<Value>,
    /// poll order: index into the live evaluations (mod number alive)
    pub order: Vec<u8>,
    /// (evaluation index, drop after this many Pending polls of that evaluation)
    pub drop: Option<(usize, u32)>,
    /// number of evaluations of input 0 that are started, polled up to their first Pending and abandoned,
    /// one after the other, before the scheduled run (history of abandoned evaluations)
    pub abandoned_before: u32,
}

type Outs = Vec<(String, Result<Value, String>)>;

fn detach(out: Vec<reval::ruleset::Outcome>) -> Outs {
    out.into_iter()
        .map(|o| (o.rule.name().to_string(), o.value.map_err(|e| me::err_class(&e))))
        .collect()
}

fn same_outs(a: &Outs, b: &Outs) -> bool {
    a.len() == b.len()
        && a.iter().zip(b).all(|((n1, v1), (n2, v2))| {
            n1 == n2
                && match (v1, v2) {
                    (Ok(x), Ok(y)) => same_value(x, y, true),
                    (Err(x), Err(y)) => x == y,
                    _ => false,
                }
        })
}

fn show_outs(o: &Outs) -> String {
    o.iter()
        .map(|(n, v)| format!("{n}={}", match v {
            Ok(x) => show_value(x),
            Err(e) => format!("Err({e})"),
        }))
        .collect::<Vec<_>>()
        .join(", ")
}

fn id_of(facts: &Value) -> String {
    match facts {
        Value::Map(m) => m.get("id").map(show_value).unwrap_or_default(),
        _ => String::new(),
    }
}

/// log entries attributable to the evaluation whose input carries `id` (arguments are `[id, x]`)
fn attributed(log: &[(String, String)], id: &str) -> Vec<(String, String)> {
    let marker = format!("[{id},");
    log.iter().filter(|(_, a)| a.contains(&marker)).cloned().collect()
}

fn sorted(mut v: Vec<(String, String)>) -> Vec<(String, String)> {
    v.sort();
    v
}

pub fn check(case: &SchedCase) -> Verdict {
    let spec = &case.spec;
    // baselines: each input alone, run to completion with non-suspending probes, twice (determinism)
    let base_spec = SetSpec { suspend: 0, ..spec.clone() };
    let mut baselines: Vec<(Outs, Vec<(String, String)>)> = vec![];
    for facts in &case.inputs {
        let b = probe::build(&base_spec, false);
        let before = facts.clone();
        let r1 = catch(|| detach(block_on(b.ruleset.evaluate_value(facts)).expect("evaluate_value")))
            .map_err(|p| Issue::new("sched:panic", format!("baseline evaluation panicked: {p}")))?;
        let log1 = b.log.lock().unwrap().clone();
        b.log.lock().unwrap().clear();
        let r2 = catch(|| detach(block_on(b.ruleset.evaluate_value(facts)).expect("evaluate_value")))
            .map_err(|p| Issue::new("sched:panic", format!("baseline evaluation panicked: {p}")))?;
        let log2 = b.log.lock().unwrap().clone();
        if !same_outs(&r1, &r2) || log1 != log2 {
            return Err(Issue::new(
                "sched:not-deterministic",
                format!("two consecutive evaluations differ: {} vs {}; rules {:?}", show_outs(&r1), show_outs(&r2), spec_to_json(spec).to_string()),
            ));
        }
        if !same_value(&before, facts, true) {
            return Err(Issue::new("sched:input-changed", "the input value changed during evaluation".to_string()));
        }
        baselines.push((r1, log1));
    }

    // the scheduled run
    let built = probe::build(spec, false);
    let n = case.inputs.len();
    if case.abandoned_before > 0 {
        let r = catch(|| {
            let waker = Waker::noop();
            let mut cx = Context::from_waker(waker);
            for _ in 0..case.abandoned_before {
                let mut f = Box::pin(built.ruleset.evaluate_value(&case.inputs[0]));
                let _ = f.as_mut().poll(&mut cx);
                drop(f);
            }
        });
        if let Err(p) = r {
            return Err(Issue::new("sched:panic", format!("abandoning evaluations panicked: {p}; {}", render(case))));
        }
        built.log.lock().unwrap().clear();
    }
    let mut futs: Vec<Option<Pin<Box<dyn Future<Output = reval::Result<Vec<reval::ruleset::Outcome>>> + '_>>>> =
        case.inputs.iter().map(|f| Some(Box::pin(built.ruleset.evaluate_value(f)) as Pin<Box<dyn Future<Output = _> + '_>>)).collect();
    let mut results: Vec<Option<Outs>> = vec![None; n];
    let mut pendings = vec![0u32; n];
    let mut dropped: Vec<bool> = vec![false; n];
    let waker = Waker::noop();
    let mut cx = Context::from_waker(waker);
    let mut step = 0usize;
    let mut polls = 0usize;
    let run = catch(|| {
        loop {
            // drop point reached?
            if let Some((k, after)) = case.drop {
                if k < n && !dropped[k] && futs[k].is_some() && pendings[k] >= after {
                    futs[k] = None; // abandon midway
                    dropped[k] = true;
                }
            }
            let alive: Vec<usize> = (0..n).filter(|i| futs[*i].is_some()).collect();
            if alive.is_empty() {
                break;
            }
            let pick = case.order.get(step).copied().unwrap_or(step as u8) as usize % alive.len();
            step += 1;
            let i = alive[pick];
            polls += 1;
            if polls > 100_000 {
                panic!("scheduler: evaluation does not terminate");
            }
            match futs[i].as_mut().unwrap().as_mut().poll(&mut cx) {
                Poll::Pending => pendings[i] += 1,
                Poll::Ready(r) => {
                    results[i] = Some(detach(r.expect("evaluate_value")));
                    futs[i] = None;
                }
            }
        }
    });
    if let Err(p) = run {
        return Err(Issue::new("sched:panic", format!("scheduled evaluation panicked: {p}; {}", render(case))));
    }
    drop(futs);
    let log = built.log.lock().unwrap().clone();
    for i in 0..n {
        let id = id_of(&case.inputs[i]);
        let mine = attributed(&log, &id);
        match &results[i] {
            Some(out) => {
                if !same_outs(out, &baselines[i].0) {
                    return Err(Issue::new(
                        "sched:outcomes-depend-on-schedule",
                        format!(
                            "evaluation {i} under the schedule gives {} but alone gives {}; {}",
                            show_outs(out),
                            show_outs(&baselines[i].0),
                            render(case)
                        ),
                    ));
                }
                // invocation multiset attributable to this evaluation equals the baseline's
                let others_same_id = (0..n).filter(|j| *j != i && id_of(&case.inputs[*j]) == id).count();
                if others_same_id == 0 && sorted(mine.clone()) != sorted(baselines[i].1.clone()) {
                    return Err(Issue::new(
                        "sched:invocations-depend-on-schedule",
                        format!("evaluation {i} invoked {:?} under the schedule but {:?} alone; {}", mine, baselines[i].1, render(case)),
                    ));
                }
            }
            None => {
                // abandoned: what it invoked so far is a prefix of what it would have invoked alone
                if !baselines[i].1.starts_with(&mine) {
                    return Err(Issue::new(
                        "sched:abandoned-prefix",
                        format!("abandoned evaluation {i} invoked {:?}, not a prefix of {:?}; {}", mine, baselines[i].1, render(case)),
                    ));
                }
            }
        }
    }
    // evaluations sharing one input id cannot be told apart in the log: their joint invocations must add up
    if case.drop.is_none() {
        let mut ids: Vec<String> = case.inputs.iter().map(id_of).collect();
        ids.sort();
        ids.dedup();
        for id in ids {
            let members: Vec<usize> = (0..n).filter(|i| id_of(&case.inputs[*i]) == id).collect();
            if members.len() < 2 {
                continue;
            }
            let mut want = vec![];
            for m in &members {
                want.extend(baselines[*m].1.clone());
            }
            if sorted(attributed(&log, &id)) != sorted(want.clone()) {
                return Err(Issue::new(
                    "sched:invocations-depend-on-schedule",
                    format!("{} evaluations of the same input together invoked {:?}, alone they add up to {:?}; {}", members.len(), sorted(attributed(&log, &id)), sorted(want), render(case)),
                ));
            }
        }
    }
    // a fresh evaluation after everything (including abandoned ones) equals the baseline
    built.log.lock().unwrap().clear();
    let again = catch(|| detach(block_on(built.ruleset.evaluate_value(&case.inputs[0])).expect("evaluate_value")))
        .map_err(|p| Issue::new("sched:panic", format!("evaluation after the schedule panicked: {p}")))?;
    let log_again = built.log.lock().unwrap().clone();
    if !same_outs(&again, &baselines[0].0) || sorted(log_again.clone()) != sorted(baselines[0].1.clone()) {
        return Err(Issue::new(
            "sched:history-dependent",
            format!(
                "a fresh evaluation after the scheduled ones gives {} (invocations {:?}) but a first evaluation gives {} ({:?}); {}",
                show_outs(&again),
                log_again,
                show_outs(&baselines[0].0),
                baselines[0].1,
                render(case)
            ),
        ));
    }
    Ok(())
}

pub(crate) fn render(c: &SchedCase) -> String {
    format!(
        "rules [{}] suspend={} inputs={} order={:?} drop={:?} abandoned_before={}",
        c.spec.rules.iter().map(|(n, e)| format!("{n}: {}", show_expr(e))).collect::<Vec<_>>().join("; "),
        c.spec.suspend,
        c.inputs.len(),
        c.order,
        c.drop,
        c.abandoned_before
    )
}

impl SchedCase {
    pub fn to_json(&self) -> serde_json::Value {
        json!({"spec": spec_to_json(&self.spec), "inputs": self.inputs.iter().map(value_to_json).collect::<Vec<_>>(),
            "order": self.order, "drop": self.drop.map(|(k, a)| json!([k, a])), "abandoned_before": self.abandoned_before})
    }
    fn from_json(j: &serde_json::Value) -> Option<Self> {
        Some(SchedCase {
            spec: spec_from_json(j.get("spec")?)?,
            inputs: j.get("inputs")?.as_array()?.iter().map(value_from_json).collect::<Option<Vec<_>>>()?,
            order: j.get("order")?.as_array()?.iter().filter_map(|x| x.as_u64().map(|x| x as u8)).collect(),
            drop: j.get("drop").and_then(|d| d.as_array()).map(|d| (d[0].as_u64().unwrap_or(0) as usize, d[1].as_u64().unwrap_or(0) as u32)),
            abandoned_before: j.get("abandoned_before").and_then(|x| x.as_u64()).unwrap_or(0) as u32,
        })
    }
}

fn simple_facts(id: i128) -> Value {
    // ids are chosen so that the marker "[i100k," cannot occur in any other argument rendering
    crate::pool::map(&[("id", Value::Int(1000 + id)), ("vi", Value::Int(5))])
}

pub(crate) fn random_case(bytes: &[u8]) -> SchedCase {
    let mut d = Dec::new(bytes);
    let fns = gen_fns(&mut d, false);
    let nrules = 1 + d.below(4);
    let rules = (0..nrules)
        .map(|i| {
            let depth = 1 + d.below(3) as u32;
            (format!("r{i}"), gen_call_expr(&mut d, depth, true))
        })
        .collect::<Vec<_>>();
    let mut rules: Vec<(String, Expr)> = rules;
    // rules without calls whose value depends on the input (directly, or through one branch only): a result must not
    // be remembered from an evaluation of another input
    // (no calls in these rules: invocations are attributed to evaluations through the id inside call arguments)
    let cfg = gen::ExprCfg { fn_names: vec!["nofn".into()], sym_names: vec!["nosym".into()], typed_weight: 7 };
    let nb = d.below(3);
    for i in 0..nb {
        let e = match d.below(5) {
            0 => Expr::iif(Expr::value(true), Expr::reff("id"), Expr::value(0)),
            1 => Expr::iif(Expr::value(false), Expr::value("constant".to_string()), Expr::add(Expr::reff("id"), Expr::reff("vi"))),
            2 => Expr::Vec(vec![Expr::value(1), Expr::index(Expr::Vec(vec![Expr::reff("id")]), reval::expr::Index::Vec(0))]),
            _ => {
                let want = *d.pick(&gen::CONCRETE);
                gen::gen_expr(&mut d, want, 3, &cfg)
            }
        };
        rules.push((format!("b{i}"), e));
    }
    let suspend = d.below(4) as u32;
    let n = 1 + d.below(4);
    let same_input = d.below(5) >= 3;
    let inputs: Vec<Value> = (0..n).map(|i| simple_facts(if same_input && i > 0 { 1 } else { i as i128 + 1 })).collect();
    let order: Vec<u8> = (0..d.below(60)).map(|_| d.byte()).collect();
    let drop = if d.below(3) == 0 {
        // the dropped evaluation always has a unique id
        let k = if same_input { 0 } else { d.below(n) };
        Some((k, d.below(6) as u32))
    } else {
        None
    };
    let drop = if same_input { None } else { drop };
    let abandoned_before = match d.below(8) {
        7 => 1 + d.below(400) as u32,
        6 => 1 + d.below(4) as u32,
        _ => 0,
    };
    SchedCase { spec: SetSpec { rules, fns, symbols: BTreeMap::new(), suspend }, inputs, order, drop, abandoned_before }
}

/// exhaustive core: 2 evaluations of small rulesets, every poll order of bounded length, every drop point
fn core_specs() -> Vec<SetSpec> {
    let call = |f: &str, x: i128| Expr::func(f, Expr::Vec(vec![Expr::reff("id"), Expr::value(x)]));
    let mut fns = BTreeMap::new();
    fns.insert("fa".to_string(), me::FnSpec { cacheable: true, fail_on: vec![], fail_first: 0, uncacheable_after: 0 });
    fns.insert("fb".to_string(), me::FnSpec { cacheable: false, fail_on: vec![], fail_first: 0, uncacheable_after: 0 });
    fns.insert("fc".to_string(), me::FnSpec { cacheable: true, fail_on: vec!["[i1001,i2]".into(), "[i1002,i2]".into()], fail_first: 0, uncacheable_after: 0 });
    let mk = |rules: Vec<Expr>, suspend: u32| SetSpec {
        rules: rules.into_iter().enumerate().map(|(i, e)| (format!("r{i}"), e)).collect(),
        fns: fns.clone(),
        symbols: BTreeMap::new(),
        suspend,
    };
    vec![
        mk(vec![Expr::Vec(vec![call("fa", 1), call("fa", 1)])], 1),
        mk(vec![call("fa", 1), call("fa", 1)], 2),
        mk(vec![Expr::Vec(vec![call("fb", 1), call("fc", 2), call("fa", 3)]), call("fa", 3)], 1),
        mk(vec![call("fc", 2), Expr::Vec(vec![call("fa", 1), call("fb", 1)])], 1),
    ]
}

// ---- histories of evaluate(&T) calls whose serialization fails ----------------------------------------------------

fn failing_inputs() -> Vec<crate::sval::SVal> {
    use crate::sval::SVal::*;
    let b = |x: crate::sval::SVal| Box::new(x);
    let s = |x: &str| x.to_string();
    vec![
        NewtypeVariant(s("E"), 0, s("V"), b(Fail(s("refused")))),
        NewtypeVariant(s("E"), 0, s("V"), b(U128(u128::MAX))),
        NewtypeVariant(s("E"), 1, s("W"), b(Seq(vec![U8(1), Fail(s("refused"))], true))),
        NewtypeStruct(s("N"), b(Fail(s("refused")))),
        Some(b(Fail(s("refused")))),
        Seq(vec![U8(1), Seq(vec![Seq(vec![Fail(s("refused"))], true)], false)], true),
        Tuple(vec![Unit, Fail(s("refused"))]),
        TupleStruct(s("T"), vec![U128(u128::MAX)]),
        TupleVariant(s("E"), 0, s("V"), vec![U8(1), Fail(s("refused"))]),
        Map(vec![(Str(s("a")), Fail(s("refused")))], true),
        Map(vec![(Str(s("a")), Map(vec![(Str(s("b")), U128(u128::MAX))], false))], false),
        Struct(s("S"), vec![(s("f"), U8(1)), (s("g"), Fail(s("refused")))]),
        StructVariant(s("E"), 0, s("V"), vec![(s("f"), Struct(s("S"), vec![(s("g"), Fail(s("refused")))]))]),
    ]
}

fn nested_valid_input() -> crate::sval::SVal {
    use crate::sval::SVal::*;
    let s = |x: &str| x.to_string();
    let mut deep = Seq(vec![U8(1), Str(s("x"))], true);
    for i in 0..10 {
        deep = match i % 4 {
            0 => Seq(vec![deep], true),
            1 => NewtypeVariant(s("E"), 0, s("V"), Box::new(deep)),
            2 => Struct(s("S"), vec![(s("f"), deep)]),
            _ => Map(vec![(Str(s("k")), deep)], true),
        };
    }
    Struct(s("Facts"), vec![(s("id"), I64(1001)), (s("deep"), deep), (s("list"), Tuple(vec![Some(Box::new(U8(2))), None]))])
}

/// k evaluations whose input fails to serialize (kind f), all on one fresh thread; in between and afterwards a valid nested
/// input must give exactly what it gives on a thread without that history
fn check_serializable_history(f: usize, k: usize) -> Verdict {
    let fails = failing_inputs();
    let bad = &fails[f];
    let good = nested_valid_input();
    let spec = SetSpec {
        rules: vec![("whole".into(), Expr::reff("facts")), ("leaf".into(), Expr::index(Expr::reff("list"), reval::expr::Index::Vec(0)))],
        fns: BTreeMap::new(),
        symbols: BTreeMap::new(),
        suspend: 0,
    };
    let run_good = |rs: &RuleSet| -> Result<Outs, String> {
        catch(|| block_on(rs.evaluate(&good)).map(detach).map_err(|e| e.to_string())).map_err(|p| format!("panic {p}"))?
    };
    let baseline = std::thread::scope(|sc| sc.spawn(|| run_good(&probe::build(&spec, false).ruleset)).join())
        .map_err(|_| Issue::new("sched:panic", "baseline thread panicked"))?
        .map_err(|e| Issue::new("sched:serde-history:baseline", format!("a valid nested input fails without any history: {e}")))?;
    std::thread::scope(|sc| {
        sc.spawn(|| {
            let built = probe::build(&spec, false);
            for step in 0..k {
                let r = catch(|| block_on(built.ruleset.evaluate(bad)).map(detach).map_err(|e| e.to_string()));
                match r {
                    Err(p) => return Err(Issue::new("sched:panic", format!("evaluate(&T) panicked on {bad:?}: {p}"))),
                    Ok(Ok(_)) => return Err(Issue::new("sched:serde-history:failure-ignored", format!("input {bad:?} cannot be serialized but evaluate succeeded"))),
                    Ok(Err(_)) => {}
                }
                if step % 37 == 36 || step + 1 == k {
                    // a fresh ruleset as well as the one that saw the failures
                    for (which, rs) in [("the same ruleset", &built.ruleset), ("a fresh ruleset", &probe::build(&spec, false).ruleset)] {
                        match run_good(rs) {
                            Ok(o) if same_outs(&o, &baseline) => {}
                            other => {
                                return Err(Issue::new(
                                    "sched:serde-history:depends-on-failed-evaluations",
                                    format!(
                                        "after {} evaluations that failed to serialize {bad:?} on this thread, evaluate(&valid nested input) on {which} gives {} but without that history {}",
                                        step + 1,
                                        match &other {
                                            Ok(o) => show_outs(o),
                                            Err(e) => format!("Err({e})"),
                                        },
                                        show_outs(&baseline)
                                    ),
                                ))
                            }
                        }
                    }
                }
            }
            Ok(())
        })
        .join()
    })
    .unwrap_or_else(|_| Err(Issue::new("sched:panic", "history thread panicked")))
}

// ---- consecutive inputs that compare equal but are distinguishable -------------------------------------------------

/// Membership tests against a long list held by a symbol, asked repeatedly of one ruleset instance: items equal under ==
/// but spelled differently (d2.0 / d2.00, 0.0 / -0.0), before and after lookups that had to scan the whole list.
fn check_symbol_list_history(variant: usize) -> Verdict {
    let n = [8usize, 31, 32, 33, 40, 100][variant % 6];
    let mut items: Vec<Value> = (0..n as i128).map(|k| Value::Int(1000 + k)).collect();
    items[n / 2] = crate::pool::dec(20, 1);
    items[n / 3] = Value::Float(0.0);
    items[n - 1] = Value::String("last".into());
    let spec = SetSpec {
        rules: vec![
            ("in".into(), Expr::contains(Expr::symbol("big"), Expr::reff("x"))),
            ("in-path".into(), Expr::contains(Expr::index(Expr::symbol("wrap"), reval::expr::Index::Map("l".into())), Expr::reff("x"))),
        ],
        fns: BTreeMap::new(),
        symbols: [("big".to_string(), Value::Vec(items.clone())), ("wrap".to_string(), crate::pool::map(&[("l", Value::Vec(items.clone()))]))].into_iter().collect(),
        suspend: 0,
    };
    let probes: Vec<Value> = vec![
        crate::pool::dec(200, 2),
        Value::String("last".into()),
        crate::pool::dec(200, 2),
        Value::Float(-0.0),
        Value::Int(5),
        Value::Float(-0.0),
        crate::pool::dec(2, 0),
        Value::Float(f64::NAN),
        Value::Int(1000),
        crate::pool::dec(20, 1),
    ];
    let built = probe::build(&spec, false);
    for (step, x) in probes.iter().enumerate() {
        let input = crate::pool::map(&[("x", x.clone())]);
        let got = catch(|| block_on(built.ruleset.evaluate_value(&input)).map(detach).map_err(|e| e.to_string()))
            .map_err(|p| Issue::new("sched:panic", format!("evaluation panicked: {p}")))?
            .map_err(|e| Issue::new("sched:symbol-list-history", format!("evaluate_value failed as a whole: {e}")))?;
        for (k, (name, e)) in spec.rules.iter().enumerate() {
            let mut env = me::Env::new(&input, &spec.symbols, &spec.fns);
            let want = me::eval(e, &mut env);
            let same = match (&got[k].1, &want) {
                (Ok(a), Ok(b)) => same_value(a, b, true),
                (Err(_), Err(_)) => true,
                _ => false,
            };
            if !same {
                return Err(Issue::new(
                    "sched:symbol-list-history",
                    format!(
                        "lookup {step} of the sequence {:?} in a {n}-item list held by a symbol (one ruleset instance): rule {name} gives {:?} but on a fresh ruleset {}",
                        probes.iter().map(show_value).collect::<Vec<_>>(),
                        got[k].1.as_ref().map(show_value),
                        me::show_model(&want)
                    ),
                ));
            }
        }
    }
    Ok(())
}

/// One ruleset instance (with or without user functions) evaluates a sequence of inputs in which neighbours are equal
/// under `==` yet different (0.0 / -0.0, d1.0 / d1.00, inside lists and maps); every outcome must be what the
/// stateless reference gives for that input alone.
fn check_twin_inputs(i: usize) -> Verdict {
    let f = |x: f64| Value::Float(x);
    let sequences: Vec<Vec<Value>> = vec![
        vec![f(0.0), f(-0.0), f(0.0), f(-0.0)],
        vec![f(-0.0), f(0.0)],
        vec![crate::pool::dec(10, 1), crate::pool::dec(100, 2), crate::pool::dec(1, 0), crate::pool::dec(10, 1)],
        vec![Value::Vec(vec![f(0.0), Value::Int(1)]), Value::Vec(vec![f(-0.0), Value::Int(1)])],
        vec![crate::pool::map(&[("k", crate::pool::dec(100, 2))]), crate::pool::map(&[("k", crate::pool::dec(1, 0))])],
        vec![Value::Int(1), Value::Int(1), Value::Int(2), Value::Int(1)],
    ];
    if i == 18 {
        // 1300 evaluations in which no call is ever repeated, then evaluations in which one is: what a ruleset has seen
        // before does not change what an evaluation does (invocation counts against the per-evaluation cache model)
        let mut fns = BTreeMap::new();
        fns.insert("fa".to_string(), me::FnSpec { cacheable: true, fail_on: vec![], fail_first: 0, uncacheable_after: 0 });
        let rule = Expr::Vec(vec![Expr::func("fa", Expr::reff("x")), Expr::func("fa", Expr::reff("y"))]);
        let mut inputs: Vec<Value> = (0..1300).map(|k| crate::pool::map(&[("x", Value::Int(k)), ("y", Value::Int(k + 10_000))])).collect();
        inputs.push(crate::pool::map(&[("x", Value::Int(5)), ("y", Value::Int(5))]));
        inputs.push(crate::pool::map(&[("x", Value::Int(6)), ("y", Value::Int(6))]));
        let case = SetCase { spec: SetSpec { rules: vec![("r0".to_string(), rule)], fns, symbols: BTreeMap::new(), suspend: 0 }, inputs };
        return super::c11::check(&case).map_err(|i| Issue::new("sched:history-dependent", i.msg));
    }
    if i >= 12 {
        return check_symbol_list_history(i - 12);
    }
    let with_functions = i % 2 == 1;
    let seq = &sequences[(i / 2) % sequences.len()];
    let x = || Expr::reff("x");
    let mut rules: Vec<(String, Expr)> = vec![
        ("same".into(), x()),
        ("reciprocal".into(), Expr::div(Expr::Value(f(1.0)), x())),
        ("positive".into(), Expr::gt(Expr::div(Expr::Value(f(1.0)), x()), Expr::Value(f(0.0)))),
        ("listed".into(), Expr::Vec(vec![x(), Expr::reff("id")])),
        ("twice".into(), Expr::add(x(), x())),
    ];
    let mut fns = BTreeMap::new();
    if with_functions {
        fns.insert("fa".to_string(), me::FnSpec { cacheable: true, fail_on: vec![], fail_first: 0, uncacheable_after: 0 });
        rules.push(("called".into(), Expr::func("fa", Expr::Vec(vec![Expr::reff("id"), x()]))));
    }
    let spec = SetSpec { rules, fns, symbols: BTreeMap::new(), suspend: 0 };
    let built = probe::build(&spec, false);
    for (step, v) in seq.iter().enumerate() {
        // the same id throughout: the inputs differ only in the twin value
        let input = crate::pool::map(&[("id", Value::Int(1001)), ("x", v.clone())]);
        let got = catch(|| block_on(built.ruleset.evaluate_value(&input)).map(detach).map_err(|e| e.to_string()))
            .map_err(|p| Issue::new("sched:panic", format!("evaluation panicked: {p}")))?
            .map_err(|e| Issue::new("sched:twin-inputs", format!("evaluate_value failed as a whole: {e}")))?;
        for (k, (name, e)) in spec.rules.iter().enumerate() {
            let want = me::eval_plain_with(e, &input, &spec.fns);
            let g: Result<Value, reval::Error> = match &got[k].1 {
                Ok(v) => Ok(v.clone()),
                Err(_) => Err(reval::Error::InvalidType),
            };
            let differs = match (&got[k].1, &want) {
                (Ok(a), Ok(b)) => !same_value(a, b, true),
                (Err(_), Err(_)) => false,
                _ => true,
            };
            if differs {
                return Err(Issue::new(
                    "sched:twin-inputs",
                    format!(
                        "input {step} of the sequence {:?} (one ruleset instance, {} user functions): rule {name} = {} gives {} but for that input alone {}",
                        seq.iter().map(show_value).collect::<Vec<_>>(),
                        if with_functions { "with" } else { "without" },
                        show_expr(e),
                        me::show_actual(&g),
                        me::show_model(&want)
                    ),
                ));
            }
        }
    }
    Ok(())
}

/// specs for many evaluations in flight at once / for one very large evaluation
fn heavy_specs() -> Vec<(SetSpec, usize)> {
    let call = |f: &str, x: i128| Expr::func(f, Expr::Vec(vec![Expr::reff("id"), Expr::value(x)]));
    let mut fns = BTreeMap::new();
    fns.insert("fa".to_string(), me::FnSpec { cacheable: true, fail_on: vec![], fail_first: 0, uncacheable_after: 0 });
    fns.insert("fb".to_string(), me::FnSpec { cacheable: false, fail_on: vec![], fail_first: 0, uncacheable_after: 0 });
    let nest = |mut e: Expr, depth: usize| {
        for i in 0..depth {
            e = match i % 4 {
                0 => Expr::Vec(vec![e]),
                1 => Expr::iif(Expr::value(true), e, Expr::value(0)),
                2 => Expr::index(Expr::Vec(vec![Expr::value(0), e]), reval::expr::Index::Vec(1)),
                _ => Expr::Map([("k".to_string(), e)].into_iter().collect()),
            };
        }
        e
    };
    let mk = |rules: Vec<Expr>, suspend: u32| SetSpec {
        rules: rules.into_iter().enumerate().map(|(i, e)| (format!("r{i}"), e)).collect(),
        fns: fns.clone(),
        symbols: BTreeMap::new(),
        suspend,
    };
    // one evaluation that makes 300 distinct cacheable calls and then repeats each of them (every repeat must be served
    // from this evaluation's own results: 300 invocations, not more, not fewer, in every run)
    let big: Vec<Expr> = (0..300).map(|k| call("fa", k)).chain((0..300).map(|k| call("fa", k))).collect();
    vec![
        // (spec, number of evaluations in flight)
        (mk(vec![nest(call("fa", 1), 12), nest(call("fb", 2), 9)], 1), 250),
        (mk(vec![nest(call("fb", 1), 16)], 2), 120),
        (mk(vec![nest(Expr::Vec(vec![call("fa", 1), call("fb", 1), call("fa", 1)]), 6)], 1), 64),
        (mk(vec![Expr::Vec(big)], 1), 2),
    ]
}

/// small pool of expressions for evaluation histories (so that repeats, and failures followed by repeats, are frequent)
fn hist_pool() -> Vec<Expr> {
    let s = |x: &str| Expr::Value(Value::String(x.to_string()));
    let mut v = vec![];
    for text in ["2015-07-30T03:26:13Z", "2021-10-15T10:00:00Z", "not a date", "2015-07-30", "", "12", "1e3", "abc", "1.50"] {
        v.push(Expr::datetime(s(text)));
        v.push(Expr::int(s(text)));
        v.push(Expr::float(s(text)));
        v.push(Expr::dec(s(text)));
        v.push(Expr::uppercase(s(text)));
    }
    for n in [0i128, 1, 86400, i64::MAX as i128, -1] {
        v.push(Expr::datetime(Expr::value(n)));
        v.push(Expr::duration(Expr::value(n)));
        v.push(Expr::week(Expr::value(n)));
    }
    v.push(Expr::reff("id"));
    v.push(Expr::iif(Expr::value(true), Expr::reff("id"), Expr::value(0)));
    v.push(Expr::contains(Expr::Vec(vec![Expr::value(1001), Expr::value(1002)]), Expr::reff("id")));
    v
}

fn decode_history(bytes: &[u8]) -> (Vec<usize>, Vec<usize>) {
    let mut d = Dec::new(bytes);
    let n = hist_pool().len();
    let len = 3 + d.below(8);
    let idx: Vec<usize> = (0..len).map(|_| d.below(n)).collect();
    let inputs: Vec<usize> = (0..len).map(|_| 1 + d.below(2)).collect();
    (idx, inputs)
}

/// All on one thread: each result must be what the stateless reference evaluator gives for that expression alone.
pub(crate) fn check_expression_history(bytes: &[u8]) -> Verdict {
    let pool = hist_pool();
    let (idx, inputs) = decode_history(bytes);
    for (step, (i, inp)) in idx.iter().zip(inputs.iter()).enumerate() {
        let facts = simple_facts(*inp as i128);
        let e = &pool[*i];
        let want = me::eval_plain(e, &facts);
        let got = catch(|| block_on(e.evaluate(&facts))).map_err(|p| Issue::new("sched:panic", format!("evaluation panicked: {p}")))?;
        if let Some(dis) = me::compare(&got, &want) {
            return Err(Issue::new(
                "sched:history-dependent",
                format!(
                    "step {step} of the history {:?}: {} gives {} but on its own {} ({dis:?})",
                    idx.iter().map(|i| show_expr(&pool[*i])).collect::<Vec<_>>(),
                    show_expr(e),
                    me::show_actual(&got),
                    me::show_model(&want)
                ),
            ));
        }
    }
    Ok(())
}

pub fn run(ctx: &Ctx) {
    ctx.set_rule(
        "Generated: rulesets of call-heavy rules over probes that suspend 0-3 times per call (returning Pending and waking by \
         reference), 1-4 concurrent evaluations of ONE ruleset (each input carries an id that is passed into every probe argument, so \
         invocations are attributable), a generated poll order over the live evaluations, and optionally a point (after the k-th \
         Pending of one evaluation) at which that evaluation is dropped. Sequences of inputs that are equal under == yet distinguishable (0.0 / -0.0, d1.0 / d1.00) given to one ruleset instance. Histories of 1-300 evaluate(&T) calls whose input fails to serialize (13 failure positions), all on one thread, followed by a valid nested input. Up to 250 evaluations of deeply nested rules in flight at once, and one evaluation making 300 distinct cacheable calls twice over. Exhaustive core: 4 small rulesets x 2 evaluations x every \
         poll order of 10 binary choices x every drop point 0..5 of either evaluation or none. Oracle: every completed evaluation's \
         outcomes and attributed invocation multiset equal those of the same input run alone to completion with non-suspending \
         probes; an abandoned evaluation's invocations are a prefix of its baseline's; two consecutive baseline runs are identical \
         (outcomes and invocation log); the input compares equal to a deep clone taken before; every outcome carries a rule equal \
         to the rule given to the builder; a fresh evaluation after all of that equals the baseline. Non-trivial: >= 1 suspension and \
         (>= 2 interleaved evaluations or a drop).",
    );
    ctx.assume("the evaluator itself never yields: suspension points exist only inside user functions, which the harness owns");
    ctx.assume("failure plans are stateless so that a baseline exists that is independent of history");

    super::regressions::run(ctx, "C12", replay);

    // histories of abandoned evaluations: k evaluations started, polled to their first suspension and dropped, then a
    // scheduled run; each case on a fresh OS thread so that the case alone is the whole history (replayable as is)
    let nh = ctx.tier.pick(40_000u64, 600_000u64);
    ctx.random(
        "expression-histories",
        nh,
        || gen::recipe(40),
        |bytes, acc| {
            if let Some(acc) = acc {
                let (idx, _) = decode_history(bytes);
                let pool = hist_pool();
                let repeats = idx.iter().enumerate().any(|(i, x)| idx[..i].contains(x));
                acc.case("history:expressions", repeats, || format!("{:?}", idx.iter().map(|i| show_expr(&pool[*i])).collect::<Vec<_>>()));
            }
            check_expression_history(bytes)
        },
        |bytes| json!({"history_bytes": bytes}),
        "history",
    );

    let specs = core_specs();
    let ks: [u32; 12] = [1, 2, 3, 5, 10, 25, 50, 100, 150, 200, 300, 400];
    let hist: Vec<SchedCase> = specs
        .iter()
        .flat_map(|sp| {
            ks.iter().map(move |k| SchedCase {
                spec: sp.clone(),
                inputs: vec![simple_facts(1), simple_facts(2)],
                order: vec![0, 1, 1, 0, 0, 1],
                drop: Some((1, 1)),
                abandoned_before: *k,
            })
        })
        .collect();
    // functions that are polled very often before they answer
    let patience = [1u32, 255, 256, 1000, 32_768, 65_535, 65_536, 70_000, 140_000];
    ctx.enumerate(
        "patient-functions",
        patience.len() as u64,
        true,
        |i, acc| {
            acc.cell("patient", true);
            acc.sample("patient", || format!("every call suspends {} times", patience[i as usize]));
            check_patient(patience[i as usize])
        },
        |i| json!({"patient_functions": patience[i as usize]}),
        "patient",
    );

    // the history of the *builder*: symbols that were defined before with other values
    let redefined = redefined_symbol_cases();
    ctx.enumerate(
        "redefined-symbols",
        redefined.len() as u64,
        true,
        |i, acc| {
            let (earlier, case) = &redefined[i as usize];
            acc.cell(&format!("redefined-symbols:way{}", earlier[0].0), true);
            if i % 61 == 0 {
                acc.sample("redefined-symbols", || format!("earlier s = {}, then {}", show_value(&earlier[0].2), case.render()).chars().take(300).collect());
            }
            check_redefined(earlier, case)
        },
        |i| json!({"redefined_symbols": i}),
        "redefined-symbols",
    );

    ctx.enumerate(
        "twin-input-histories",
        19,
        true,
        |i, acc| {
            acc.cell("history:equal-but-distinguishable-inputs", true);
            check_twin_inputs(i as usize)
        },
        |i| json!({"twin_inputs": i}),
        "twin-inputs",
    );

    let nfail = failing_inputs().len() as u64;
    let ks: [usize; 4] = [1, 40, 140, ctx.tier.pick(300, 1500)];
    ctx.enumerate(
        "failed-serialization-histories",
        nfail * ks.len() as u64,
        true,
        |i, acc| {
            acc.cell("history:failed-serializations-then-valid-input", true);
            if i % 5 == 0 {
                acc.sample("history:serde", || format!("{} x evaluate(&{:?}) then a valid nested input", ks[(i % 4) as usize], failing_inputs()[(i / 4) as usize]));
            }
            check_serializable_history((i / 4) as usize, ks[(i % 4) as usize])
        },
        |i| json!({"serde_history": [i / 4, ks[(i % 4) as usize]]}),
        "serde-history",
    );

    let heavy: Vec<SchedCase> = heavy_specs()
        .into_iter()
        .flat_map(|(spec, n)| {
            [None, Some((n / 2, 1u32))].into_iter().map(move |drop| SchedCase {
                spec: spec.clone(),
                inputs: (0..n).map(|i| simple_facts(i as i128 + 1)).collect(),
                order: vec![],
                drop,
                abandoned_before: 0,
            })
        })
        .collect();
    // identical inputs in flight together
    let same: Vec<SchedCase> = core_specs()
        .into_iter()
        .flat_map(|sp| {
            [2usize, 3, 8].into_iter().flat_map(move |n| {
                let sp = sp.clone();
                [vec![], vec![0u8, 0, 1, 1, 0, 1, 2, 2, 1, 0], vec![1, 0, 0, 0, 1]].into_iter().map(move |order| SchedCase {
                    spec: SetSpec { suspend: 1 + (n as u32 % 3), ..sp.clone() },
                    inputs: vec![simple_facts(1); n],
                    order,
                    drop: None,
                    abandoned_before: 0,
                })
            })
        })
        .collect();
    ctx.enumerate(
        "identical-inputs-in-flight",
        same.len() as u64,
        true,
        |i, acc| {
            acc.cell("identical-inputs", true);
            if i % 5 == 0 {
                acc.sample("identical-inputs", || render(&same[i as usize]));
            }
            check(&same[i as usize])
        },
        |i| same[i as usize].to_json(),
        "sched",
    );

    ctx.enumerate(
        "many-in-flight",
        heavy.len() as u64,
        true,
        |i, acc| {
            let c = &heavy[i as usize];
            acc.cell(if c.inputs.len() > 2 { "heavy:many-evaluations-in-flight" } else { "heavy:one-large-evaluation" }, true);
            acc.sample("heavy", || format!("{} evaluations of rules nested to depth {} in flight", c.inputs.len(), expr_depth(&c.spec.rules[0].1)));
            std::thread::scope(|s| s.spawn(|| check(c)).join()).unwrap_or_else(|_| Err(Issue::new("sched:panic", "check thread panicked")))
        },
        |i| heavy[i as usize].to_json(),
        "sched",
    );

    ctx.enumerate(
        "abandoned-histories",
        hist.len() as u64,
        true,
        |i, acc| {
            let c = hist[i as usize].clone();
            acc.cell("history:abandoned-then-scheduled", true);
            if i % 7 == 0 {
                acc.sample("history", || render(&c));
            }
            std::thread::scope(|s| s.spawn(|| check(&c)).join()).unwrap_or_else(|_| Err(Issue::new("sched:panic", "check thread panicked")))
        },
        |i| hist[i as usize].to_json(),
        "sched",
    );

    let orders = 1u64 << 10;
    let drops = 13u64; // none, (0, 0..=5), (1, 0..=5)
    let total = specs.len() as u64 * orders * drops;
    let decode = |i: u64| -> SchedCase {
        let s = (i / (orders * drops)) as usize;
        let r = i % (orders * drops);
        let o = r / drops;
        let dr = r % drops;
        let order: Vec<u8> = (0..10).map(|b| ((o >> b) & 1) as u8).collect();
        let drop = if dr == 0 { None } else { Some((((dr - 1) / 6) as usize, ((dr - 1) % 6) as u32)) };
        SchedCase { spec: specs[s].clone(), inputs: vec![simple_facts(1), simple_facts(2)], order, drop, abandoned_before: 0 }
    };
    ctx.enumerate(
        "interleaving-core",
        total,
        true,
        |i, acc| {
            let c = decode(i);
            acc.cell(if c.drop.is_some() { "core:with-drop" } else { "core:interleaved" }, true);
            if i % 4099 == 0 {
                acc.sample("core", || render(&c));
            }
            check(&c)
        },
        |i| decode(i).to_json(),
        "sched",
    );

    let n = ctx.tier.pick(60_000u64, 1_200_000u64);
    ctx.random(
        "random-schedules",
        n,
        || gen::recipe(400),
        |bytes, acc| {
            let c = random_case(bytes);
            if let Some(acc) = acc {
                let nt = c.spec.suspend >= 1 && (c.inputs.len() >= 2 || c.drop.is_some());
                let class = match (c.inputs.len() >= 2, c.drop.is_some()) {
                    (true, true) => "rnd:interleaved+drop",
                    (true, false) => "rnd:interleaved",
                    (false, true) => "rnd:single+drop",
                    _ => "rnd:single",
                };
                acc.case(class, nt, || render(&c));
            }
            check(&c)
        },
        |bytes| random_case(bytes).to_json(),
        "sched",
    );
}

/// Rulesets whose symbols were defined before with other values (through every way a builder takes symbols): the
/// ruleset resolves each name to the value registered last, and nothing else about it may remember the earlier one.
/// Rules call a cacheable function with the bare symbol, with a path into it and with literals equal to the earlier and
/// to the final value, in every rotation.
pub fn redefined_symbol_cases() -> Vec<(Vec<(u8, String, Value)>, SetCase)> {
    let m = |pairs: &[(&str, i128)]| crate::pool::map(&pairs.iter().map(|(k, v)| (*k, Value::Int(*v))).collect::<Vec<_>>());
    let lit = |v: &Value| Expr::Value(v.clone());
    let pairs: Vec<(Value, Value)> = vec![
        (Value::Int(10), Value::Int(20)),
        (Value::String("old".into()), Value::String("new".into())),
        (m(&[("gold", 30), ("silver", 20)]), m(&[("gold", 35), ("bronze", 5)])),
        (m(&[("gold", 30)]), m(&[("gold", 30), ("silver", 20)])),
        (Value::Vec(vec![Value::Int(1), Value::Int(2), Value::Int(3)]), Value::Vec(vec![Value::Int(9)])),
        (m(&[("gold", 30)]), Value::Int(1)),
        (Value::None, Value::Int(2)),
        (Value::Int(2), Value::None),
    ];
    let mut out = vec![];
    for (old, new) in &pairs {
        for way in 0..6u8 {
            let mut fns = BTreeMap::new();
            fns.insert("fa".to_string(), me::FnSpec { cacheable: true, fail_on: vec![], fail_first: 0, uncacheable_after: 0 });
            fns.insert("fc".to_string(), me::FnSpec { cacheable: true, fail_on: vec![], fail_first: 0, uncacheable_after: 0 });
            let mut symbols = BTreeMap::new();
            symbols.insert("s".to_string(), new.clone());
            symbols.insert("other".to_string(), Value::Int(7));
            let rules: Vec<(String, Expr)> = vec![
                ("symbol".into(), Expr::symbol("s")),
                ("call-symbol".into(), Expr::func("fa", Expr::symbol("s"))),
                ("call-earlier-value".into(), Expr::func("fa", lit(old))),
                ("call-final-value".into(), Expr::func("fa", lit(new))),
                ("call-symbol-again".into(), Expr::Vec(vec![Expr::func("fa", Expr::symbol("s")), Expr::func("fc", Expr::symbol("s")), Expr::func("fc", lit(old))])),
                ("has-silver".into(), Expr::contains(Expr::symbol("s"), Expr::value("silver".to_string()))),
                ("other".into(), Expr::func("fa", Expr::symbol("other"))),
            ];
            for r in 0..rules.len() {
                let mut rs = rules.clone();
                rs.rotate_left(r);
                let earlier = vec![(way, "s".to_string(), old.clone()), (way, "gone".to_string(), Value::Int(1)), ((way + 1) % 3 + (way / 3) * 3, "s".to_string(), old.clone())];
                out.push((earlier, SetCase { spec: SetSpec { rules: rs, fns: fns.clone(), symbols: symbols.clone(), suspend: 0 }, inputs: vec![Value::None, Value::None] }));
            }
        }
    }
    out
}

/// User functions that suspend `suspend` times before they answer (tens of thousands of times): the outcome of a rule does
/// not depend on how often a call was polled before it completed.
pub fn check_patient(suspend: u32) -> Verdict {
    let mut fns = BTreeMap::new();
    fns.insert("fa".to_string(), me::FnSpec { cacheable: true, fail_on: vec![], fail_first: 0, uncacheable_after: 0 });
    fns.insert("fb".to_string(), me::FnSpec { cacheable: false, fail_on: vec![me::arg_key(&Value::Int(9))], fail_first: 0, uncacheable_after: 0 });
    let call = |f: &str, k: i128| Expr::func(f, Expr::value(k));
    let spec = SetSpec {
        rules: vec![
            ("sum".into(), Expr::add(call("fa", 1), call("fb", 2))),
            ("again".into(), Expr::Vec(vec![call("fa", 1), call("fb", 2)])),
            ("fails".into(), call("fb", 9)),
        ],
        fns,
        symbols: BTreeMap::new(),
        suspend,
    };
    let quick = SetSpec { suspend: 0, ..spec.clone() };
    let run = |s: &SetSpec| {
        let b = probe::build(s, false);
        let out = catch(|| detach(block_on_bounded(b.ruleset.evaluate_value(&Value::None), 10_000_000).expect("the evaluation completes").expect("evaluate_value")));
        let log = b.log.lock().unwrap().clone();
        (out, log)
    };
    let (a, la) = run(&quick);
    let (b, lb) = run(&spec);
    match (a, b) {
        (Ok(a), Ok(b)) if same_outs(&a, &b) && la == lb => Ok(()),
        (a, b) => Err(Issue::new(
            "sched:patient-functions",
            format!(
                "user functions that suspend {suspend} times before they answer: outcomes {:?} with invocations {:?}; the same functions answering at once: {:?} with {:?}",
                b.map(|o| o.iter().map(|(n, v)| format!("{n}={}", v.as_ref().map(show_value).unwrap_or_else(|e| format!("Err({e})")))).collect::<Vec<_>>()),
                lb,
                a.map(|o| o.iter().map(|(n, v)| format!("{n}={}", v.as_ref().map(show_value).unwrap_or_else(|e| format!("Err({e})")))).collect::<Vec<_>>()),
                la
            ),
        )),
    }
}

pub fn check_redefined(earlier: &[(u8, String, Value)], case: &SetCase) -> Verdict {
    probe::with_earlier_symbols(earlier.to_vec(), || {
        super::c09::check(case)?;
        super::c11::check(case)
    })
    .map_err(|i| Issue::new(format!("history:redefined-symbols:{}", i.sig), format!("symbols defined earlier as {:?} and then redefined: {}", earlier.iter().map(|(w, k, v)| format!("way {w}: {k} = {}", show_value(v))).collect::<Vec<_>>(), i.msg)))
}

pub fn replay(j: &serde_json::Value) -> Option<Verdict> {
    if let Some(i) = j.get("redefined_symbols").and_then(|i| i.as_u64()) {
        return redefined_symbol_cases().get(i as usize).map(|(e, c)| check_redefined(e, c));
    }
    if let Some(n) = j.get("patient_functions").and_then(|i| i.as_u64()) {
        return Some(check_patient(n as u32));
    }
    if let Some(i) = j.get("twin_inputs").and_then(|x| x.as_u64()) {
        return Some(check_twin_inputs(i as usize));
    }
    if let Some(a) = j.get("serde_history").and_then(|a| a.as_array()) {
        let (f, k) = (a.first()?.as_u64()? as usize, a.get(1)?.as_u64()? as usize);
        return (f < failing_inputs().len()).then(|| check_serializable_history(f, k));
    }
    if let Some(b) = j.get("history_bytes").and_then(|b| b.as_array()) {
        let bytes: Vec<u8> = b.iter().filter_map(|x| x.as_u64().map(|x| x as u8)).collect();
        return Some(check_expression_history(&bytes));
    }
    SchedCase::from_json(j).map(|c| check(&c))
}
