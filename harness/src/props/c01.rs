//! C01 — evaluation always returns a value or an error, never a panic; no silent overflow.

use super::evalcommon::*;
use crate::core::*;
use crate::gen;
use crate::model::eval::{self as me, compare, Disagree, FnSpec, MErr};
use crate::pool;
use crate::data::*;
use reval::prelude::*;
use std::collections::BTreeMap;

pub fn check(case: &EvalCase) -> Verdict {
    let o = observe(case);
    judge(case, &o.actual, &o.model)?;
    // second entry point: the same expression as a rule of a ruleset
    if case.fns.is_empty() && case.symbols.is_empty() {
        let a2 = observe_via_ruleset(case);
        judge(case, &a2, &o.model).map_err(|i| Issue::new(format!("{}:via-ruleset", i.sig), i.msg))?;
    }
    Ok(())
}

fn judge(case: &EvalCase, actual: &Actual, model: &me::MRes) -> Verdict {
    match actual {
        Actual::Panic(p) => {
            let loc = p.rsplit(" @ ").next().unwrap_or("?");
            Err(Issue::new(
                format!("eval:panic:{loc}"),
                format!("evaluation panicked: {p}; case {}", case.render()),
            ))
        }
        Actual::Pending => Err(Issue::new(
            "eval:pending",
            format!("evaluation did not complete although no user function suspends; case {}", case.render()),
        )),
        Actual::Done(r) => match compare(r, model) {
            Some(Disagree::SilentOverflow) => Err(Issue::new(
                format!("eval:silent-overflow:{}({})", root_sig(&case.expr), operand_types(&case.expr)),
                format!(
                    "exact result is outside the range of its type, so an error is required, but evaluation returned {}; case {}",
                    me::show_actual(r),
                    case.render()
                ),
            )),
            _ => Ok(()),
        },
    }
}

fn many_call_cases() -> Vec<EvalCase> {
    [3_000usize, 17_000, 70_000]
        .iter()
        .flat_map(|&n| {
            [true, false].into_iter().map(move |cacheable| {
                let mut fns = BTreeMap::new();
                fns.insert("fa".to_string(), FnSpec { cacheable, fail_on: vec![me::arg_key(&Value::Int(n as i128 - 2))], fail_first: 0, uncacheable_after: 0 });
                let calls = |from: usize| (from..n).map(|k| Expr::func("fa", Expr::value(k as i128))).collect::<Vec<_>>();
                // (the failing argument sits last but one, in a conditional that is not taken the first time)
                let mut items = calls(0);
                let last = items.len() - 2;
                items[last] = Expr::iif(Expr::value(false), items[last].clone(), Expr::value(0));
                items.extend((0..n - 2).rev().step_by(7).map(|k| Expr::func("fa", Expr::value(k as i128))));
                EvalCase { expr: Expr::Vec(items), facts: Value::None, fns, symbols: BTreeMap::new() }
            })
        })
        .chain((0..6).map(|k| {
            // 80 functions registered, called in descending order of registration, a late one alone, or interleaved
            let names: Vec<String> = (0..80).map(|i| format!("fn{i:02}")).collect();
            let mut fns = BTreeMap::new();
            for (i, n) in names.iter().enumerate() {
                fns.insert(n.clone(), FnSpec { cacheable: k % 2 == 0 || i % 3 != 0, fail_on: vec![], fail_first: 0, uncacheable_after: 0 });
            }
            let call = |i: usize| Expr::func(names[i].clone(), Expr::value(i as i128));
            let items: Vec<Expr> = match k / 2 {
                0 => (0..80).rev().map(call).collect(),
                1 => vec![call(79), call(40), call(33), call(0)],
                _ => (0..40).flat_map(|i| [call(79 - i), call(i)]).collect(),
            };
            EvalCase { expr: Expr::Vec(items), facts: Value::None, fns, symbols: BTreeMap::new() }
        }))
        .collect()
}

fn check_many(case: &EvalCase) -> Verdict {
    let o = observe(case);
    let short = EvalCase { expr: Expr::value("(a long list of calls)".to_string()), ..case.clone() };
    judge(&short, &o.actual, &o.model)?;
    match (&o.actual, &o.model) {
        (Actual::Done(r), m) if compare(r, m).is_some() => Err(Issue::new(
            "eval:many-calls:differs",
            format!("an evaluation with {} calls of one function gives {} where the reference gives something else", o.model_log.len(), me::show_actual(r).chars().take(200).collect::<String>()),
        )),
        _ if o.log != o.model_log => Err(Issue::new(
            "eval:many-calls:invocations",
            format!("an evaluation with many calls of one function invoked it {} times, the reference {} times", o.log.len(), o.model_log.len()),
        )),
        _ => Ok(()),
    }
}

pub fn default_tables(sel: u8) -> (BTreeMap<String, FnSpec>, BTreeMap<String, Value>) {
    if sel % 4 == 0 {
        return (BTreeMap::new(), BTreeMap::new());
    }
    let mut fns = BTreeMap::new();
    fns.insert("fa".to_string(), FnSpec { cacheable: true, fail_on: vec![], fail_first: 0, uncacheable_after: 0 });
    fns.insert("fb".to_string(), FnSpec { cacheable: false, fail_on: vec!["i1".into(), "none".into()], fail_first: 0, uncacheable_after: 0 });
    let mut symbols = BTreeMap::new();
    symbols.insert("sa".to_string(), Value::Int(i128::MAX));
    symbols.insert("sb".to_string(), pool::du(i64::MAX / 1000, 0));
    (fns, symbols)
}

pub fn random_case(bytes: &[u8], depth: u32) -> EvalCase {
    let (expr, facts) = gen::gen_case(bytes, depth, &gen::ExprCfg::default());
    let (fns, symbols) = default_tables(bytes.last().copied().unwrap_or(0));
    EvalCase { expr, facts, fns, symbols }
}

fn nontrivial(case: &EvalCase, model: &me::MRes) -> bool {
    matches!(model, Err(MErr::AnyError)) || has_extreme_literal(&case.expr) || facts_extreme(&case.facts)
}

static VIA_TEXT: std::sync::atomic::AtomicU64 = std::sync::atomic::AtomicU64::new(0);

// ---- evaluating while the thread is exiting ---------------------------------------------------------------------

struct ExitEvaluator {
    tx: std::cell::RefCell<Option<std::sync::mpsc::Sender<String>>>,
}

fn exit_ruleset() -> crate::probe::Built {
    let mut fns = std::collections::BTreeMap::new();
    fns.insert("fa".to_string(), me::FnSpec { cacheable: true, fail_on: vec![], fail_first: 0, uncacheable_after: 0 });
    fns.insert("fb".to_string(), me::FnSpec { cacheable: false, fail_on: vec![], fail_first: 0, uncacheable_after: 0 });
    let call = |f: &str, k: i128| Expr::func(f, Expr::value(k));
    let spec = crate::probe::SetSpec {
        rules: vec![
            ("calls".into(), Expr::Vec(vec![call("fa", 1), call("fa", 1), call("fb", 2)])),
            ("dates".into(), Expr::year(Expr::datetime(Expr::value("2015-07-30T03:26:13Z".to_string())))),
            ("sum".into(), Expr::add(Expr::reff("vi"), Expr::symbol("sa"))),
            ("fails".into(), Expr::div(Expr::value(1), Expr::value(0))),
        ],
        fns,
        symbols: [("sa".to_string(), Value::Int(7))].into_iter().collect(),
        suspend: 0,
    };
    crate::probe::build(&spec, false)
}

fn exit_evaluations() -> Result<(), String> {
    let facts = pool::map(&[("vi", Value::Int(5))]);
    let built = exit_ruleset();
    let out = block_on(built.ruleset.evaluate_value(&facts)).map_err(|e| e.to_string())?;
    if out.len() != 4 || out[0].value.is_err() || out[3].value.is_ok() {
        return Err(format!("unexpected outcomes: {:?}", out.iter().map(|o| me::show_actual(&o.value)).collect::<Vec<_>>()));
    }
    let v = block_on(Expr::add(Expr::reff("vi"), Expr::value(1)).evaluate(&facts)).map_err(|e| e.to_string())?;
    if !same_value(&v, &Value::Int(6), true) {
        return Err(format!("vi + 1 gives {}", show_value(&v)));
    }
    #[derive(serde::Serialize)]
    struct F {
        vi: i64,
    }
    block_on(built.ruleset.evaluate(&F { vi: 5 })).map_err(|e| e.to_string())?;
    Ok(())
}

impl Drop for ExitEvaluator {
    fn drop(&mut self) {
        if let Some(tx) = self.tx.borrow_mut().take() {
            match std::panic::catch_unwind(exit_evaluations) {
                Ok(Ok(())) => {}
                Ok(Err(e)) => {
                    let _ = tx.send(format!("wrong result: {e}"));
                }
                Err(_) => {
                    let _ = tx.send("panic".to_string());
                }
            }
        }
    }
}

thread_local! {
    static EXIT_EVALUATOR: ExitEvaluator = const { ExitEvaluator { tx: std::cell::RefCell::new(None) } };
}

/// Evaluations issued from a thread-local destructor while the thread exits (the last evaluations of a thread's life);
/// `evaluated_before`: the thread evaluated earlier; `guard_first`: the destructor was registered before that.
fn check_evaluate_at_thread_exit(evaluated_before: bool, guard_first: bool) -> Verdict {
    let (tx, rx) = std::sync::mpsc::channel();
    QUIET_ALL.fetch_add(1, std::sync::atomic::Ordering::SeqCst);
    let joined = std::thread::spawn(move || {
        if guard_first {
            EXIT_EVALUATOR.with(|e| *e.tx.borrow_mut() = Some(tx.clone()));
        }
        if evaluated_before {
            let _ = exit_evaluations();
        }
        if !guard_first {
            EXIT_EVALUATOR.with(|e| *e.tx.borrow_mut() = Some(tx.clone()));
        }
    })
    .join();
    QUIET_ALL.fetch_sub(1, std::sync::atomic::Ordering::SeqCst);
    let problems: Vec<String> = rx.try_iter().collect();
    if joined.is_err() {
        return Err(Issue::new("never:panic:at-thread-exit", "the exiting thread panicked outside the boundary"));
    }
    match problems.first() {
        None => Ok(()),
        Some(p) => Err(Issue::new(
            "never:panic:at-thread-exit",
            format!("evaluating a ruleset (cacheable and non-cacheable calls, casts, symbols, a failing rule) and an expression from a thread-local destructor while the thread exits: {p} (thread evaluated before: {evaluated_before}, destructor registered first: {guard_first})"),
        )),
    }
}

pub fn run(ctx: &Ctx) {
    ctx.set_rule(
        "Generated: (0) chains of 18 operands of every binary kind, towers of 18 of every unary kind, conditionals nested in conditions, over logged calls (each operand must run once: evaluation work stays linear in the size of the expression); (1) every node kind x every operand tuple from the boundary pool (exhaustive depth-1 cells, \
         incl. if/index/call/reference cells); (2) every outer kind over every inner depth-1 cell over the extremes pool in each \
         operand position (depth-2; exhaustive in thorough, strided sample in quick); (3) recipe-decoded random trees over all 47 \
         node kinds to depth 6 with typed/untyped children, on map / non-map / None inputs, half of them evaluated inside a ruleset \
         with probes and symbols; every plain case also re-evaluated as a rule of a ruleset. Oracle: no panic, no Pending, and an \
         error wherever the reference evaluator says the exact result is out of range. Non-trivial: the case contains an extreme \
         literal/input of its type (|int|>=2^62, non-finite/huge/-0.0/subnormal float, decimal with >=95-bit mantissa or scale 28, \
         first/last day of DateTime, max Duration, empty or nested collection, None) or its exact result is out of range. \
         Distinct = distinct canonical renderings (cells are distinct by construction).",
    );
    ctx.assume("overflow-checks=on release profile: an unchecked overflow panics (caught) instead of wrapping; both forms are violations");
    ctx.assume("reference evaluator (harness/src/model/eval.rs) decides which exact results are out of range");

    super::regressions::run(ctx, "C01", replay);

    // (00) the very last evaluations of a thread's life
    ctx.enumerate(
        "evaluate-at-thread-exit",
        4 * 4,
        true,
        |i, acc| {
            acc.cell("thread-exit", true);
            check_evaluate_at_thread_exit(i & 1 == 1, i & 2 == 2)
        },
        |i| serde_json::json!({"thread_exit": [i & 1 == 1, i & 2 == 2]}),
        "thread-exit",
    );

    // (0) completion: chains of 18 operands of every binary kind (nested to the left and to the right), towers of every
    // unary kind, conditionals in conditions: the innermost operand is a logged call, and it runs once (work linear in the
    // size of the expression is what "completes" means for expressions of a few hundred nodes)
    let chains = super::c05::deep_chain_cases(18);
    ctx.enumerate(
        "deep-chains-complete",
        chains.len() as u64,
        true,
        |i, acc| {
            let case = &chains[i as usize];
            acc.cell(&format!("chain:{}", root_sig(&case.expr)), true);
            if i % 23 == 0 {
                acc.sample("chain", || case.render());
            }
            super::c05::check(case).map_err(|i| Issue::new(i.sig.replace("lazy:", "never:completes-with-linear-work:"), i.msg))
        },
        |i| {
            let mut j = chains[i as usize].to_json();
            j["chain"] = serde_json::json!(true);
            j
        },
        "chain",
    );

    // (0b) one evaluation with very many calls: distinct arguments (however many results an evaluation has to keep),
    // then every one of them once more
    let many = many_call_cases();
    ctx.enumerate(
        "many-calls-in-one-evaluation",
        many.len() as u64,
        true,
        |i, acc| {
            let case = &many[i as usize];
            acc.cell("many-calls", true);
            acc.sample("many-calls", || format!("a list of {} calls of one function", match &case.expr { Expr::Vec(v) => v.len(), _ => 0 }));
            check_many(case)
        },
        |i| serde_json::json!({"many_calls": i}),
        "many-calls",
    );

    // (1) depth-1 exhaustive over the boundary pool
    let cells = Cells::new(pool::boundary());
    ctx.extra("pool_size", serde_json::json!(cells.pool.len()));
    let overflow_cells = std::sync::atomic::AtomicU64::new(0);
    ctx.enumerate(
        "depth1-boundary",
        cells.count(),
        true,
        |i, acc| {
            let case = cells.cell(i);
            let o = observe(&case);
            let nt = nontrivial(&case, &o.model);
            if matches!(o.model, Err(MErr::AnyError)) {
                overflow_cells.fetch_add(1, std::sync::atomic::Ordering::Relaxed);
                acc.sample("overflow-cell", || case.render());
            }
            acc.cell(&format!("d1:{}", root_sig(&case.expr)), nt);
            if nt && i % 997 == 0 {
                acc.sample(&format!("d1:{}", root_sig(&case.expr)), || case.render());
            }
            judge(&case, &o.actual, &o.model)?;
            let a2 = observe_via_ruleset(&case);
            judge(&case, &a2, &o.model).map_err(|i| Issue::new(format!("{}:via-ruleset", i.sig), i.msg))
        },
        |i| cells.cell(i).to_json(),
        "evalcase",
    );
    ctx.extra("depth1_overflow_cells", serde_json::json!(overflow_cells.load(std::sync::atomic::Ordering::Relaxed)));

    // (2) depth-2 over the extremes pool
    let c2 = Cells2::new(pool::extremes());
    let stride = ctx.tier.pick(2u64, 1u64);
    let n2 = c2.count() / stride;
    let overflow2 = std::sync::atomic::AtomicU64::new(0);
    ctx.enumerate(
        "depth2-extremes",
        n2,
        stride == 1,
        |i, acc| {
            let case = c2.cell(i * stride + (ctx.seed % stride));
            let o = observe(&case);
            let nt = nontrivial(&case, &o.model);
            if matches!(o.model, Err(MErr::AnyError)) {
                overflow2.fetch_add(1, std::sync::atomic::Ordering::Relaxed);
            }
            acc.cell(&format!("d2:{}", root_sig(&case.expr)), nt);
            if i % 100_003 == 0 {
                acc.sample(&format!("d2:{}", root_sig(&case.expr)), || case.render());
            }
            judge(&case, &o.actual, &o.model)
        },
        |i| c2.cell(i * stride + (ctx.seed % stride)).to_json(),
        "evalcase",
    );
    ctx.extra("depth2_overflow_cells", serde_json::json!(overflow2.load(std::sync::atomic::Ordering::Relaxed)));

    // (3) random trees
    let n = ctx.tier.pick(400_000u64, 3_000_000u64);
    ctx.random_min(
        "random-trees",
        n,
        || gen::recipe(400),
        |bytes, acc| {
            let case = random_case(bytes, 6);
            let o = observe(&case);
            if let Some(acc) = acc {
                let nt = nontrivial(&case, &o.model);
                let class = match &o.model {
                    Ok(_) => "rnd:model-ok",
                    Err(MErr::AnyError) => "rnd:model-overflow",
                    Err(_) => "rnd:model-err",
                };
                acc.case(class, nt, || case.render());
            }
            judge(&case, &o.actual, &o.model)?;
            if case.fns.is_empty() && case.symbols.is_empty() {
                let a2 = observe_via_ruleset(&case);
                judge(&case, &a2, &o.model).map_err(|i| Issue::new(format!("{}:via-ruleset", i.sig), i.msg))?;
            }
            // a sample also through text (parse of the harness's rendering), when in the parser's image
            if bytes.first().copied().unwrap_or(1) % 8 == 0 {
                if let Some(parsed) = through_text(&case.expr, bytes) {
                    VIA_TEXT.fetch_add(1, std::sync::atomic::Ordering::Relaxed);
                    let c2 = EvalCase { expr: parsed, ..case.clone() };
                    let o2 = observe(&c2);
                    judge(&c2, &o2.actual, &o2.model).map_err(|i| Issue::new(format!("{}:via-text", i.sig), i.msg))?;
                }
            }
            Ok(())
        },
        |bytes| random_case(bytes, 6).to_json(),
        "evalcase",
        Some(&|bytes: &Vec<u8>, issue, is_known| {
            let case = random_case(bytes, 6);
            let (c, i) = minimize(&case, issue, &|c| check(c).err().filter(|i| !is_known(i)));
            (c.to_json(), i)
        }),
    );
    ctx.extra("random_cases_also_evaluated_through_text", serde_json::json!(VIA_TEXT.load(std::sync::atomic::Ordering::Relaxed)));
}

pub fn replay(j: &serde_json::Value) -> Option<Verdict> {
    if let Some(b) = j.get("fuzz_bytes").and_then(|b| b.as_array()) {
        let bytes: Vec<u8> = b.iter().filter_map(|x| x.as_u64().map(|x| x as u8)).collect();
        return Some(check(&random_case(&bytes, 7)));
    }
    if let Some(i) = j.get("many_calls").and_then(|i| i.as_u64()) {
        return many_call_cases().get(i as usize).map(check_many);
    }
    if let Some(a) = j.get("thread_exit").and_then(|a| a.as_array()) {
        return Some(check_evaluate_at_thread_exit(a.first()?.as_bool()?, a.get(1)?.as_bool()?));
    }
    if j.get("chain").is_some() {
        return EvalCase::from_json(j)
            .map(|c| super::c05::check(&c).map_err(|i| Issue::new(i.sig.replace("lazy:", "never:completes-with-linear-work:"), i.msg)));
    }
    EvalCase::from_json(j).map(|c| check(&c))
}
