//! C02 — every operator and built-in yields the result its operator table defines.

use super::evalcommon::*;
use crate::core::*;
use crate::data::type_name;
use crate::gen;
use crate::model::eval::{self as me, compare, MErr};
use crate::pool;
use reval::prelude::*;
use std::collections::BTreeSet;
use std::sync::Mutex;

pub fn judge(case: &EvalCase, actual: &Actual, model: &me::MRes) -> Verdict {
    match actual {
        Actual::Panic(p) => Err(Issue::new(
            format!("table:panic:{}", root_sig(&case.expr)),
            format!("evaluation panicked: {p}; case {}", case.render()),
        )),
        Actual::Pending => Err(Issue::new("table:pending", format!("evaluation did not complete; case {}", case.render()))),
        Actual::Done(r) => match compare(r, model) {
            None => Ok(()),
            Some(d) => Err(Issue::new(
                format!("table:{d:?}:{}({})", root_sig(&case.expr), operand_types(&case.expr)),
                format!(
                    "operator table disagreement ({d:?}): implementation {} but reference evaluator {}; case {}",
                    me::show_actual(r),
                    me::show_model(model),
                    case.render()
                ),
            )),
        },
    }
}

pub fn check(case: &EvalCase) -> Verdict {
    let o = observe(case);
    judge(case, &o.actual, &o.model)
}

fn nontrivial(model: &me::MRes) -> bool {
    !matches!(model, Err(MErr::InvalidType) | Err(MErr::Ambiguous))
}

/// Self-test of the reference evaluator against the expected values of the repository's own tests
/// (an oracle that disagrees with them is broken; exit 2 rather than an alarm).
fn self_test() -> Result<usize, String> {
    let dt = |s: &str| Value::DateTime(s.parse::<chrono::DateTime<chrono::Utc>>().unwrap());
    let du = |secs: i64| Value::Duration(chrono::TimeDelta::seconds(secs));
    let cases: Vec<(&str, Value)> = vec![
        ("0b010111 & 0b011101", Value::Int(0b010101)),
        ("true & false", Value::Bool(false)),
        ("0b010111 | 0b011101", Value::Int(0b011111)),
        ("true | false", Value::Bool(true)),
        ("0b010111 ^ 0b011101", Value::Int(0b001010)),
        ("true ^ false", Value::Bool(true)),
        ("i3 + i4 * i5", Value::Int(23)),
        ("i7 % i4", Value::Int(3)),
        ("i-7 / i2", Value::Int(-3)),
        ("i-7 % i2", Value::Int(-1)),
        ("uppercase(\"test String\")", Value::String("TEST STRING".into())),
        ("lowercase(\"test String\")", Value::String("test string".into())),
        ("trim(\"  test \")", Value::String("test".into())),
        ("round(f5.4)", Value::Float(5.0)),
        ("round(f5.5)", Value::Float(6.0)),
        ("floor(f5.9)", Value::Float(5.0)),
        ("round(d5.4)", pool::dec(5, 0)),
        ("round(d5.6)", pool::dec(6, 0)),
        ("datetime(\"2015-07-30T03:26:13Z\")", dt("2015-07-30T03:26:13Z")),
        ("datetime(i1438226773)", dt("2015-07-30T03:26:13Z")),
        ("duration(i3600)", du(3600)),
        ("week(i2)", du(14 * 86400)),
        ("day(i2)", du(2 * 86400)),
        ("hour(i2)", du(7200)),
        ("minute(i2)", du(120)),
        ("second(i2)", du(2)),
        ("year(datetime(\"2015-07-30T03:26:13Z\"))", Value::Int(2015)),
        ("month(datetime(\"2015-07-30T03:26:13Z\"))", Value::Int(7)),
        ("day(datetime(\"2015-07-30T03:26:13Z\"))", Value::Int(30)),
        ("hour(datetime(\"2015-07-30T03:26:13Z\"))", Value::Int(3)),
        ("minute(datetime(\"2015-07-30T03:26:13Z\"))", Value::Int(26)),
        ("second(datetime(\"2015-07-30T03:26:13Z\"))", Value::Int(13)),
        ("week(day(i15))", Value::Int(2)),
        ("day(hour(i49))", Value::Int(2)),
        ("hour(minute(i121))", Value::Int(2)),
        ("minute(second(i121))", Value::Int(2)),
        ("second(minute(i2))", Value::Int(120)),
        ("[i1, i2, i3] contains i2", Value::Bool(true)),
        ("i2 in [i1, i2, i3]", Value::Bool(true)),
        ("\"abc\" contains \"bc\"", Value::Bool(true)),
        ("0b0110 contains 0b0100", Value::Bool(true)),
        ("0b0110 contains 0b1001", Value::Bool(false)),
        ("if i1 == i1 then if false then i1 else i2 else i3", Value::Int(2)),
        ("none == none", Value::Bool(false)),
        ("none != none", Value::Bool(true)),
        ("int(\"12\") + int(f3.9) + int(d-2.5)", Value::Int(13)),
        ("float(i3) / f2", Value::Float(1.5)),
        ("dec(\"1.50\") * d2", pool::dec(300, 2)),
        ("i1 / i0 == i1 or true", Value::None), // placeholder replaced below
    ];
    let mut n = 0;
    for (text, expected) in cases.iter().take(cases.len() - 1) {
        let e = match crate::core::parse_guarded(text) {
            Some(Ok(e)) => e,
            // a parser that rejects or panics on these plain texts is broken in a way the parser checks report
            _ => continue,
        };
        let m = me::eval_plain(&e, &Value::None);
        match &m {
            Ok(v) if crate::data::same_value(v, expected, false) => n += 1,
            other => return Err(format!("reference evaluator self-test failed on {text:?}: got {}", me::show_model(other))),
        }
    }
    let e = Expr::div(Expr::value(1), Expr::value(0));
    if me::eval_plain(&e, &Value::None) != Err(MErr::DivisionByZero) {
        return Err("reference evaluator self-test failed on i1 / i0".into());
    }
    Ok(n + 1)
}

static VIA_TEXT: std::sync::atomic::AtomicU64 = std::sync::atomic::AtomicU64::new(0);

fn check_literal_constructor(i: u64) -> Verdict {
    let lits = pool::boundary();
            let (v, forms): (Value, Vec<Expr>) = if i as usize == lits.len() {
                (Value::None, vec![Expr::none_value(), Expr::value(Value::None), Expr::from(Value::None)])
            } else {
                let v = lits[i as usize].clone();
                let mut forms = vec![Expr::value(v.clone()), Expr::from(v.clone()), Expr::iif(Value::Bool(true), Expr::from(v.clone()), Expr::none_value())];
                match &v {
                    Value::Int(x) => {
                        forms.push(Expr::value(*x));
                        if let Ok(y) = i64::try_from(*x) {
                            forms.push(Expr::value(y));
                        }
                    }
                    Value::String(x) => {
                        forms.push(Expr::value(x.as_str()));
                        forms.push(Expr::value(x.clone()));
                    }
                    Value::Float(x) => forms.push(Expr::value(*x)),
                    Value::Bool(x) => {
                        forms.push(Expr::value(*x));
                        forms.push(Expr::iif(v.clone(), Expr::value(true), Expr::value(false)));
                    }
                    Value::Decimal(x) => forms.push(Expr::value(*x)),
                    Value::DateTime(x) => forms.push(Expr::value(*x)),
                    Value::Duration(x) => forms.push(Expr::value(*x)),
                    _ => {}
                }
                (v, forms)
            };
            for e in forms {
                let case = EvalCase::plain(e, Value::None);
                let o = observe(&case);
                let want: me::MRes = Ok(v.clone());
                judge(&case, &o.actual, &want).map_err(|i| Issue::new(format!("{}:literal-constructor", i.sig), i.msg))?;
            }
            Ok(())
}

pub fn run(ctx: &Ctx) {
    ctx.set_rule(
        "Generated: every node kind x every ordered operand tuple of the boundary pool and of a mid-range 'plain' pool (exhaustive \
         depth-1), every outer kind over every inner depth-1 cell of a reduced pool (2 values per type) in each operand position \
         (exhaustive depth-2), and recipe-decoded random typed trees to depth 8 over typed map inputs. Oracle: the result equals the \
         reference evaluator's (same value: floats bit-exact with NaN=NaN, decimals by numeric value; or same error class and name \
         payload; an out-of-range result may be any error). Non-trivial: the reference result is a value or a non-type-mismatch error. \
         Distinct = distinct canonical renderings; enumerated cells are distinct by construction.",
    );
    ctx.assume("reference evaluator (harness/src/model/eval.rs, written from the property statements) is the operator table");
    ctx.assume("primitive arithmetic of std, rust_decimal and chrono is trusted (the property speaks of the type's own arithmetic)");

    match self_test() {
        Ok(n) => ctx.extra("oracle_self_test_cases", serde_json::json!(n)),
        Err(e) => {
            eprintln!("oracle self-test failed: {e}");
            std::process::exit(2);
        }
    }

    super::regressions::run(ctx, "C02", replay);

    let covered: Mutex<BTreeSet<String>> = Mutex::new(BTreeSet::new());
    let covered_ok: Mutex<BTreeSet<String>> = Mutex::new(BTreeSet::new());
    let note = |case: &EvalCase, model: &me::MRes, local: &mut (BTreeSet<String>, BTreeSet<String>)| {
        let key = format!("{}({})", root_sig(&case.expr), operand_types(&case.expr));
        if model.is_ok() {
            local.1.insert(key.clone());
        }
        local.0.insert(key);
    };

    for (name, p) in [("depth1-boundary", pool::boundary()), ("depth1-plain", pool::plain())] {
        let cells = Cells::new(p);
        ctx.enumerate(
            name,
            cells.count(),
            true,
            |i, acc| {
                let case = cells.cell(i);
                let o = observe(&case);
                let nt = nontrivial(&o.model);
                acc.cell(&format!("d1:{}", root_sig(&case.expr)), nt);
                if nt && i % 499 == 0 {
                    acc.sample(&format!("d1:{}", root_sig(&case.expr)), || {
                        format!("{} => {}", case.render(), me::show_model(&o.model))
                    });
                }
                if i % 3 == 0 || o.model.is_ok() {
                    let mut l = (BTreeSet::new(), BTreeSet::new());
                    note(&case, &o.model, &mut l);
                    let mut c = covered.lock().unwrap();
                    c.extend(l.0);
                    drop(c);
                    if !l.1.is_empty() {
                        covered_ok.lock().unwrap().extend(l.1);
                    }
                }
                judge(&case, &o.actual, &o.model)
            },
            |i| cells.cell(i).to_json(),
            "evalcase",
        );
    }
    ctx.extra("operand_type_cells_covered", serde_json::json!(covered.lock().unwrap().len()));
    ctx.extra("operand_type_cells_with_value_result", serde_json::json!(covered_ok.lock().unwrap().len()));

    // both operands the very same expression (structurally identical subtrees), for values that are not equal to
    // themselves (NaN and collections holding it), values that are, lookups, casts and conditionals
    let twins: Vec<EvalCase> = {
        let f0 = || Expr::Value(Value::Float(0.0));
        let nan_exprs: Vec<Expr> = vec![
            Expr::div(f0(), f0()),
            Expr::float(Expr::value("NaN")),
            Expr::reff("vnan"),
            Expr::index(Expr::reff("vl"), reval::expr::Index::Vec(0)),
            Expr::Vec(vec![Expr::div(f0(), f0())]),
            Expr::Map([("a".to_string(), Expr::div(f0(), f0()))].into_iter().collect()),
            Expr::iif(Expr::value(true), Expr::div(f0(), f0()), f0()),
            Expr::neg(Expr::div(f0(), f0())),
            Expr::sub(Expr::div(Expr::Value(Value::Float(1.0)), f0()), Expr::div(Expr::Value(Value::Float(1.0)), f0())),
            Expr::reff("vi"),
            Expr::add(Expr::reff("vi"), Expr::value(1)),
            Expr::reff("vnone"),
            Expr::index(Expr::reff("vl"), reval::expr::Index::Vec(9)),
            Expr::Value(Value::Float(-0.0)),
            Expr::value("s"),
            Expr::Vec(vec![]),
            Expr::div(Expr::value(1), Expr::value(0)),
            // the same conversion on both sides
            Expr::uppercase(Expr::reff("vnone")),
            Expr::lowercase(Expr::value("MiXed".to_string())),
            Expr::int(Expr::reff("vnone")),
            Expr::float(Expr::reff("vi")),
            Expr::trim(Expr::value(" x ".to_string())),
        ];
        let facts = pool::map(&[
            ("vnan", Value::Float(f64::NAN)),
            ("vl", Value::Vec(vec![Value::Float(f64::NAN)])),
            ("vi", Value::Int(3)),
            ("vnone", Value::None),
        ]);
        let mut out = vec![];
        // membership in a list literal: every candidate is evaluated, also those behind the one that matches
        for tail in [Expr::div(Expr::value(1), Expr::value(0)), Expr::reff("nosuchfield"), Expr::add(Expr::value(1), Expr::Value(Value::Float(1.0))), Expr::symbol("nosuchsymbol")] {
            for item in [Expr::reff("vi"), Expr::value(3), Expr::index(Expr::reff("vl"), reval::expr::Index::Vec(9))] {
                out.push(EvalCase::plain(Expr::contains(Expr::Vec(vec![Expr::reff("vi"), tail.clone()]), item.clone()), facts.clone()));
                out.push(EvalCase::plain(Expr::contains(Expr::Vec(vec![Expr::value(3), Expr::value(4), tail.clone(), Expr::value(3)]), item.clone()), facts.clone()));
                out.push(EvalCase::plain(Expr::contains(Expr::Vec(vec![tail.clone(), Expr::reff("vi")]), item), facts.clone()));
            }
        }
        for k in crate::data::BINARY_KINDS {
            for e in &nan_exprs {
                out.push(EvalCase::plain(crate::data::mk2(k, e.clone(), e.clone()), facts.clone()));
                out.push(EvalCase::plain(Expr::not(crate::data::mk2(k, e.clone(), e.clone())), facts.clone()));
                out.push(EvalCase::plain(Expr::iif(crate::data::mk2(k, e.clone(), e.clone()), Expr::value(1), Expr::value(2)), facts.clone()));
            }
        }
        out
    };
    ctx.enumerate(
        "identical-operands",
        twins.len() as u64,
        true,
        |i, acc| {
            let case = &twins[i as usize];
            let o = observe(case);
            acc.cell("twins", nontrivial(&o.model));
            if i % 29 == 0 {
                acc.sample("twins", || format!("{} => {}", case.render(), me::show_model(&o.model)));
            }
            judge(case, &o.actual, &o.model)?;
            // and as a rule of a ruleset
            let via = observe_via_ruleset(case);
            judge(case, &via, &o.model).map_err(|i| Issue::new(format!("{}:via-ruleset", i.sig), i.msg))
        },
        |i| twins[i as usize].to_json(),
        "evalcase",
    );

    // every way the public API offers to write a literal: Expr::value(impl Into<Value>), Expr::from(Value), Expr::none_value(),
    // a Value as the condition of Expr::iif -- each must evaluate to exactly that value
    let lits = pool::boundary();
    ctx.enumerate(
        "literal-constructors",
        lits.len() as u64 + 1,
        true,
        |i, acc| {
            acc.cell("literal-constructor", true);
            check_literal_constructor(i)
        },
        |i| serde_json::json!({"literal_constructor": i}),
        "literal",
    );

    // the index step and the membership test applied to operands that are themselves paths into an input field, `facts`
    // or a symbol (the table's rows for index / contains do not depend on where the operand comes from)
    let rooted = super::c10::rooted_path_cases();
    ctx.enumerate(
        "index-and-membership-on-paths",
        rooted.len() as u64,
        true,
        |i, acc| {
            let case = &rooted[i as usize];
            acc.cell(&format!("rooted:{}", root_sig(&case.expr)), true);
            if i % 499 == 0 {
                acc.sample("rooted", || case.render().chars().take(240).collect());
            }
            check(case)
        },
        |i| rooted[i as usize].to_json(),
        "evalcase",
    );

    // random trees whose atoms all speak about one subject (see c04::subject_case): the shapes an implementation may
    // special-case, against the reference evaluator
    let nsub = ctx.tier.pick(200_000u64, 3_000_000u64);
    ctx.random(
        "trees-about-one-subject",
        nsub,
        || gen::recipe(120),
        |bytes, acc| {
            let case = super::c04::subject_case(bytes);
            if let Some(acc) = acc {
                acc.case(&format!("subject:{}", root_sig(&case.expr)), true, || case.render());
            }
            check(&case)
        },
        |bytes| super::c04::subject_case(bytes).to_json(),
        "evalcase",
    );

    let c2 = Cells2::new(pool::reduced());
    ctx.enumerate(
        "depth2-reduced",
        c2.count(),
        true,
        |i, acc| {
            let case = c2.cell(i);
            let o = observe(&case);
            let nt = nontrivial(&o.model);
            acc.cell(&format!("d2:{}", root_sig(&case.expr)), nt);
            if nt && i % 50_021 == 0 {
                acc.sample(&format!("d2:{}", root_sig(&case.expr)), || {
                    format!("{} => {}", case.render(), me::show_model(&o.model))
                });
            }
            judge(&case, &o.actual, &o.model)
        },
        |i| c2.cell(i).to_json(),
        "evalcase",
    );

    if ctx.tier == Tier::Thorough {
        let c3 = Cells2::new(pool::plain());
        ctx.enumerate(
            "depth2-plain",
            c3.count(),
            true,
            |i, acc| {
                let case = c3.cell(i);
                let o = observe(&case);
                acc.cell(&format!("d2p:{}", root_sig(&case.expr)), nontrivial(&o.model));
                judge(&case, &o.actual, &o.model)
            },
            |i| c3.cell(i).to_json(),
            "evalcase",
        );
    }

    let n = ctx.tier.pick(300_000u64, 6_000_000u64);
    let cfg = gen::ExprCfg { typed_weight: 7, ..gen::ExprCfg::default() };
    let mk = |bytes: &Vec<u8>| {
        let (expr, facts) = gen::gen_case(bytes, 8, &cfg);
        let (fns, symbols) = super::c01::default_tables(bytes.last().copied().unwrap_or(0));
        EvalCase { expr, facts, fns, symbols }
    };
    ctx.random_min(
        "random-typed-trees",
        n,
        || gen::recipe(500),
        |bytes, acc| {
            let case = mk(bytes);
            let o = observe(&case);
            if let Some(acc) = acc {
                let class = match &o.model {
                    Ok(v) => format!("rnd:ok:{}", type_name(v)),
                    Err(MErr::InvalidType) => "rnd:err:InvalidType".to_string(),
                    Err(MErr::AnyError) => "rnd:err:out-of-range".to_string(),
                    Err(_) => "rnd:err:other".to_string(),
                };
                acc.case(&class, nontrivial(&o.model) && crate::data::expr_depth(&case.expr) >= 2, || {
                    format!("{} => {}", case.render(), me::show_model(&o.model))
                });
            }
            judge(&case, &o.actual, &o.model)?;
            if bytes.first().copied().unwrap_or(1) % 16 == 0 {
                if let Some(parsed) = through_text(&case.expr, bytes) {
                    VIA_TEXT.fetch_add(1, std::sync::atomic::Ordering::Relaxed);
                    let c2 = EvalCase { expr: parsed, ..case.clone() };
                    let o2 = observe(&c2);
                    judge(&c2, &o2.actual, &o2.model).map_err(|i| Issue::new(format!("{}:via-text", i.sig), i.msg))?;
                }
            }
            Ok(())
        },
        |bytes| mk(bytes).to_json(),
        "evalcase",
        Some(&|bytes: &Vec<u8>, issue, is_known| {
            let case = mk(bytes);
            let (c, i) = minimize(&case, issue, &|c| check(c).err().filter(|i| !is_known(i)));
            (c.to_json(), i)
        }),
    );
    ctx.extra("random_cases_also_evaluated_through_text", serde_json::json!(VIA_TEXT.load(std::sync::atomic::Ordering::Relaxed)));
}

pub fn replay(j: &serde_json::Value) -> Option<Verdict> {
    if let Some(i) = j.get("literal_constructor").and_then(|x| x.as_u64()) {
        return (i <= pool::boundary().len() as u64).then(|| check_literal_constructor(i));
    }
    if let Some(b) = j.get("fuzz_bytes").and_then(|b| b.as_array()) {
        let bytes: Vec<u8> = b.iter().filter_map(|x| x.as_u64().map(|x| x as u8)).collect();
        return Some(check(&super::c01::random_case(&bytes, 7)));
    }
    EvalCase::from_json(j).map(|c| check(&c))
}
