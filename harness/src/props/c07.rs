//! C07 — text is structured by one fixed precedence and associativity table.
//! A: token sequences (exhaustive to a bound, then viable-prefix-pruned exhaustive) — accept/reject
//!    and tree equality against the reference parser. B: trees rendered with minimal / full / random
//!    parenthesisation must parse back to themselves.

use crate::core::*;
use crate::data::*;
use crate::gen::{self, Dec};
use crate::model::lex::Tok;
use crate::model::parse::{parse_tokens, syntax_outcome, PErr};
use crate::model::print::{self, Mode};
use rayon::prelude::*;
use reval::prelude::*;
use serde_json::json;

/// One representative per token class the grammar distinguishes.
pub fn alphabet() -> Vec<Tok> {
    let fixes = [
        "if", "then", "else", "and", "==", "+", "-", "*", "&", "contains", "in", "!", ".", "(", ")", "[", "]", "{", "}",
        ",", ":",
    ];
    let mut v: Vec<Tok> = fixes.iter().map(|f| Tok::Fix(f)).collect();
    v.push(Tok::Ident("a".into()));
    v.push(Tok::Int("i1".into()));
    v.push(Tok::Index("0".into()));
    v.push(Tok::Fix("int"));
    v.push(Tok::Fix("none"));
    v
}

/// Other members of each token class (class expansion).
fn class_members(t: &Tok) -> Vec<Tok> {
    let f = |xs: &[&'static str]| xs.iter().map(|x| Tok::Fix(x)).collect::<Vec<_>>();
    match t {
        Tok::Fix("==") => f(&["=", "!=", ">", ">=", "<", "<="]),
        Tok::Fix("*") => f(&["/", "%"]),
        Tok::Fix("&") => f(&["|", "^"]),
        Tok::Fix("and") => f(&["or"]),
        Tok::Fix("int") => f(&[
            "float", "dec", "date_time", "datetime", "duration", "is_some", "is_none", "some", "to_upper", "to_lower",
            "uppercase", "lowercase", "trim", "round", "floor", "fract", "year", "month", "week", "day", "hour", "minute",
            "second",
        ]),
        Tok::Int(_) => vec![
            Tok::Str("\"s\"".into()),
            Tok::Float("f1.5".into()),
            Tok::Decimal("d2.50".into()),
            Tok::Hex("0x1F".into()),
            Tok::Oct("0o17".into()),
            Tok::Bin("0b101".into()),
            Tok::Fix("true"),
            Tok::Fix("false"),
            Tok::Int("i-3".into()),
        ],
        // (the last four are reserved as function names but are ordinary identifiers to the grammar)
        Tok::Ident(_) => vec![
            Tok::Ident("facts".into()),
            Tok::Ident("inty".into()),
            Tok::Ident("i5x".into()),
            Tok::Ident("key".into()),
            Tok::Ident("val".into()),
            Tok::Ident("starts".into()),
            Tok::Ident("ends".into()),
        ],
        Tok::Index(_) => vec![Tok::Index("17".into())],
        _ => vec![],
    }
}

pub fn text_of(toks: &[Tok]) -> String {
    print::plain_text(toks)
}

fn toks_to_json(toks: &[Tok]) -> serde_json::Value {
    json!({"tokens": toks.iter().map(|t| t.text().to_string()).collect::<Vec<_>>(), "text": text_of(toks)})
}

/// Compare implementation and reference on one token sequence (joined by single spaces).
pub fn check_tokens(toks: &[Tok]) -> Verdict {
    let text = text_of(toks);
    check_text_against(&text, parse_tokens(toks))
}

pub fn check_text_against(text: &str, reference: Result<Expr, PErr>) -> Verdict {
    let actual = match catch(|| Expr::parse(text)) {
        Ok(r) => r,
        Err(p) => {
            return Err(Issue::new("grammar:panic", format!("Expr::parse panicked ({p}) on {text:?}")));
        }
    };
    match (actual, reference) {
        (_, Err(PErr::Unspecified)) => Ok(()),
        (Ok(a), Ok(r)) => {
            if same_expr(&a, &r) {
                Ok(())
            } else {
                Err(Issue::new(
                    "grammar:different-tree",
                    format!(
                        "{text:?} parses to {} but the table derives {}",
                        show_expr(&a),
                        show_expr(&r)
                    ),
                ))
            }
        }
        (Err(_), Err(_)) => Ok(()),
        (Ok(a), Err(e)) => Err(Issue::new(
            "grammar:accepts-underivable",
            format!("{text:?} is accepted as {} but the grammar does not derive it ({e:?})", show_expr(&a)),
        )),
        (Err(e), Ok(r)) => Err(Issue::new(
            "grammar:rejects-derivable",
            format!("{text:?} is rejected ({e}) but the grammar derives {}", show_expr(&r)),
        )),
    }
}

fn seq_from_index(mut i: u64, alpha: &[Tok], max_len: u32) -> Vec<Tok> {
    // sequences ordered by length, then lexicographically
    let n = alpha.len() as u64;
    let mut len = 1;
    let mut block = n;
    while len < max_len && i >= block {
        i -= block;
        block *= n;
        len += 1;
    }
    let mut out = vec![Tok::Fix("("); len as usize];
    for k in (0..len as usize).rev() {
        out[k] = alpha[(i % n) as usize].clone();
        i /= n;
    }
    out
}

fn count_upto(n: u64, len: u32) -> u64 {
    (1..=len).map(|l| n.pow(l)).sum()
}

/// Is the tree one where associativity / relative precedence is observable?
fn has_adjacent_operators(e: &Expr) -> bool {
    let lv = print::level(e);
    let kids = children(e);
    (lv < 9 && kids.iter().any(|k| print::level(k) < 9)) || kids.iter().any(|k| has_adjacent_operators(k))
}

pub fn check_tree(e: &Expr, mode: Mode, bytes: &[u8]) -> Verdict {
    let mut d = Dec::new(bytes);
    let toks = match print::tokens(e, mode, Some(&mut d)) {
        Some(t) => t,
        None => return Ok(()),
    };
    let text = text_of(&toks);
    let actual = match catch(|| Expr::parse(&text)) {
        Ok(r) => r,
        Err(p) => return Err(Issue::new("render:panic", format!("Expr::parse panicked ({p}) on {text:?}"))),
    };
    match actual {
        Ok(a) if same_expr(&a, e) => Ok(()),
        Ok(a) => Err(Issue::new(
            format!("render:{mode:?}:different-tree"),
            format!("tree {} rendered ({mode:?}) as {text:?} parses to {}", show_expr(e), show_expr(&a)),
        )),
        Err(err) => Err(Issue::new(
            format!("render:{mode:?}:rejected"),
            format!("tree {} rendered ({mode:?}) as {text:?} is rejected: {err}", show_expr(e)),
        )),
    }
}

/// simple literal-leaf image trees for the exhaustive depth-2 family
fn kind_instances() -> Vec<Box<dyn Fn(Vec<Expr>) -> Expr + Sync + Send>> {
    let mut v: Vec<Box<dyn Fn(Vec<Expr>) -> Expr + Sync + Send>> = vec![];
    for k in UNARY_KINDS {
        v.push(Box::new(move |mut c: Vec<Expr>| mk1(k, c.remove(0))));
    }
    for k in BINARY_KINDS {
        v.push(Box::new(move |mut c: Vec<Expr>| {
            let a = c.remove(0);
            let b = c.remove(0);
            mk2(k, a, b)
        }));
    }
    v.push(Box::new(|mut c: Vec<Expr>| {
        let a = c.remove(0);
        let b = c.remove(0);
        let d = c.remove(0);
        Expr::iif(a, b, d)
    }));
    v.push(Box::new(|mut c: Vec<Expr>| Expr::func("fun", c.remove(0))));
    v.push(Box::new(|mut c: Vec<Expr>| Expr::index(c.remove(0), reval::expr::Index::Map("fld".into()))));
    v.push(Box::new(|mut c: Vec<Expr>| Expr::index(c.remove(0), reval::expr::Index::Vec(3))));
    v.push(Box::new(|c: Vec<Expr>| Expr::Vec(c.into_iter().take(2).collect())));
    v.push(Box::new(|mut c: Vec<Expr>| {
        let mut m = std::collections::BTreeMap::new();
        m.insert("k".to_string(), c.remove(0));
        m.insert("j".to_string(), c.remove(0));
        Expr::Map(m)
    }));
    v
}

fn leaves() -> Vec<Expr> {
    vec![
        Expr::reff("a"),
        Expr::value(1),
        Expr::symbol("s"),
        Expr::Value(Value::Int(-2)),
        Expr::Value(Value::Float(1.5)),
        Expr::Value(Value::None),
    ]
}

/// every node kind in every child position of every node kind
fn depth2_family() -> Vec<Expr> {
    let kinds = kind_instances();
    let lv = leaves();
    let fill = |skip: Option<(usize, &Expr)>| -> Vec<Expr> {
        (0..3)
            .map(|i| match skip {
                Some((p, e)) if p == i => e.clone(),
                _ => lv[i % lv.len()].clone(),
            })
            .collect()
    };
    let mut inner: Vec<Expr> = kinds.iter().map(|k| k(fill(None))).collect();
    inner.extend(lv.iter().cloned());
    let mut out = vec![];
    for outer in &kinds {
        for pos in 0..3 {
            for i in &inner {
                let e = outer(fill(Some((pos, i))));
                out.push(e);
            }
        }
    }
    // dedupe (kinds with fewer than 3 children ignore the extra positions)
    let mut seen = std::collections::HashSet::new();
    out.retain(|e| seen.insert(show_expr(e)));
    out
}

pub fn run(ctx: &Ctx) {
    ctx.set_rule(
        "A: token sequences over a 26-symbol alphabet (one representative per token class: if then else and == + - * & contains in ! \
         . ( ) [ ] { } , : IDENT INT-literal INDEX function-keyword none), exhaustive up to length 4 (quick) / 5 (thorough), then \
         exhaustive over all extensions of viable prefixes (as judged by the reference parser) up to length 7 / 8, then class expansion \
         (each accepted sequence with one token replaced by every other member of its class: other comparison / multiplicative / \
         bitwise operators, or, all function keywords and alias spellings, every literal kind). Oracle: accept/reject equals the \
         reference recursive-descent parser's and accepted trees are equal. B: every node kind in every child position of every node \
         kind (exhaustive depth 2) and random parser-image trees to depth 6, each rendered with minimal, full and random redundant \
         parentheses / alias spellings; oracle: parses back to the same tree. Non-trivial: A: accepted by either side or rejected at \
         the last token; B: the tree has two directly nested operators (precedence/associativity observable).",
    );
    ctx.assume("reference lexer/parser (harness/src/model/{lex,parse}.rs) written from the precedence table in the property");
    ctx.assume("LR parsers reject at the first non-viable token, so extensions of non-viable prefixes need no exploration (validated by the unpruned lengths)");

    super::regressions::run(ctx, "C07", |j| replay(j));

    // ---- A0: the derivation depends on the token sequence only: texts that differ in whitespace but denote DIFFERENT token
    // sequences (a line break ends a comment; whitespace inside a string is content), parsed right after each other as the
    // first parses of this process, each compared with the (stateless) reference parser
    let groups: Vec<Vec<&str>> = vec![
        vec!["x // note\n + y", "x // note + y", "x // note\r\n + y", "x + y"],
        vec!["[x, // first\n y]", "[x, // first y]", "[x, y]"],
        // only `//` starts a comment, and its text is free: brackets, quotes and `/*` inside it mean nothing
        vec!["a /* b */ + c", "a /*b*/ + c", "a + c", "[i1, /* x */ i2]", "/**/ a", "a /* unterminated", "a / b * c", "a /* b\n */ + c"],
        vec!["// 1) adults only\nage >= i18", "a + // (see below\n b * c", "a // \"\n + b", "[a // ]\n, b]", "a // it's\n + \"x\"", "age >= i18", "a + b * c"],
        vec!["x contains \"a b\"", "x contains \"a  b\"", "x contains \"a\tb\"", "x contains \"ab\""],
        vec!["a //\n b", "a // b", "a /\n/ b", "a / / b"],
        vec!["i1 + i 2", "i1 + i2", "i 1 + i2", "i1+i2"],
        vec!["if a then b else c", "if a then b else c ", "ifa then b else c", "if a thenb else c"],
        vec!["a. b .0", "a.b.0", "a .b. 0", "a.b .0 "],
        vec!["f (a)", "f(a)", "f ( a )", "f\n(a)"],
        vec!["i1 // c\r+ i2", "i1 // c\n+ i2", "i1 // c\r\n+ i2", "i1 // c + i2"],
        vec!["i1 // c\ri2", "if a then b // c\relse c", "[a // x\r, b]", "a // x\r\r contains b"],
    ];
    ctx.list(
        "whitespace-vs-token-sequence",
        &groups,
        |g, acc| {
            acc.case("ws-group", true, || format!("{g:?}"));
            for t in g {
                check_text_against(t, crate::model::parse::parse_expr(t))?;
            }
            Ok(())
        },
        |g| json!({"text_group": g}),
        "group",
    );

    // ---- A0b: the rule-only tokens `@` and `;` (metadata items) are not derivable by the expression grammar
    let rule_only: Vec<&str> = vec![
        "@k: i1; x", "@k: [i1]; @j: \"s\"; x + y", "@name: \"n\"; x", "x;", "x; y", "@x", "a @ b", "@k: i1;", "; x", "@ k : i1 ; @ j : i2 ; if a then b else c",
        "[@k: i1; x]", "f(@k: i1; x)",
    ];
    ctx.list(
        "rule-only-tokens",
        &rule_only,
        |t, acc| {
            acc.case("rule-only", true, || t.to_string());
            check_text_against(t, crate::model::parse::parse_expr(t))
        },
        |t| json!({"source_text": t}),
        "text",
    );

    // ---- A0c: syntax of other languages that this grammar does not derive (and must keep rejecting), next to the nearest
    // derivable spelling; the reference decides, and for the underivable ones it is also asserted that the reference rejects
    let near_miss: Vec<(&str, bool)> = vec![
        ("{\"k\": i1}", false), ("{k: i1}", true), ("{'k': i1}", false), ("{k = i1}", false), ("{i1: i1}", false), ("{k: i1; j: i2}", false),
        ("a ? b : c", false), ("a && b", false), ("a || b", false), ("not a", false), ("a <> b", false), ("a === b", false), ("a => b", false),
        ("a ** b", false), ("a // b\n", true), ("a /* b */", false), ("# a\nb", false), ("-- a\nb", false),
        ("f()", false), ("f(a, b)", false), ("f(a)", true), ("f (a)", true), ("f[a]", false), ("a[0]", false), ("a.[0]", false), ("a.0", true), ("a.(0)", false),
        ("[i1 i2]", false), ("[i1; i2]", false), ("[i1, i2]", true), ("(i1, i2)", false), ("()", false), ("[]", true), ("{}", true), ("[,]", false), ("{,}", false),
        ("1", false), ("1.5", false), (".5", false), ("i 1", false), ("i1.5", true), ("f1.5.2", true), ("d1e5", true), ("d1e-5", false), ("i1e5", true),
        ("0x", false), ("0x1g", false), ("0b102", false), ("0o8", false), ("1_000", false), ("i1_000", true), ("'s'", false), ("\"s", false), ("`s`", false),
        ("true()", false), ("if a then b", false), ("if a b else c", false), ("if a then b else c", true), ("if a then b elif c then d else e", false),
        ("if a then b else if c then d else e", true), ("a in", false), ("in a", false), ("a contains", false), ("a in b in c", false), ("a == b == c", true),
        ("a = = b", false), ("a ! = b", false), ("a >= = b", false), ("a > = b", false), ("!a", true), ("!!a", true), ("- - a", true), ("--a", true), ("a - -b", true),
        ("a +", false), ("+ a", false), ("+a", false), ("a + + b", false), ("a b", false), ("a, b", false), ("a;", false), (":a", true), (": a", true), ("::a", false),
        (":1", false), ("a.b.c", true), ("a..b", false), ("a.", false), (".a", false), ("a.:b", false), ("some(a)", true), ("some a", false), ("int", false),
        ("int()", false), ("int(a)", true), ("int(a, b)", false), ("date_time(a)", true), ("datetime a", false), ("none", true), ("none()", false), ("none(a)", true),
        ("{a}", false), ("{a, b}", false), ("{a: }", false), ("{: i1}", false), ("a.year", false), ("a.int", false), ("a.if", false), ("a.none", false),
        ("a.true", false), (":s.day", false), ("a.contains", false), ("{year: i1}", false), ("{if: i1}", false), ("a.key", true), ("a.val", true), ("{key: i1}", true),
        ("-0x10", true), ("a-0x10", true), ("a -0x10", true), ("a--0x10", true), ("a - -0b1", true), ("0x-10", false), ("i-0x10", false),
        ("\"a\\\nb\"", false), ("\"a\nb\"", true), ("f1e", true), ("f1e+", false),
        ("null", true), ("nil", true), ("True", true), ("TRUE", true), ("@a", false), ("$a", false), ("a$", false), ("a?", false), ("a!", false), ("a~b", false),
    ];
    ctx.list(
        "near-miss-syntax",
        &near_miss,
        |(t, derivable), acc| {
            acc.case(if *derivable { "near-miss:derivable-neighbour" } else { "near-miss:underivable" }, true, || t.to_string());
            let reference = crate::model::parse::parse_expr(t);
            if reference.is_ok() != *derivable {
                // (a slip in this list, not in the crate)
                return Err(Issue::new("grammar:harness-list", format!("the near-miss list says {t:?} is {}derivable, the reference parser disagrees", if *derivable { "" } else { "not " })));
            }
            check_text_against(t, reference)
        },
        |(t, _)| json!({"source_text": t}),
        "text",
    );

    // map literals that write a key more than once (a tree cannot hold such a map, so no printed tree ever contains one):
    // the derivation is the same with and without the trailing comma, and the item written last stays
    let repeated: Vec<String> = {
        let mut out = vec![];
        let key_lists: [&[&str]; 9] = [&["a", "a"], &["a", "b", "a"], &["a", "a", "b"], &["b", "a", "a"], &["a", "a", "a"], &["a", "b", "a", "b"], &["x", "a", "y", "a", "z"], &["x1", "x1"], &["k9", "k9"]];
        for keys in key_lists {
            for comma in ["", ",", " ,"] {
                for form in 0..4 {
                    let items: Vec<String> = keys
                        .iter()
                        .enumerate()
                        .map(|(i, k)| match form {
                            0 => format!("{k}: i{}", i + 1),
                            1 => format!("{k}: \"v{}\"", i + 1),
                            2 => format!("{k}: {{{k}: i{}, {k}: i{}{comma}}}", i + 1, i + 11),
                            _ => format!("{k}: r{} + i{}", i + 1, i + 1),
                        })
                        .collect();
                    let lit = format!("{{{}{comma}}}", items.join(", "));
                    out.push(lit.clone());
                    out.push(format!("{lit}.{}", keys[0]));
                    out.push(format!("[{lit}, {lit}]"));
                    out.push(format!("f({lit})"));
                    out.push(format!("{lit} contains \"{}\"", keys[0]));
                }
            }
        }
        out
    };
    ctx.list(
        "repeated-map-keys",
        &repeated,
        |t, acc| {
            acc.case("repeated-key-literal", true, || t.to_string());
            let reference = crate::model::parse::parse_expr(t);
            if reference.is_err() {
                return Err(Issue::new("grammar:harness-list", format!("the repeated-key list holds {t:?}, which the reference parser does not derive")));
            }
            check_text_against(t, reference)
        },
        |t| json!({"source_text": t}),
        "text",
    );

    let alpha = alphabet();
    let n = alpha.len() as u64;

    // ---- A1: exhaustive short sequences
    let full_len = ctx.tier.pick(4u32, 5u32);
    let total = count_upto(n, full_len);
    ctx.enumerate(
        "tokens-exhaustive",
        total,
        true,
        |i, acc| {
            let toks = seq_from_index(i, &alpha, full_len);
            let so = syntax_outcome(&toks);
            let nt = match so {
                Ok(()) => true,
                Err(at) => at + 1 >= toks.len(),
            };
            let class = match so {
                Ok(()) => "seq:accepted",
                Err(at) if at >= toks.len() => "seq:incomplete",
                Err(at) if at + 1 == toks.len() => "seq:rejected-at-last",
                _ => "seq:rejected-early",
            };
            acc.cell(class, nt);
            if nt && i % 1009 == 0 {
                acc.sample(class, || text_of(&toks));
            }
            check_tokens(&toks)
        },
        |i| toks_to_json(&seq_from_index(i, &alpha, full_len)),
        "tokens",
    );

    // ---- A2: viable-prefix-pruned exhaustive extension
    let max_len = ctx.tier.pick(7usize, 8usize);
    let viable = |toks: &[Tok]| match syntax_outcome(toks) {
        Ok(()) => true,
        Err(at) => at >= toks.len(),
    };
    // all viable sequences of length full_len
    let mut frontier: Vec<Vec<u8>> = (0..n.pow(full_len))
        .into_par_iter()
        .filter_map(|i| {
            let mut idx = vec![0u8; full_len as usize];
            let mut x = i;
            for k in (0..full_len as usize).rev() {
                idx[k] = (x % n) as u8;
                x /= n;
            }
            let toks: Vec<Tok> = idx.iter().map(|&k| alpha[k as usize].clone()).collect();
            if viable(&toks) {
                Some(idx)
            } else {
                None
            }
        })
        .collect();
    let mut accepted_pool: Vec<Vec<u8>> = vec![];
    let budget = ctx.tier.pick(450_000usize, 6_000_000usize);
    let mut explored_total = 0usize;
    for len in (full_len as usize + 1)..=max_len {
        // all one-token extensions of viable prefixes
        let mut ext: Vec<Vec<u8>> = frontier
            .par_iter()
            .flat_map_iter(|p| {
                (0..n as u8).map(move |k| {
                    let mut q = p.clone();
                    q.push(k);
                    q
                })
            })
            .collect();
        let complete = explored_total + ext.len() <= budget;
        if !complete {
            // deterministic thinning (seeded) to stay within the fixed work budget
            let keep = budget.saturating_sub(explored_total);
            let stride = (ext.len() / keep.max(1)).max(1);
            let off = (ctx.seed as usize) % stride;
            ext = ext.into_iter().skip(off).step_by(stride).collect();
        }
        explored_total += ext.len();
        let name = format!("tokens-viable-len{len}");
        ctx.enumerate(
            &name,
            ext.len() as u64,
            complete,
            |i, acc| {
                let toks: Vec<Tok> = ext[i as usize].iter().map(|&k| alpha[k as usize].clone()).collect();
                let so = syntax_outcome(&toks);
                let class = match so {
                    Ok(()) => "ext:accepted",
                    Err(at) if at >= toks.len() => "ext:incomplete",
                    _ => "ext:rejected-at-last",
                };
                acc.cell(class, true);
                if i % 5003 == 0 {
                    acc.sample(class, || text_of(&toks));
                }
                check_tokens(&toks)
            },
            |i| toks_to_json(&ext[i as usize].iter().map(|&k| alpha[k as usize].clone()).collect::<Vec<_>>()),
            "tokens",
        );
        if !complete || ctx.has_failed() {
            break;
        }
        frontier = ext
            .into_par_iter()
            .filter(|p| {
                let toks: Vec<Tok> = p.iter().map(|&k| alpha[k as usize].clone()).collect();
                viable(&toks)
            })
            .collect();
        if len <= 6 {
            accepted_pool.extend(frontier.iter().filter(|p| {
                let toks: Vec<Tok> = p.iter().map(|&k| alpha[k as usize].clone()).collect();
                syntax_outcome(&toks).is_ok()
            }).cloned());
        }
    }

    // ---- A2b: alias equivalence (metamorphic): in every accepted sequence of length <= 5 that contains `==`, replacing any
    // non-empty subset of its occurrences by `=` must give the same tree (exhaustive); likewise contains <-> in with swapped
    // operands is covered by the renderings of part B.
    {
        let mut with_eq: Vec<Vec<Tok>> = (0..count_upto(n, 4))
            .into_par_iter()
            .filter_map(|i| {
                let toks = seq_from_index(i, &alpha, 4);
                if toks.contains(&Tok::Fix("==")) && syntax_outcome(&toks).is_ok() {
                    Some(toks)
                } else {
                    None
                }
            })
            .collect();
        with_eq.extend(
            accepted_pool
                .iter()
                .filter(|p| p.len() == 5)
                .map(|p| p.iter().map(|&k| alpha[k as usize].clone()).collect::<Vec<_>>())
                .filter(|t| t.contains(&Tok::Fix("=="))),
        );
        let mut variants: Vec<(Vec<Tok>, Vec<Tok>)> = vec![];
        for toks in &with_eq {
            let pos: Vec<usize> = toks.iter().enumerate().filter(|(_, t)| **t == Tok::Fix("==")).map(|(i, _)| i).collect();
            for mask in 1u32..(1 << pos.len()) {
                let mut v = toks.clone();
                for (b, p) in pos.iter().enumerate() {
                    if mask & (1 << b) != 0 {
                        v[*p] = Tok::Fix("=");
                    }
                }
                variants.push((toks.clone(), v));
            }
        }
        ctx.enumerate(
            "alias-equivalence",
            variants.len() as u64,
            true,
            |i, acc| {
                let (orig, alias) = &variants[i as usize];
                acc.cell("alias:==/=", true);
                if i % 499 == 0 {
                    acc.sample("alias", || text_of(alias));
                }
                // the alias spelling must derive the tree of the original spelling
                check_text_against(&text_of(alias), parse_tokens(orig))
                    .map_err(|i| Issue::new(i.sig.replace("grammar:", "alias:"), i.msg))
            },
            |i| toks_to_json(&variants[i as usize].1),
            "tokens",
        );
    }

    // ---- A3: class expansion of accepted sequences
    let mut accepted: Vec<Vec<Tok>> = (0..count_upto(n, 4))
        .into_par_iter()
        .filter_map(|i| {
            let toks = seq_from_index(i, &alpha, 4);
            if syntax_outcome(&toks).is_ok() {
                Some(toks)
            } else {
                None
            }
        })
        .collect();
    let extra_n = ctx.tier.pick(6_000usize, 60_000usize);
    let stride = (accepted_pool.len() / extra_n.max(1)).max(1);
    accepted.extend(
        accepted_pool
            .iter()
            .skip((ctx.seed as usize) % stride)
            .step_by(stride)
            .map(|p| p.iter().map(|&k| alpha[k as usize].clone()).collect::<Vec<_>>()),
    );
    let mut variants: Vec<Vec<Tok>> = vec![];
    for toks in &accepted {
        for (i, t) in toks.iter().enumerate() {
            for m in class_members(t) {
                let mut v = toks.clone();
                v[i] = m;
                variants.push(v);
            }
        }
    }
    let cap = ctx.tier.pick(150_000usize, 1_500_000usize);
    if variants.len() > cap {
        let stride = variants.len() / cap + 1;
        variants = variants.into_iter().skip((ctx.seed as usize) % stride).step_by(stride).collect();
    }
    ctx.enumerate(
        "class-expansion",
        variants.len() as u64,
        false,
        |i, acc| {
            let toks = &variants[i as usize];
            acc.case("expansion", true, || text_of(toks));
            check_tokens(toks)
        },
        |i| toks_to_json(&variants[i as usize]),
        "tokens",
    );

    // ---- A4: the same table structures metadata values: every accepted sequence that denotes a constant, as written and
    // wrapped in redundant parentheses / a list / a map, as the value of a metadata item of a rule
    let mut meta_rules: Vec<Vec<Tok>> = vec![];
    {
        let fx = |f: &'static str| Tok::Fix(f);
        let mut seen = std::collections::BTreeSet::new();
        for toks in &accepted {
            if toks.iter().any(|t| matches!(t, Tok::Ident(_) | Tok::Index(_)) || matches!(t, Tok::Fix("if" | "int" | "and" | "==" | "+" | "*" | "&" | "contains" | "in" | "!" | "."))) {
                continue;
            }
            if !seen.insert(text_of(toks)) {
                continue;
            }
            let wrap = |pre: Vec<Tok>, post: Vec<Tok>| -> Vec<Tok> {
                let mut v = vec![fx("@"), Tok::Ident("m".into()), fx(":")];
                v.extend(pre);
                v.extend(toks.iter().cloned());
                v.extend(post);
                v.extend([fx(";"), fx("@"), Tok::Ident("name".into()), fx(":"), fx("("), Tok::Str("\"n\"".into()), fx(")"), fx(";"), Tok::Ident("a".into())]);
                v
            };
            meta_rules.push(wrap(vec![], vec![]));
            meta_rules.push(wrap(vec![fx("(")], vec![fx(")")]));
            meta_rules.push(wrap(vec![fx("("), fx("(")], vec![fx(")"), fx(")")]));
            meta_rules.push(wrap(vec![fx("["), fx("(")], vec![fx(")"), fx(","), fx("]")]));
            meta_rules.push(wrap(vec![fx("{"), Tok::Ident("k".into()), fx(":"), fx("(")], vec![fx(")"), fx("}")]));
        }
    }
    ctx.enumerate(
        "metadata-value-grouping",
        meta_rules.len() as u64,
        false,
        |i, acc| {
            let toks = &meta_rules[i as usize];
            acc.cell("metadata-value", toks.iter().filter(|t| matches!(t, Tok::Fix("("))).count() >= 2);
            if i % 53 == 0 {
                acc.sample("metadata-value", || text_of(toks));
            }
            super::c14_tokens::check_tokens(toks)
        },
        |i| json!({"rule_tokens": meta_rules[i as usize].iter().map(|t| t.text().to_string()).collect::<Vec<_>>(), "text": text_of(&meta_rules[i as usize])}),
        "rule-tokens",
    );

    // ---- B1: exhaustive depth-2 trees × 3 printers
    let fam = depth2_family();
    ctx.extra("depth2_trees", json!(fam.len()));
    ctx.enumerate(
        "trees-depth2",
        fam.len() as u64 * 3,
        true,
        |i, acc| {
            let e = &fam[(i / 3) as usize];
            let mode = [Mode::Min, Mode::Full, Mode::Rand][(i % 3) as usize];
            let bytes = (i as u64).wrapping_mul(0x9E3779B97F4A7C15).to_le_bytes();
            let nt = has_adjacent_operators(e);
            acc.cell(&format!("tree2:{mode:?}"), nt);
            if i % 397 == 0 {
                acc.sample(&format!("tree2:{mode:?}"), || {
                    let mut d = Dec::new(&bytes);
                    print::tokens(e, mode, Some(&mut d)).map(|t| text_of(&t)).unwrap_or_default()
                });
            }
            check_tree(e, mode, &bytes)
        },
        |i| {
            let e = &fam[(i / 3) as usize];
            let mode = ["Min", "Full", "Rand"][(i % 3) as usize];
            let bytes = (i as u64).wrapping_mul(0x9E3779B97F4A7C15).to_le_bytes();
            json!({"tree": expr_to_json(e), "mode": mode, "bytes": bytes.to_vec(), "text": show_expr(e)})
        },
        "tree",
    );

    // ---- B2: random image trees × 3 printers
    let nrand = ctx.tier.pick(40_000u64, 1_000_000u64);
    ctx.random(
        "trees-random",
        nrand,
        || gen::recipe(300),
        |bytes, acc| {
            let mut d = Dec::new(bytes);
            let depth = 1 + d.below(6) as u32;
            let mode = [Mode::Min, Mode::Full, Mode::Rand][d.below(3)];
            let e = gen::gen_image(&mut d, depth);
            let rest: Vec<u8> = bytes[d.pos.min(bytes.len())..].to_vec();
            if let Some(acc) = acc {
                acc.case(&format!("tree:{mode:?}"), has_adjacent_operators(&e), || {
                    let mut d2 = Dec::new(&rest);
                    print::tokens(&e, mode, Some(&mut d2)).map(|t| text_of(&t)).unwrap_or_default()
                });
            }
            check_tree(&e, mode, &rest)
        },
        |bytes| {
            let mut d = Dec::new(bytes);
            let depth = 1 + d.below(6) as u32;
            let mode = ["Min", "Full", "Rand"][d.below(3)];
            let e = gen::gen_image(&mut d, depth);
            let rest: Vec<u8> = bytes[d.pos.min(bytes.len())..].to_vec();
            json!({"tree": expr_to_json(&e), "mode": mode, "bytes": rest, "text": show_expr(&e)})
        },
        "tree",
    );
}

pub fn replay(j: &serde_json::Value) -> Option<Verdict> {
    if j.get("rule_tokens").is_some() {
        return super::c14_tokens::replay(j);
    }
    if let Some(toks) = j.get("tokens").and_then(|t| t.as_array()) {
        // re-lex each token text with the reference lexer to recover its class
        let mut out = vec![];
        for t in toks {
            let mut l = crate::model::lex::lex(t.as_str()?).ok()?;
            if l.len() != 1 {
                return None;
            }
            out.push(l.remove(0));
        }
        return Some(check_tokens(&out));
    }
    if let Some(g) = j.get("text_group").and_then(|x| x.as_array()) {
        for t in g {
            let t = t.as_str()?;
            if let Err(i) = check_text_against(t, crate::model::parse::parse_expr(t)) {
                return Some(Err(i));
            }
        }
        return Some(Ok(()));
    }
    if let Some(text) = j.get("source_text").and_then(|t| t.as_str()) {
        return Some(check_text_against(text, crate::model::parse::parse_expr(text)));
    }
    let e = expr_from_json(j.get("tree")?)?;
    let mode = match j.get("mode")?.as_str()? {
        "Min" => Mode::Min,
        "Full" => Mode::Full,
        _ => Mode::Rand,
    };
    let bytes: Vec<u8> = j.get("bytes")?.as_array()?.iter().filter_map(|b| b.as_u64().map(|x| x as u8)).collect();
    Some(check_tree(&e, mode, &bytes))
}
