//! C14, token-level part: rule texts as token sequences over an alphabet that includes the metadata tokens `@` `;`,
//! enumerated exhaustively over all extensions of viable prefixes (as judged by the reference rule parser). Oracle:
//! `Rule::parse` accepts exactly what the rule grammar derives with constant metadata and a string @name, with the
//! expression, metadata (last occurrence wins) and name the reference derivation gives; no name => missing-name error.

use crate::core::*;
use crate::data::*;
use crate::model::lex::Tok;
use crate::model::parse::{parse_rule_tokens, PErr};
use crate::model::print;
use rayon::prelude::*;
use reval::prelude::*;
use serde_json::json;
use std::collections::BTreeMap;

pub fn alphabet() -> Vec<Tok> {
    let mut v: Vec<Tok> = ["@", ";", ":", ",", "[", "]", "{", "}", "+", "-", "(", ")"].iter().map(|f| Tok::Fix(f)).collect();
    v.push(Tok::Ident("a".into()));
    v.push(Tok::Ident("name".into()));
    v.push(Tok::Int("i1".into()));
    v.push(Tok::Str("\"s\"".into()));
    v
}

fn const_of(e: &Expr) -> Option<Value> {
    match e {
        Expr::Value(v) => Some(v.clone()),
        Expr::Vec(items) => items.iter().map(const_of).collect::<Option<Vec<_>>>().map(Value::Vec),
        Expr::Map(m) => m.iter().map(|(k, x)| const_of(x).map(|v| (k.clone(), v))).collect::<Option<BTreeMap<_, _>>>().map(Value::Map),
        _ => None,
    }
}

#[derive(Debug)]
enum Want {
    SyntaxOrMetadataError,
    MissingName,
    Rule { name: String, metadata: BTreeMap<String, Value>, expr: Expr },
    /// two @name items: which one wins is not stated
    Unspecified,
}

fn want(toks: &[Tok]) -> Want {
    match parse_rule_tokens(toks) {
        Err(PErr::Unspecified) => Want::Unspecified,
        Err(_) => Want::SyntaxOrMetadataError,
        Ok(parts) => {
            let mut name = None;
            let mut names = 0;
            let mut metadata = BTreeMap::new();
            for (k, e) in &parts.meta {
                match const_of(e) {
                    None => return Want::SyntaxOrMetadataError,
                    Some(v) => {
                        if k == "name" {
                            names += 1;
                            match v {
                                Value::String(s) => name = Some(s),
                                _ => return Want::SyntaxOrMetadataError,
                            }
                        } else {
                            metadata.insert(k.clone(), v);
                        }
                    }
                }
            }
            if names > 1 {
                return Want::Unspecified;
            }
            match name {
                None => Want::MissingName,
                Some(name) => Want::Rule { name, metadata, expr: parts.expr },
            }
        }
    }
}

pub fn check_tokens(toks: &[Tok]) -> Verdict {
    let text = print::plain_text(toks);
    let got = match catch(|| Rule::parse(&text)) {
        Ok(r) => r,
        Err(p) => return Err(Issue::new("rule-grammar:panic", format!("Rule::parse panicked ({p}) on {text:?}"))),
    };
    let w = want(toks);
    let fail = |what: &str| {
        Err(Issue::new(
            format!("rule-grammar:{what}"),
            format!(
                "rule text {text:?}: expected {w:?}, Rule::parse gave {}",
                match &got {
                    Ok(r) => format!("Ok(name {:?}, expr {})", r.name(), show_expr(r.expr())),
                    Err(e) => format!("Err({e:?})"),
                }
            ),
        ))
    };
    match (&w, &got) {
        (Want::Unspecified, _) => Ok(()),
        (Want::SyntaxOrMetadataError, Err(reval::parse::Error::RuleParseError(_))) => Ok(()),
        (Want::SyntaxOrMetadataError, _) => fail("accepts-underivable"),
        (Want::MissingName, Err(reval::parse::Error::MissingRuleName)) => Ok(()),
        (Want::MissingName, _) => fail("missing-name"),
        (Want::Rule { .. }, Err(_)) => fail("rejects-derivable"),
        (Want::Rule { name, metadata, expr }, Ok(rule)) => {
            let got_meta: BTreeMap<String, Value> = rule.iter_metadata().map(|(k, v)| (k.to_string(), v.clone())).collect();
            let meta_ok = got_meta.len() == metadata.len()
                && metadata.iter().all(|(k, v)| got_meta.get(k).map(|g| same_value(g, v, true)).unwrap_or(false))
                && metadata.iter().all(|(k, v)| rule.get_metadata(k).map(|g| same_value(g, v, true)).unwrap_or(false));
            if rule.name() == name && meta_ok && same_expr(rule.expr(), expr) {
                Ok(())
            } else {
                fail("different-parts")
            }
        }
    }
}

fn viable(toks: &[Tok]) -> bool {
    match parse_rule_tokens(toks) {
        Ok(_) => true,
        Err(PErr::Syntax(at)) => at >= toks.len(),
        // a literal / unspecified outcome means the syntax itself went through
        Err(PErr::Literal(_)) | Err(PErr::Unspecified) => true,
        Err(PErr::Lex) => false,
    }
}

pub fn run(ctx: &Ctx) {
    let alpha = alphabet();
    let n = alpha.len();
    let max_len = ctx.tier.pick(8usize, 9usize);
    let budget = ctx.tier.pick(260_000usize, 3_000_000usize);
    let mut frontier: Vec<Vec<u8>> = vec![vec![]];
    let mut explored = 0usize;
    for len in 1..=max_len {
        let mut ext: Vec<Vec<u8>> = frontier
            .par_iter()
            .flat_map_iter(|p| {
                (0..n as u8).map(move |k| {
                    let mut q = p.clone();
                    q.push(k);
                    q
                })
            })
            .collect();
        let complete = explored + ext.len() <= budget;
        if !complete {
            let keep = budget.saturating_sub(explored);
            if keep == 0 {
                break;
            }
            let stride = (ext.len() / keep).max(1);
            let off = (ctx.seed as usize) % stride;
            ext = ext.into_iter().skip(off).step_by(stride).collect();
        }
        explored += ext.len();
        let name = format!("rule-tokens-len{len}");
        ctx.enumerate(
            &name,
            ext.len() as u64,
            complete,
            |i, acc| {
                let toks: Vec<Tok> = ext[i as usize].iter().map(|&k| alpha[k as usize].clone()).collect();
                let w = want(&toks);
                let class = match &w {
                    Want::Rule { .. } => "rule-seq:accepted",
                    Want::MissingName => "rule-seq:derivable-without-name",
                    Want::SyntaxOrMetadataError => "rule-seq:rejected",
                    Want::Unspecified => "rule-seq:unspecified",
                };
                acc.cell(class, !matches!(w, Want::SyntaxOrMetadataError) || viable(&toks[..toks.len() - 1]));
                if !matches!(w, Want::SyntaxOrMetadataError) && i % 101 == 0 {
                    acc.sample(class, || print::plain_text(&toks));
                }
                check_tokens(&toks)
            },
            |i| {
                let toks: Vec<Tok> = ext[i as usize].iter().map(|&k| alpha[k as usize].clone()).collect();
                json!({"rule_tokens": toks.iter().map(|t| t.text().to_string()).collect::<Vec<_>>(), "text": print::plain_text(&toks)})
            },
            "rule-tokens",
        );
        if !complete || ctx.has_failed() {
            break;
        }
        frontier = ext
            .into_par_iter()
            .filter(|p| {
                let toks: Vec<Tok> = p.iter().map(|&k| alpha[k as usize].clone()).collect();
                viable(&toks)
            })
            .collect();
    }
}

pub fn replay(j: &serde_json::Value) -> Option<Verdict> {
    let mut toks = vec![];
    for t in j.get("rule_tokens")?.as_array()? {
        let mut l = crate::model::lex::lex(t.as_str()?).ok()?;
        if l.len() != 1 {
            return None;
        }
        toks.push(l.remove(0));
    }
    Some(check_tokens(&toks))
}
