//! C10 — names and access paths resolve to exactly the addressed data.
//! Oracle: a direct walk of the input written here (independent of the reference evaluator);
//! inputs carry unique leaf tokens so that "data from a different path" is observable.

use super::evalcommon::*;
use crate::core::*;
use crate::data::*;
use crate::gen::{self, Dec};
use crate::model::eval::{self as me, FnSpec};
use reval::expr::Index;
use reval::prelude::*;
use std::collections::BTreeMap;

const KEYS: [&str; 20] = ["a", "A", "a_", "aa", "facts", "b", "ab", "Facts", "a1", "x", "i1_0", "d2_", "f1_5", "len", "length", "keys", "first", "0", "1", "10"];

#[derive(Clone, Debug)]
enum Step {
    Field(String),
    At(usize),
}

#[derive(Clone, Debug)]
struct PathCase {
    input: Value,
    /// None = start from `facts`, Some(name) = start from identifier `name`
    root: Option<String>,
    steps: Vec<Step>,
}

#[derive(Debug, PartialEq)]
enum Want {
    Val(Value),
    TypeError,
    UnknownRef(String),
    /// identifier looked up in a non-map input: type error or unknown-reference naming it
    NonMapRef(String),
}

fn gen_tree(d: &mut Dec, depth: u32, counter: &mut u32) -> Value {
    let leaf = |counter: &mut u32| {
        *counter += 1;
        Value::String(format!("leaf#{}", *counter))
    };
    if depth == 0 {
        return leaf(counter);
    }
    match d.below(8) {
        0 | 1 | 2 => {
            let n = d.below(5);
            let mut m = BTreeMap::new();
            for _ in 0..n {
                m.insert(d.pick(&KEYS).to_string(), gen_tree(d, depth - 1, counter));
            }
            Value::Map(m)
        }
        3 | 4 => {
            let n = d.below(5);
            Value::Vec((0..n).map(|_| gen_tree(d, depth - 1, counter)).collect())
        }
        5 => Value::None,
        6 => {
            *counter += 1;
            Value::Int(1000 + *counter as i128)
        }
        _ => leaf(counter),
    }
}

fn gen_path(d: &mut Dec, input: &Value) -> (Option<String>, Vec<Step>) {
    // follow the input where possible, deviating with some probability at each level
    let mut steps = vec![];
    let mut cur: Option<&Value> = Some(input);
    let root = if d.below(4) == 0 {
        None
    } else {
        let name = match (cur, d.below(4)) {
            (Some(Value::Map(m)), 0..=2) if !m.is_empty() => {
                let keys: Vec<&String> = m.keys().collect();
                keys[d.below(keys.len())].clone()
            }
            _ => d.pick(&KEYS).to_string(),
        };
        cur = match cur {
            Some(Value::Map(m)) => m.get(&name),
            _ => None,
        };
        Some(name)
    };
    let len = d.below(5);
    for _ in 0..len {
        let deviate = d.below(4) == 0;
        let step = match (cur, deviate) {
            (Some(Value::Map(m)), false) if !m.is_empty() => {
                let keys: Vec<&String> = m.keys().collect();
                Step::Field(keys[d.below(keys.len())].clone())
            }
            (Some(Value::Vec(v)), false) if !v.is_empty() => Step::At(d.below(v.len())),
            (Some(Value::Vec(v)), true) => match d.below(4) {
                0 => Step::At(v.len()),
                1 => Step::At(v.len().saturating_sub(1)),
                2 => Step::At(usize::MAX),
                _ => Step::Field(d.pick(&KEYS).to_string()),
            },
            _ => {
                if d.bool() {
                    Step::Field(d.pick(&KEYS).to_string())
                } else {
                    Step::At(d.below(4))
                }
            }
        };
        cur = match (cur, &step) {
            (Some(Value::Map(m)), Step::Field(k)) => m.get(k),
            (Some(Value::Vec(v)), Step::At(i)) => v.get(*i),
            _ => None,
        };
        steps.push(step);
    }
    (root, steps)
}

impl PathCase {
    fn expr(&self) -> Expr {
        let mut e = match &self.root {
            None => Expr::reff("facts"),
            Some(n) => Expr::reff(n),
        };
        for s in &self.steps {
            e = match s {
                Step::Field(k) => Expr::index(e, Index::Map(k.clone())),
                Step::At(i) => Expr::index(e, Index::Vec(*i)),
            };
        }
        e
    }

    /// The same path with every step built through the public `From` impls of `Index`.
    fn expr_via_from(&self) -> Expr {
        let mut e = match &self.root {
            None => Expr::reff("facts"),
            Some(n) => Expr::reff(n),
        };
        for (i, s) in self.steps.iter().enumerate() {
            e = match s {
                Step::Field(k) if i % 2 == 0 => Expr::index(e, Index::from(k.as_str())),
                Step::Field(k) => Expr::index(e, Index::from(k.clone())),
                Step::At(i) => Expr::index(e, Index::from(*i)),
            };
        }
        e
    }

    /// The direct walk.
    fn want(&self) -> Want {
        let mut cur: Value = match &self.root {
            None => self.input.clone(),
            Some(n) if n == "facts" => self.input.clone(),
            Some(n) => match &self.input {
                Value::Map(m) => match m.iter().find(|(k, _)| k.as_str() == n.as_str()) {
                    Some((_, v)) => v.clone(),
                    None => return Want::UnknownRef(n.clone()),
                },
                _ => return Want::NonMapRef(n.clone()),
            },
        };
        for s in &self.steps {
            cur = match (&cur, s) {
                (Value::None, _) => Value::None,
                (Value::Map(m), Step::Field(k)) => {
                    m.iter().find(|(key, _)| key.as_str() == k.as_str()).map(|(_, v)| v.clone()).unwrap_or(Value::None)
                }
                (Value::Vec(v), Step::At(i)) => {
                    if *i < v.len() {
                        v[*i].clone()
                    } else {
                        Value::None
                    }
                }
                _ => return Want::TypeError,
            };
        }
        Want::Val(cur)
    }

    fn to_json(&self) -> serde_json::Value {
        serde_json::json!({
            "input": value_to_json(&self.input),
            "root": self.root,
            "steps": self.steps.iter().map(|s| match s { Step::Field(k) => serde_json::json!(k), Step::At(i) => serde_json::json!(i) }).collect::<Vec<_>>(),
            "text": format!("{} on {}", show_expr(&self.expr()), show_value(&self.input)),
        })
    }

    fn from_json(j: &serde_json::Value) -> Option<Self> {
        Some(PathCase {
            input: value_from_json(j.get("input")?)?,
            root: j.get("root")?.as_str().map(String::from),
            steps: j
                .get("steps")?
                .as_array()?
                .iter()
                .map(|s| {
                    if let Some(k) = s.as_str() {
                        Some(Step::Field(k.to_string()))
                    } else {
                        s.as_u64().map(|i| Step::At(i as usize))
                    }
                })
                .collect::<Option<Vec<_>>>()?,
        })
    }
}

fn ident_like(s: &str) -> bool {
    let mut cs = s.chars();
    matches!(cs.next(), Some(c) if c.is_ascii_alphabetic())
        && s.chars().all(|c| c.is_ascii_alphanumeric() || c == '_')
        && !crate::model::lex::is_reserved_spelling(s)
}

fn check_path(c: &PathCase) -> Verdict {
    let want = c.want();
    let expr = c.expr();
    let mut exprs = vec![("constructors", expr.clone())];
    if !c.steps.is_empty() {
        exprs.push(("from-impls", c.expr_via_from()));
    }
    // through text as well when every name lexes as an identifier
    let textable = c.root.as_deref().map(ident_like).unwrap_or(true)
        && c.steps.iter().all(|s| match s {
            Step::Field(k) => ident_like(k),
            Step::At(_) => true,
        });
    // (parsing costs ~270 us: every third textable path also goes through text)
    let text_sample = c.steps.len() % 3 == 0 || c.steps.iter().any(|s| matches!(s, Step::At(i) if *i > 3));
    if textable && text_sample {
        let mut text = c.root.clone().unwrap_or_else(|| "facts".to_string());
        for s in &c.steps {
            match s {
                Step::Field(k) => text.push_str(&format!(".{k}")),
                Step::At(i) => text.push_str(&format!(".{i}")),
            }
        }
        match crate::core::parse_guarded(&text) {
            Some(Ok(e)) => exprs.push(("text", e)),
            Some(Err(e)) => {
                return Err(Issue::new("path:text-does-not-parse", format!("access path {text:?} does not parse: {e}")));
            }
            None => return Err(Issue::new("path:panic", format!("Expr::parse panicked on access path {text:?}"))),
        }
    }
    // an unknown top-level field stays unknown when an earlier rule of the ruleset happens to have that name
    if let Want::UnknownRef(name) = &want {
        let spec = crate::probe::SetSpec {
            rules: vec![(name.clone(), Expr::value(424_242)), ("r".into(), expr.clone())],
            fns: BTreeMap::new(),
            symbols: BTreeMap::new(),
            suspend: 0,
        };
        let built = crate::probe::build(&spec, false);
        let r = crate::core::catch(|| crate::core::block_on(built.ruleset.evaluate_value(&c.input)).map(|mut o| o.pop().expect("outcomes").value))
            .map_err(|p| Issue::new("path:panic", format!("panic {p}")))?;
        if !matches!(&r, Ok(Err(reval::Error::UnknownRef(n))) if n == name) {
            return Err(Issue::new(
                "path:unknown-ref:after-a-rule-of-that-name",
                format!("{} after a rule named {name:?}: expected an unknown-reference error naming {name:?}, implementation {:?}; input {}", show_expr(&expr), r.map(|x| me::show_actual(&x)), show_value(&c.input)),
            ));
        }
    }
    for (via, e) in exprs {
        let case = EvalCase::plain(e, c.input.clone());
        let r = match observe(&case).actual {
            Actual::Done(r) => r,
            Actual::Panic(p) => return Err(Issue::new("path:panic", format!("panic {p}; case {}", case.render()))),
            Actual::Pending => return Err(Issue::new("path:pending", format!("pending; case {}", case.render()))),
        };
        let ok = match (&want, &r) {
            (Want::Val(v), Ok(x)) => same_value(v, x, true),
            (Want::TypeError, Err(reval::Error::InvalidType)) => true,
            (Want::UnknownRef(n), Err(reval::Error::UnknownRef(m))) => n == m,
            (Want::NonMapRef(_), Err(reval::Error::InvalidType)) => true,
            (Want::NonMapRef(n), Err(reval::Error::UnknownRef(m))) => n == m,
            _ => false,
        };
        if !ok {
            let kind = match want {
                Want::Val(Value::None) => "missing",
                Want::Val(_) => "present",
                Want::TypeError => "type-error",
                Want::UnknownRef(_) | Want::NonMapRef(_) => "unknown-ref",
            };
            return Err(Issue::new(
                format!("path:{kind}:{via}"),
                format!(
                    "lookup resolved wrongly ({via}): direct walk gives {want:?}, implementation {}; case {}",
                    me::show_actual(&r),
                    case.render()
                ),
            ));
        }
    }
    Ok(())
}

fn random_path(bytes: &[u8]) -> PathCase {
    let mut d = Dec::new(bytes);
    let mut counter = 0;
    let depth = 1 + d.below(4) as u32;
    let input = match d.below(8) {
        0 => gen_tree(&mut d, 0, &mut counter),
        1 => Value::None,
        _ => {
            // top level usually a map
            let n = d.below(6);
            let mut m = BTreeMap::new();
            for _ in 0..n {
                m.insert(d.pick(&KEYS).to_string(), gen_tree(&mut d, depth, &mut counter));
            }
            Value::Map(m)
        }
    };
    let (root, steps) = gen_path(&mut d, &input);
    PathCase { input, root, steps }
}

// ---- bundles: several lookups inside one evaluation ----------------------------------------------------------

/// 2-5 access paths evaluated inside one expression (a list), rooted at fields and at symbols of the same names
/// whose values have the same shape but different leaves: every element must be what the path alone gives.
#[derive(Clone, Debug)]
struct Bundle {
    input: Value,
    symbols: BTreeMap<String, Value>,
    /// (rooted at a symbol, root name, steps)
    paths: Vec<(bool, String, Vec<Step>)>,
}

fn relabel(v: &Value) -> Value {
    match v {
        Value::String(s) => Value::String(format!("sym:{s}")),
        Value::Int(i) => Value::Int(i + 500_000),
        Value::Vec(items) => Value::Vec(items.iter().map(relabel).collect()),
        Value::Map(m) => Value::Map(m.iter().map(|(k, x)| (k.clone(), relabel(x))).collect()),
        other => other.clone(),
    }
}

fn random_bundle(bytes: &[u8]) -> Bundle {
    let mut d = Dec::new(bytes);
    let mut counter = 0;
    let n = 1 + d.below(4);
    let mut m = BTreeMap::new();
    for _ in 0..n {
        let depth = 1 + d.below(3) as u32;
        m.insert(d.pick(&KEYS[..17]).to_string(), gen_tree(&mut d, depth, &mut counter));
    }
    let input = Value::Map(m.clone());
    // symbols: mostly the same names as the fields, same shape, other leaves; sometimes absent
    let mut symbols = BTreeMap::new();
    for (k, v) in &m {
        if d.below(12) != 11 {
            symbols.insert(k.clone(), relabel(v));
        }
    }
    symbols.insert("only_symbol".into(), Value::Int(1));
    let np = 2 + d.below(4);
    let mut paths: Vec<(bool, String, Vec<Step>)> = vec![];
    for i in 0..np {
        // usually repeat an earlier path with the other kind of root
        if i > 0 && d.below(3) != 2 {
            let (sym, name, steps) = paths[d.below(paths.len())].clone();
            let flip = d.below(4) != 3;
            paths.push((sym != flip, name, steps));
            continue;
        }
        // mostly resolving paths: an existing root, steps that follow the data (a deviation once in ten)
        let keys: Vec<&String> = m.keys().collect();
        let name = if d.below(10) == 9 { d.pick(&KEYS[..17]).to_string() } else { keys[d.below(keys.len())].clone() };
        let mut cur = m.get(&name);
        let mut steps = vec![];
        for _ in 0..d.below(4) {
            let step = match cur {
                _ if d.below(10) == 9 => {
                    if d.bool() {
                        Step::Field(d.pick(&KEYS).to_string())
                    } else {
                        Step::At(d.below(5))
                    }
                }
                Some(Value::Map(mm)) if !mm.is_empty() => {
                    let ks: Vec<&String> = mm.keys().collect();
                    Step::Field(ks[d.below(ks.len())].clone())
                }
                Some(Value::Vec(v)) if !v.is_empty() => Step::At(d.below(v.len())),
                _ => break,
            };
            cur = match (cur, &step) {
                (Some(Value::Map(mm)), Step::Field(k)) => mm.get(k),
                (Some(Value::Vec(v)), Step::At(i)) => v.get(*i),
                _ => None,
            };
            steps.push(step);
        }
        paths.push((d.bool(), name, steps));
    }
    Bundle { input, symbols, paths }
}

impl Bundle {
    fn path_expr(&self, i: usize) -> Expr {
        let (sym, name, steps) = &self.paths[i];
        let mut e = if *sym { Expr::symbol(name) } else { Expr::reff(name) };
        for s in steps {
            e = match s {
                Step::Field(k) => Expr::index(e, Index::Map(k.clone())),
                Step::At(i) => Expr::index(e, Index::Vec(*i)),
            };
        }
        e
    }
    fn expr(&self) -> Expr {
        Expr::Vec((0..self.paths.len()).map(|i| self.path_expr(i)).collect())
    }
    /// direct walk of path i: Ok(value) / Err(description of the error class)
    fn want(&self, i: usize) -> Result<Value, String> {
        let (sym, name, steps) = &self.paths[i];
        if *sym {
            match self.symbols.get(name) {
                None => Err(format!("invalid symbol {name}")),
                Some(v) => match (PathCase { input: v.clone(), root: None, steps: steps.clone() }).want() {
                    Want::Val(x) => Ok(x),
                    _ => Err("type error".into()),
                },
            }
        } else {
            match (PathCase { input: self.input.clone(), root: Some(name.clone()), steps: steps.clone() }).want() {
                Want::Val(x) => Ok(x),
                Want::TypeError => Err("type error".into()),
                Want::UnknownRef(n) | Want::NonMapRef(n) => Err(format!("unknown reference {n}")),
            }
        }
    }
}

fn check_bundle(b: &Bundle) -> Verdict {
    let wants: Vec<Result<Value, String>> = (0..b.paths.len()).map(|i| b.want(i)).collect();
    let case = EvalCase { expr: b.expr(), facts: b.input.clone(), fns: BTreeMap::new(), symbols: b.symbols.clone() };
    let r = match observe_via_ruleset(&case) {
        Actual::Done(r) => r,
        Actual::Panic(p) => return Err(Issue::new("bundle:panic", format!("panic {p}; case {}", case.render()))),
        Actual::Pending => return Err(Issue::new("bundle:pending", format!("pending; case {}", case.render()))),
    };
    let first_err = wants.iter().find_map(|w| w.as_ref().err());
    let ok = match (first_err, &r) {
        (None, Ok(Value::Vec(items))) => {
            items.len() == wants.len() && items.iter().zip(&wants).all(|(x, w)| same_value(x, w.as_ref().unwrap(), true))
        }
        (Some(e), Err(reval::Error::InvalidType)) => e == "type error",
        (Some(e), Err(reval::Error::UnknownRef(n))) => *e == format!("unknown reference {n}"),
        (Some(e), Err(reval::Error::InvalidSymbol(n))) => *e == format!("invalid symbol {n}"),
        _ => false,
    };
    if ok {
        Ok(())
    } else {
        Err(Issue::new(
            "bundle:element-differs-from-path-alone",
            format!(
                "lookups inside one evaluation: every element must be what its path gives on its own: expected {:?}, implementation {}; case {} with symbols {:?}",
                wants,
                me::show_actual(&r),
                case.render(),
                b.symbols.iter().map(|(k, v)| format!("{k}={}", show_value(v))).collect::<Vec<_>>()
            ),
        ))
    }
}

// ---- symbols and functions -----------------------------------------------------------------

#[derive(Clone, Debug)]
struct NameCase {
    symbols: Vec<String>,
    functions: Vec<String>,
    /// probes: (is_symbol, name)
    lookups: Vec<(bool, String)>,
    /// symbol names registered again, with a new value, through one later `with_symbols` table (which also brings
    /// `filler` fresh names, so the table may be larger or smaller than what was registered before)
    reregistered: Vec<String>,
    filler: usize,
}

const NAMES: [&str; 14] = ["s", "S", "s_", "ss", "s1", "facts", "t", "st", "s2", "x", "key", "val", "starts", "ends"];

fn random_names(bytes: &[u8]) -> NameCase {
    let mut d = Dec::new(bytes);
    let ns = d.below(5);
    let nf = d.below(5);
    let symbols = (0..ns).map(|_| d.pick(&NAMES).to_string()).collect();
    // (the last four names are reserved words: fine for symbols, refused for functions)
    let functions = (0..nf).map(|_| d.pick(&NAMES[..10]).to_string()).collect();
    let nl = 1 + d.below(6);
    let lookups = (0..nl).map(|_| (d.bool(), d.pick(&NAMES).to_string())).collect();
    let nr = d.below(3);
    let reregistered = (0..nr).map(|_| d.pick(&NAMES).to_string()).collect();
    NameCase { symbols, functions, lookups, reregistered, filler: d.below(6) }
}

fn check_names(c: &NameCase) -> Verdict {
    let mut symbols = BTreeMap::new();
    for s in &c.symbols {
        symbols.insert(s.clone(), crate::pool::map(&[("v", Value::String(format!("symbol#{s}"))), ("l", Value::Vec(vec![Value::Int(1)]))]));
    }
    // expected table after the later re-registration
    let mut expected = symbols.clone();
    let mut second: Vec<(String, Value)> = vec![];
    for s in &c.reregistered {
        second.push((s.clone(), crate::pool::map(&[("v", Value::String(format!("symbol#{s}#again"))), ("l", Value::Vec(vec![Value::Int(2)]))])));
    }
    for i in 0..c.filler {
        second.push((format!("filler{i}"), Value::Int(i as i128)));
    }
    for (k, v) in &second {
        expected.insert(k.clone(), v.clone());
    }
    let mut fns = BTreeMap::new();
    for f in &c.functions {
        fns.insert(f.clone(), FnSpec { cacheable: true, fail_on: vec![], fail_first: 0, uncacheable_after: 0 });
    }
    // an input that also has fields of the same names: symbols and fields must not be confused
    let input = Value::Map(NAMES.iter().map(|n| (n.to_string(), Value::String(format!("field#{n}")))).collect());
    for (li, (is_sym, name)) in c.lookups.iter().enumerate() {
        // a symbol is looked up whole, or through a field step / a field and a position step
        let stepped = li % 3;
        let e = if *is_sym {
            match stepped {
                0 => Expr::symbol(name),
                1 => Expr::index(Expr::symbol(name), Index::Map("v".into())),
                _ => Expr::index(Expr::index(Expr::symbol(name), Index::Map("l".into())), Index::Vec(0)),
            }
        } else {
            Expr::func(name.clone(), Expr::value(1))
        };
        // where the rule is added relative to the registrations: last, between the first and the later registration, first
        let rule_position = (li + c.filler) % 3;
        let case = EvalCase { expr: e, facts: input.clone(), fns: fns.clone(), symbols: symbols.clone() };
        let r = match crate::core::catch(|| {
            if second.is_empty() {
                crate::probe::eval_in_ruleset(&case.expr, &case.facts, &case.fns, &case.symbols).0
            } else {
                // symbols one by one, then the second table through with_symbols
                let spec = crate::probe::SetSpec { rules: vec![("r".into(), case.expr.clone())], fns: fns.clone(), symbols: BTreeMap::new(), suspend: 0 };
                let _ = spec;
                let mut b = ruleset();
                // (the rule carries metadata under the very names of the symbols: metadata is not a name space of the language)
                let the_rule = || {
                    Rule::new(
                        "r",
                        NAMES.iter().map(|n| (n.to_string(), Value::String(format!("metadata#{n}")))).chain([("description".to_string(), Value::Int(7))]).collect(),
                        case.expr.clone(),
                    )
                };
                if rule_position == 2 {
                    b = b.with_rule(the_rule()).expect("rule");
                }
                for (k, v) in &symbols {
                    b = b.with_symbol(k, v.clone());
                }
                if rule_position == 1 {
                    b = b.with_rule(the_rule()).expect("rule");
                }
                b = b.with_symbols(Symbols::from(second.clone())).expect("with_symbols");
                for (name, fs) in &fns {
                    b = b
                        .with_function(crate::probe::Probe {
                            name: crate::probe::intern(name),
                            spec: fs.clone(),
                            suspend: 0,
                            log: Default::default(),
                            counts: Default::default(),
                            tokio_yield: false,
                        })
                        .expect("function");
                }
                let rs = if rule_position == 0 { b.with_rule(the_rule()).expect("rule").build() } else { b.build() };
                let mut out = crate::core::block_on(rs.evaluate_value(&case.facts)).expect("evaluate_value");
                out.pop().expect("one outcome").value
            }
        }) {
            Ok(x) => x,
            Err(p) => return Err(Issue::new("name:panic", format!("panic {p}; case {}", case.render()))),
        };
        let ok = if *is_sym {
            match (expected.get(name), &r) {
                (Some(want), Ok(v)) => {
                    let want = match (stepped, want) {
                        (1, Value::Map(m)) => m.get("v").cloned().unwrap_or(Value::None),
                        (2, Value::Map(m)) => match m.get("l") {
                            Some(Value::Vec(l)) => l.first().cloned().unwrap_or(Value::None),
                            _ => Value::None,
                        },
                        (_, w) => w.clone(),
                    };
                    same_value(v, &want, true)
                }
                (None, Err(reval::Error::InvalidSymbol(n))) => n == name,
                _ => false,
            }
        } else {
            match (fns.contains_key(name), &r) {
                (true, Ok(v)) => same_value(v, &me::probe_result(name, &Value::Int(1)), true),
                (false, Err(reval::Error::UnknownUserFunction(n))) => n == name,
                _ => false,
            }
        };
        if !ok {
            return Err(Issue::new(
                format!("name:{}", if *is_sym { "symbol" } else { "function" }),
                format!(
                    "{} {name:?} resolved wrongly: registered symbols {:?} then re-registered {:?} (+{} fresh names) through with_symbols, functions {:?}; implementation {}",
                    if *is_sym { "symbol" } else { "function" },
                    c.symbols,
                    c.reregistered,
                    c.filler,
                    c.functions,
                    me::show_actual(&r)
                ),
            ));
        }
    }
    Ok(())
}

impl NameCase {
    fn to_json(&self) -> serde_json::Value {
        serde_json::json!({"symbols": self.symbols, "functions": self.functions, "reregistered": self.reregistered, "filler": self.filler,
            "lookups": self.lookups.iter().map(|(s, n)| serde_json::json!([s, n])).collect::<Vec<_>>()})
    }
    fn from_json(j: &serde_json::Value) -> Option<Self> {
        let strs = |k: &str| -> Option<Vec<String>> {
            j.get(k)?.as_array()?.iter().map(|x| x.as_str().map(String::from)).collect()
        };
        Some(NameCase {
            symbols: strs("symbols")?,
            functions: strs("functions")?,
            lookups: j
                .get("lookups")?
                .as_array()?
                .iter()
                .map(|x| Some((x.get(0)?.as_bool()?, x.get(1)?.as_str()?.to_string())))
                .collect::<Option<Vec<_>>>()?,
            reregistered: strs("reregistered").unwrap_or_default(),
            filler: j.get("filler").and_then(|x| x.as_u64()).unwrap_or(0) as usize,
        })
    }
}

pub fn run(ctx: &Ctx) {
    ctx.set_rule(
        "Generated: nested inputs to depth 4 (maps with near-miss keys a/A/a_/aa/facts/Facts/ab/a1, lists of length 0-4, None, scalars) \
         whose leaves are unique tokens, x access paths that follow the input or deviate at any level (absent key, index len / len-1 / \
         usize::MAX, field into list, index into map, steps into scalars and into None), rooted at `facts` or at an identifier, built \
         through constructors, through the From impls of Index (text keys that look like numbers stay text keys) and, when every name lexes as an identifier, also through text; bundles of 2-5 paths evaluated inside one expression, rooted at fields and at symbols of the same names with same-shaped but different values (each element must be what its path gives alone); symbol and function tables over a \
         near-miss name pool with lookups of registered and unregistered names while the input has fields of the same names. \
         Oracle: a direct walk of the input (unique leaves make wrong-path data observable); naming errors must carry exactly the \
         name. Non-trivial: path length >= 2 (root + steps) or a near-miss key present in the input.",
    );

    super::regressions::run(ctx, "C10", |j| replay(j));

    let n = ctx.tier.pick(400_000u64, 6_000_000u64);
    ctx.random(
        "paths",
        n,
        || gen::recipe(300),
        |bytes, acc| {
            let c = random_path(bytes);
            if let Some(acc) = acc {
                let w = c.want();
                let class = match &w {
                    Want::Val(Value::None) => "path:none",
                    Want::Val(_) => "path:present",
                    Want::TypeError => "path:type-error",
                    Want::UnknownRef(_) => "path:unknown-ref",
                    Want::NonMapRef(_) => "path:non-map-input",
                };
                let len = c.steps.len() + c.root.is_some() as usize;
                acc.case(class, len >= 2, || format!("{} on {} => {w:?}", show_expr(&c.expr()), show_value(&c.input)));
            }
            check_path(&c)
        },
        |bytes| random_path(bytes).to_json(),
        "path",
    );

    // long paths (1..=14 steps) over deep, self-similar data: a linked chain of maps/lists whose every level carries a
    // unique value, so that a step applied twice or skipped yields data from a different path
    let chain = |depth: usize, list_every: usize| -> Value {
        let mut cur = Value::Map([("val".to_string(), Value::String(format!("leaf#{depth}")))].into_iter().collect());
        for level in (0..depth).rev() {
            let mut m = std::collections::BTreeMap::new();
            m.insert("val".to_string(), Value::String(format!("leaf#{level}")));
            if list_every > 0 && level % list_every == 0 {
                m.insert("next".to_string(), Value::Vec(vec![Value::String(format!("pad#{level}")), cur]));
            } else {
                m.insert("next".to_string(), cur);
            }
            cur = Value::Map(m);
        }
        cur
    };
    let mut long_cases: Vec<PathCase> = vec![];
    for list_every in [0usize, 2, 3] {
        let input = chain(16, list_every);
        for steps in 1..=14usize {
            for end_with_val in [true, false] {
                // follow the chain
                let mut path = vec![];
                let mut level = 0usize;
                while path.len() + (end_with_val as usize) < steps {
                    path.push(Step::Field("next".into()));
                    if list_every > 0 && level % list_every == 0 && path.len() + (end_with_val as usize) < steps {
                        path.push(Step::At(1));
                    } else if list_every > 0 && level % list_every == 0 {
                        break;
                    }
                    level += 1;
                }
                if end_with_val {
                    path.push(Step::Field("val".into()));
                }
                long_cases.push(PathCase { input: input.clone(), root: None, steps: path.clone() });
                long_cases.push(PathCase { input: Value::Map([("list".to_string(), input.clone())].into_iter().collect()), root: Some("list".into()), steps: path });
            }
        }
    }
    // wide containers: positions and keys at both ends and in the middle of lists / maps of 31 ... 1000 entries
    for n in [31usize, 32, 33, 255, 256, 257, 1000] {
        let list = Value::Vec((0..n).map(|i| Value::String(format!("item#{i}"))).collect());
        let map = Value::Map((0..n).map(|i| (format!("key{i}"), Value::Vec(vec![Value::Int(i as i128), Value::String(format!("val#{i}"))]))).collect());
        let input = Value::Map([("list".to_string(), list), ("map".to_string(), map)].into_iter().collect());
        for i in [0usize, 1, n / 2, n - 2, n - 1, n, n + 1] {
            long_cases.push(PathCase { input: input.clone(), root: Some("list".into()), steps: vec![Step::At(i)] });
            long_cases.push(PathCase { input: input.clone(), root: Some("map".into()), steps: vec![Step::Field(format!("key{i}")), Step::At(1)] });
            long_cases.push(PathCase { input: input.clone(), root: None, steps: vec![Step::Field("map".into()), Step::Field(format!("key{i}")), Step::At(0)] });
        }
    }
    ctx.enumerate(
        "long-paths",
        long_cases.len() as u64,
        true,
        |i, acc| {
            let c = &long_cases[i as usize];
            acc.cell("path:long", c.steps.len() >= 2);
            if i % 17 == 0 {
                acc.sample("path:long", || format!("{} steps: {}", c.steps.len(), show_expr(&c.expr())));
            }
            check_path(c)
        },
        |i| long_cases[i as usize].to_json(),
        "path",
    );

    // index literals that do not fit the index type must not address an element (a parse error, or no element at all)
    let big: Vec<String> = {
        let mut v = vec![];
        for base in [1u128 << 64, 1u128 << 65, 1u128 << 96, (1u128 << 127) - 4, 1u128 << 32 << 32, u64::MAX as u128 + 1] {
            for off in 0..4u128 {
                v.push((base + off).to_string());
            }
        }
        v.push("340282366920938463463374607431768211456".into());
        v.push("99999999999999999999999".into());
        v
    };
    let list_input = Value::Map(
        [("items".to_string(), Value::Vec((0..4).map(|i| Value::String(format!("leaf#{i}"))).collect()))].into_iter().collect(),
    );
    let rooted = rooted_path_cases();
    ctx.enumerate(
        "rooted-paths-and-membership",
        rooted.len() as u64,
        true,
        |i, acc| {
            let case = &rooted[i as usize];
            acc.cell(&format!("rooted:{}", super::evalcommon::root_sig(&case.expr)), true);
            if i % 499 == 0 {
                acc.sample("rooted", || case.render().chars().take(240).collect());
            }
            check_rooted_path(case)
        },
        |i| {
            let mut j = rooted[i as usize].to_json();
            j["rooted_path"] = serde_json::json!(true);
            j
        },
        "rooted-path",
    );

    // a step applied directly to a list / map literal: every item of the literal is evaluated (an unknown field, symbol
    // or function in an item that is not selected is still reported), and the step then addresses exactly one item
    let lits = literal_step_cases();
    ctx.enumerate(
        "steps-into-literal-collections",
        lits.len() as u64,
        true,
        |i, acc| {
            let case = &lits[i as usize];
            let o = super::evalcommon::observe(case);
            acc.cell(if o.model.is_err() { "literal-step:an-item-fails" } else { "literal-step:all-items-fine" }, true);
            if i % 37 == 0 {
                acc.sample("literal-step", || case.render());
            }
            super::c02::judge(case, &o.actual, &o.model).map_err(|i| Issue::new(i.sig.replace("table:", "path:literal-step:"), i.msg))?;
            if o.log != o.model_log {
                return Err(Issue::new("path:literal-step:calls", format!("invocations {:?}, reference {:?}; case {}", o.log, o.model_log, case.render())));
            }
            Ok(())
        },
        |i| {
            let mut j = lits[i as usize].to_json();
            j["literal_step"] = serde_json::json!(true);
            j
        },
        "literal-step",
    );

    ctx.enumerate(
        "oversized-index-literals",
        big.len() as u64,
        true,
        |i, acc| {
            let text = format!("items.{}", big[i as usize]);
            acc.cell("path:oversized-index", true);
            acc.sample("path:oversized-index", || text.clone());
            match catch(|| Expr::parse(&text)) {
                Err(p) => Err(Issue::new("path:panic", format!("Expr::parse panicked ({p}) on {text:?}"))),
                Ok(Err(_)) => Ok(()),
                Ok(Ok(e)) => match crate::core::block_on(e.evaluate(&list_input)) {
                    Ok(Value::None) => Ok(()),
                    other => Err(Issue::new(
                        "path:oversized-index-addresses-an-element",
                        format!("{text:?} addresses no element of a 4-element list but evaluates to {}", me::show_actual(&other)),
                    )),
                },
            }
        },
        |i| serde_json::json!({"oversized_index_text": format!("items.{}", big[i as usize])}),
        "text",
    );

    let nb = ctx.tier.pick(150_000u64, 2_000_000u64);
    ctx.random(
        "path-bundles",
        nb,
        || gen::recipe(300),
        |bytes, acc| {
            let b = random_bundle(bytes);
            if let Some(acc) = acc {
                let twins = b.paths.iter().any(|(s, n, st)| b.paths.iter().any(|(s2, n2, st2)| s != s2 && n == n2 && format!("{st:?}") == format!("{st2:?}") && !st.is_empty()));
                let all_ok = (0..b.paths.len()).all(|i| b.want(i).is_ok());
                let class = match (twins, all_ok) {
                    (true, true) => "bundle:field-and-symbol-twins:all-resolve",
                    (true, false) => "bundle:field-and-symbol-twins:some-error",
                    (false, true) => "bundle:other:all-resolve",
                    (false, false) => "bundle:other:some-error",
                };
                acc.case(class, twins, || format!("{} on {}", show_expr(&b.expr()), show_value(&b.input)));
            }
            check_bundle(&b)
        },
        |bytes| serde_json::json!({"bundle_bytes": bytes, "text": show_expr(&random_bundle(bytes).expr())}),
        "bundle",
    );

    let n2 = ctx.tier.pick(20_000u64, 300_000u64);
    ctx.random(
        "symbol-function-tables",
        n2,
        || gen::recipe(60),
        |bytes, acc| {
            let c = random_names(bytes);
            if let Some(acc) = acc {
                acc.case("names", true, || format!("{:?}", c));
            }
            check_names(&c)
        },
        |bytes| random_names(bytes).to_json(),
        "names",
    );
}

/// Paths of one to four steps rooted at an input field, at `facts` and at a symbol, through maps, lists, texts and numbers
/// (so that steps land on values of the wrong kind at every position), bare and as the collection / item of a membership
/// test: every step is applied in the order written, and a step into a value of the wrong kind is a type error wherever
/// in the path it occurs.
pub fn rooted_path_cases() -> Vec<super::evalcommon::EvalCase> {
    let tags = |v: &[&str]| Value::Vec(v.iter().map(|s| Value::String(s.to_string())).collect());
    let m = |pairs: Vec<(&str, Value)>| Value::Map(pairs.into_iter().map(|(k, v)| (k.to_string(), v)).collect());
    let order = m(vec![
        ("id", Value::Int(7)),
        ("name", Value::String("tags".into())),
        ("customer", m(vec![("tags", tags(&["vip", "new"])), ("name", Value::String("n".into())), ("id", Value::Int(1))])),
        ("tags", m(vec![("customer", tags(&["other"])), ("vip", Value::Int(1))])),
        ("lines", Value::Vec(vec![m(vec![("qty", Value::Int(2)), ("tags", tags(&["x"]))]), m(vec![("qty", Value::Int(3))])])),
        ("rows", Value::Vec(vec![Value::Vec(vec![Value::Int(1), Value::Int(2)]), Value::Vec(vec![Value::Int(3)])])),
        ("nothing", Value::None),
    ]);
    let facts = m(vec![("order", order.clone()), ("vip", Value::String("vip".into()))]);
    let mut symbols = BTreeMap::new();
    symbols.insert("order".to_string(), order);
    let steps: Vec<Index> = vec![Index::Map("customer".into()), Index::Map("tags".into()), Index::Map("id".into()), Index::Map("lines".into()), Index::Map("rows".into()), Index::Map("nothing".into()), Index::Map("x".into()), Index::Vec(0), Index::Vec(1), Index::Map("qty".into()), Index::Map("name".into())];
    let roots: Vec<Expr> = vec![Expr::reff("order"), Expr::symbol("order"), Expr::index(Expr::reff("facts"), Index::Map("order".into()))];
    let items: Vec<Expr> = vec![Expr::value("vip".to_string()), Expr::value("other".to_string()), Expr::value(1), Expr::reff("vip"), Expr::value("customer".to_string())];
    let mut paths: Vec<Vec<Index>> = vec![];
    for a in &steps {
        paths.push(vec![a.clone()]);
        for b in &steps {
            paths.push(vec![a.clone(), b.clone()]);
        }
    }
    // three and four steps: the addresses that exist, their reversals, and wrong kinds early / in the middle
    let named = |v: &[&str]| -> Vec<Index> { v.iter().map(|s| s.parse::<usize>().map(Index::Vec).unwrap_or_else(|_| Index::Map(s.to_string()))).collect() };
    for p in [
        &["customer", "tags", "0"][..], &["tags", "customer", "0"], &["lines", "0", "tags"], &["lines", "0", "tags", "0"], &["0", "tags", "lines"], &["rows", "0", "1"], &["rows", "1", "0"], &["id", "x", "y"],
        &["id", "x", "y", "z"], &["customer", "id", "x"], &["customer", "0", "tags"], &["lines", "qty", "0"], &["nothing", "x", "y"], &["x", "y", "z"], &["name", "0", "1"], &["customer", "name", "tags", "0"],
    ] {
        paths.push(named(p));
    }
    let mut out = vec![];
    let mk = |e: Expr| super::evalcommon::EvalCase { expr: e, facts: facts.clone(), fns: BTreeMap::new(), symbols: symbols.clone() };
    for root in &roots {
        for p in &paths {
            let path = p.iter().fold(root.clone(), |e, i| Expr::index(e, i.clone()));
            out.push(mk(path.clone()));
            out.push(mk(Expr::none(path.clone())));
            if p.len() >= 2 {
                for x in &items {
                    out.push(mk(Expr::contains(path.clone(), x.clone())));
                    out.push(mk(Expr::contains(Expr::Vec(vec![x.clone()]), path.clone())));
                }
            }
        }
    }
    out
}

pub(crate) fn check_rooted_path(case: &super::evalcommon::EvalCase) -> Verdict {
    let o = super::evalcommon::observe(case);
    super::c02::judge(case, &o.actual, &o.model).map_err(|i| Issue::new(i.sig.replace("table:", "path:rooted:"), i.msg))
}

fn literal_step_cases() -> Vec<super::evalcommon::EvalCase> {
    let mut fns = BTreeMap::new();
    fns.insert("fa".to_string(), me::FnSpec { cacheable: true, fail_on: vec![], fail_first: 0, uncacheable_after: 0 });
    let mut symbols = BTreeMap::new();
    symbols.insert("known".to_string(), Value::Int(3));
    let facts = Value::Map([("x".to_string(), Value::Int(1)), ("A".to_string(), Value::Map([("b".to_string(), Value::Int(2))].into_iter().collect()))].into_iter().collect());
    let items: Vec<Expr> = vec![
        Expr::reff("x"),
        Expr::reff("nope"),
        Expr::reff("X"),
        Expr::symbol("known"),
        Expr::symbol("unknown"),
        Expr::func("fa", Expr::reff("x")),
        Expr::func("nofn", Expr::reff("x")),
        Expr::index(Expr::reff("A"), Index::Map("b".into())),
        Expr::index(Expr::reff("a"), Index::Map("b".into())),
        Expr::div(Expr::value(1), Expr::value(0)),
        Expr::add(Expr::value(1), Expr::value("s".to_string())),
        Expr::value(Value::None),
    ];
    let mut out = vec![];
    let mk = |e: Expr| super::evalcommon::EvalCase { expr: e, facts: facts.clone(), fns: fns.clone(), symbols: symbols.clone() };
    for a in &items {
        for b in &items {
            let list = Expr::Vec(vec![a.clone(), b.clone()]);
            let map = Expr::Map([("p".to_string(), a.clone()), ("q".to_string(), b.clone())].into_iter().collect());
            for pos in [0usize, 1, 2] {
                out.push(mk(Expr::index(list.clone(), Index::Vec(pos))));
            }
            for key in ["p", "q", "r", "P", "0"] {
                out.push(mk(Expr::index(map.clone(), Index::Map(key.into()))));
            }
            out.push(mk(Expr::index(list.clone(), Index::Map("0".into()))));
            out.push(mk(Expr::index(map.clone(), Index::Vec(0))));
            out.push(mk(Expr::index(Expr::index(Expr::Vec(vec![list.clone()]), Index::Vec(0)), Index::Vec(1))));
        }
    }
    out
}

pub fn replay(j: &serde_json::Value) -> Option<Verdict> {
    if j.get("rooted_path").is_some() {
        return super::evalcommon::EvalCase::from_json(j).map(|c| check_rooted_path(&c));
    }
    if j.get("literal_step").is_some() {
        let case = super::evalcommon::EvalCase::from_json(j)?;
        let o = super::evalcommon::observe(&case);
        return Some(super::c02::judge(&case, &o.actual, &o.model).map_err(|i| Issue::new(i.sig.replace("table:", "path:literal-step:"), i.msg)).and_then(|_| {
            if o.log != o.model_log {
                Err(Issue::new("path:literal-step:calls", format!("invocations {:?}, reference {:?}", o.log, o.model_log)))
            } else {
                Ok(())
            }
        }));
    }
    if let Some(b) = j.get("bundle_bytes").and_then(|b| b.as_array()) {
        let bytes: Vec<u8> = b.iter().filter_map(|x| x.as_u64().map(|x| x as u8)).collect();
        return Some(check_bundle(&random_bundle(&bytes)));
    }
    if j.get("lookups").is_some() {
        NameCase::from_json(j).map(|c| check_names(&c))
    } else {
        PathCase::from_json(j).map(|c| check_path(&c))
    }
}

/// Entry point of the `set_diff` fuzz target: selector 0 = access path, 1 = symbol / function table.
pub(crate) fn fuzz_bytes(sel: u8, bytes: &[u8]) -> Verdict {
    if sel % 3 == 2 {
        check_bundle(&random_bundle(bytes))
    } else if sel % 2 == 0 {
        check_path(&random_path(bytes))
    } else {
        check_names(&random_names(bytes))
    }
}
