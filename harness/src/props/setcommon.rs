//! Shared by the ruleset-level properties (C09, C11, C12, C18): case type, JSON, model of one
//! ruleset evaluation (shared per-evaluation cache), generators of rule expressions.

use crate::data::*;
use crate::gen::{self, Dec};
use crate::model::eval::{self as me, FnSpec, MErr, MRes};
use crate::pool;
use crate::probe::SetSpec;
use reval::prelude::*;
use serde_json::{json, Value as J};
use std::collections::BTreeMap;

#[derive(Clone, Debug)]
pub struct SetCase {
    pub spec: SetSpec,
    /// inputs of the successive evaluations of the same ruleset
    pub inputs: Vec<Value>,
}

pub fn spec_to_json(s: &SetSpec) -> J {
    json!({
        "rules": s.rules.iter().map(|(n, e)| json!([n, expr_to_json(e), show_expr(e)])).collect::<Vec<_>>(),
        "fns": s.fns.iter().map(|(k, f)| (k.clone(), json!({"cacheable": f.cacheable, "fail_on": f.fail_on, "fail_first": f.fail_first, "uncacheable_after": f.uncacheable_after}))).collect::<serde_json::Map<_, _>>(),
        "symbols": s.symbols.iter().map(|(k, v)| (k.clone(), value_to_json(v))).collect::<serde_json::Map<_, _>>(),
        "suspend": s.suspend,
    })
}

pub fn spec_from_json(j: &J) -> Option<SetSpec> {
    let mut rules = vec![];
    for r in j.get("rules")?.as_array()? {
        rules.push((r.get(0)?.as_str()?.to_string(), expr_from_json(r.get(1)?)?));
    }
    let mut fns = BTreeMap::new();
    for (k, f) in j.get("fns")?.as_object()? {
        fns.insert(
            k.clone(),
            FnSpec {
                cacheable: f.get("cacheable")?.as_bool()?,
                fail_on: f.get("fail_on")?.as_array()?.iter().filter_map(|x| x.as_str().map(String::from)).collect(),
                fail_first: f.get("fail_first")?.as_u64()? as u32,
                uncacheable_after: f.get("uncacheable_after").and_then(|x| x.as_u64()).unwrap_or(0) as u32 },
        );
    }
    let mut symbols = BTreeMap::new();
    for (k, v) in j.get("symbols")?.as_object()? {
        symbols.insert(k.clone(), value_from_json(v)?);
    }
    Some(SetSpec { rules, fns, symbols, suspend: j.get("suspend")?.as_u64()? as u32 })
}

impl SetCase {
    pub fn to_json(&self) -> J {
        json!({"spec": spec_to_json(&self.spec), "inputs": self.inputs.iter().map(value_to_json).collect::<Vec<_>>()})
    }
    pub fn from_json(j: &J) -> Option<Self> {
        Some(SetCase {
            spec: spec_from_json(j.get("spec")?)?,
            inputs: j.get("inputs")?.as_array()?.iter().map(value_from_json).collect::<Option<Vec<_>>>()?,
        })
    }
    pub fn render(&self) -> String {
        format!(
            "rules [{}] fns {:?} symbols {:?} inputs [{}]",
            self.spec.rules.iter().map(|(n, e)| format!("{n}: {}", show_expr(e))).collect::<Vec<_>>().join("; "),
            self.spec.fns.iter().map(|(k, f)| format!("{k}{}{}", if f.cacheable { "(cacheable)" } else { "(non-cacheable)" }, if f.fail_on.is_empty() && f.fail_first == 0 { String::new() } else { format!(" fails on {:?} first {}", f.fail_on, f.fail_first) })).collect::<Vec<_>>(),
            self.spec.symbols.keys().collect::<Vec<_>>(),
            self.inputs.iter().map(show_value).collect::<Vec<_>>().join(", ")
        )
    }
}

/// Model of one `evaluate_value` call: rules in order, one cache for the whole call.
/// `counts` persists across evaluations of the same ruleset (stateful failure plans).
pub fn model_evaluation(
    spec: &SetSpec,
    facts: &Value,
    counts: &mut BTreeMap<(String, String), u32>,
) -> (Vec<MRes>, Vec<(String, String)>) {
    let mut env = me::Env::new(facts, &spec.symbols, &spec.fns);
    env.counts = std::mem::take(counts);
    let mut out = vec![];
    for (_, e) in &spec.rules {
        out.push(me::eval(e, &mut env));
    }
    *counts = std::mem::take(&mut env.counts);
    (out, env.log)
}

/// Each rule evaluated on its own (fresh cache per rule).
pub fn model_alone(spec: &SetSpec, facts: &Value) -> Vec<MRes> {
    spec.rules
        .iter()
        .map(|(_, e)| {
            let mut env = me::Env::new(facts, &spec.symbols, &spec.fns);
            me::eval(e, &mut env)
        })
        .collect()
}

pub fn rule_of(name: &str, e: &Expr) -> Rule {
    Rule::new(name.to_string(), BTreeMap::new(), e.clone())
}

// ------------------------------------------------------------------------------------------
// rule expression generators

/// 0 = succeeds; 1.. = fails with a distinct error class each
pub const RULE_KINDS: usize = 18;

pub fn rule_of_kind(k: usize, salt: i128) -> Expr {
    let i = |x: i128| Expr::value(x);
    match k {
        0 => Expr::add(Expr::reff("vi"), i(salt)),
        1 => Expr::add(i(1), Expr::value("a".to_string())),                          // InvalidType
        2 => Expr::div(i(salt), i(0)),                                               // DivisionByZero
        3 => Expr::int(Expr::value("x".to_string())),                                // InvalidCast
        4 => Expr::week(i(i64::MAX as i128)),                                        // OutOfBounds
        5 => Expr::reff(format!("missing{salt}")),                                   // UnknownRef
        6 => Expr::symbol(format!("nosym{salt}")),                                   // InvalidSymbol
        7 => Expr::func(format!("nofn{salt}"), i(1)),                                // UnknownUserFunction
        8 => Expr::func("ff", i(salt)),                                              // UserFunctionError
        9 => Expr::add(Expr::value(i128::MAX), i(1)),                                // out of range
        10 => Expr::dec(Expr::value(1i128 << 96)),                                   // cast out of range
        11 => Expr::add(Expr::Value(pool::dt(pool::LAST_TS, 0)), Expr::duration(i(salt.max(1)))), // date out of range
        12 => Expr::int(Expr::Value(Value::Float(1e300))),                           // float not representable
        13 => Expr::sub(Expr::second(i(-(i64::MAX as i128) / 1000)), Expr::second(i(i64::MAX as i128 / 1000))), // duration out of range
        14 => Expr::Vec(vec![Expr::func("fa", Expr::reff("vi")), Expr::func("fb", i(salt)), Expr::symbol("sa")]),
        // symbols as operands: a none item looked up in a map symbol (type error, as for a map written out)
        15 => Expr::contains(Expr::symbol("sm"), Expr::index(Expr::reff("facts"), reval::expr::Index::Map(format!("nokey{salt}")))),
        // a none-valued symbol as the collection (false), and symbols under several operators
        16 => Expr::contains(Expr::symbol("snone"), i(salt)),
        _ => Expr::Vec(vec![
            Expr::contains(Expr::symbol("sl"), Expr::reff("vi")),
            Expr::contains(Expr::symbol("sb"), Expr::value("y".to_string())),
            Expr::index(Expr::symbol("sm"), reval::expr::Index::Map("a".into())),
            Expr::gt(Expr::symbol("sa"), Expr::reff("vi")),
            Expr::eq(Expr::symbol("snone"), Expr::symbol("snone")),
        ]),
    }
}

/// probes registered for the fixed-kind rulesets
pub fn standard_fns() -> BTreeMap<String, FnSpec> {
    let mut fns = BTreeMap::new();
    fns.insert("fa".to_string(), FnSpec { cacheable: true, fail_on: vec![], fail_first: 0, uncacheable_after: 0 });
    fns.insert("fb".to_string(), FnSpec { cacheable: false, fail_on: vec![], fail_first: 0, uncacheable_after: 0 });
    fns.insert("ff".to_string(), FnSpec { cacheable: true, fail_on: vec![], fail_first: u32::MAX, uncacheable_after: 0 });
    fns
}

pub fn standard_symbols() -> BTreeMap<String, Value> {
    let mut s = BTreeMap::new();
    s.insert("sa".to_string(), Value::Int(7));
    s.insert("sb".to_string(), Value::String("sym".into()));
    s.insert("sm".to_string(), pool::map(&[("a", Value::Int(1)), ("b", Value::None)]));
    s.insert("sl".to_string(), Value::Vec(vec![Value::Int(5), Value::Int(7), Value::None]));
    s.insert("snone".to_string(), Value::None);
    s
}

/// arguments that are equal, or distinct but similar (C11)
pub fn similar_args() -> Vec<Value> {
    vec![
        Value::Int(1),
        Value::String("1".into()),
        Value::String("i1".into()),
        Value::Vec(vec![Value::Int(1)]),
        Value::Float(1.0),
        pool::dec(1, 0),
        pool::map(&[("a", Value::Int(1))]),
        Value::Vec(vec![Value::Vec(vec![Value::Int(1)])]),
        Value::Int(11),
        Value::String("".into()),
        Value::None,
        Value::Bool(true),
        Value::Vec(vec![Value::Int(1), Value::Int(1)]),
        Value::Vec(vec![Value::String("1".into())]),
        Value::Int(-1),
        pool::dt(1, 0),
        pool::du(1, 0),
        // "twins": equal under Value's ==, yet distinguishable by a function (sign of zero, decimal scale, NaN).
        // For these only the observed values are asserted (transparency), not the invocation counts.
        Value::Float(0.0),
        Value::Float(-0.0),
        pool::dec(10, 1),
        pool::dec(100, 2),
        Value::Float(f64::NAN),
        Value::Vec(vec![Value::Float(-0.0)]),
        // different maps / lists whose unquoted renderings coincide
        pool::map(&[("a", Value::Int(1)), ("b", Value::Int(2))]),
        pool::map(&[("a: i1, b", Value::Int(2))]),
        Value::Vec(vec![Value::String("a".into()), Value::String("b".into())]),
        Value::Vec(vec![Value::String("a\", \"b".into())]),
        Value::String("none".into()),
        // the same leaves, grouped differently
        Value::Vec(vec![Value::Vec(vec![Value::Int(1)]), Value::Vec(vec![Value::Int(2)])]),
        Value::Vec(vec![Value::Vec(vec![Value::Int(1), Value::Vec(vec![Value::Int(2)])])]),
        Value::Vec(vec![Value::Vec(vec![]), Value::Vec(vec![Value::Int(1)])]),
        Value::Vec(vec![Value::Vec(vec![Value::Vec(vec![Value::Int(1)])])]),
        pool::map(&[("a", pool::map(&[("b", Value::Int(1))]))]),
        pool::map(&[("a", pool::map(&[])), ("b", Value::Int(1))]),
        // long text (keys that are shortened or hashed must stay exact): multi-byte characters at every byte offset
        Value::String(format!("{}{}", "x".repeat(1), "é".repeat(140))),
        Value::String(format!("{}{}", "x".repeat(2), "é".repeat(140))),
        Value::String(format!("{}{}z", "x".repeat(2), "é".repeat(140))),
    ]
}

/// long arguments of the same length that agree in their first two thousand bytes (pairs)
pub fn long_twin_args() -> Vec<Value> {
    vec![
        Value::String(format!("{}a", "x".repeat(2200))),
        Value::String(format!("{}b", "x".repeat(2200))),
        Value::Vec((0..400).map(Value::Int).chain([Value::Int(1)]).collect()),
        Value::Vec((0..400).map(Value::Int).chain([Value::Int(2)]).collect()),
        Value::Map((0..120).map(|i| (format!("key{i:03}"), Value::Int(i))).chain([("z".to_string(), Value::Int(1))]).collect()),
        Value::Map((0..120).map(|i| (format!("key{i:03}"), Value::Int(i))).chain([("z".to_string(), Value::Int(2))]).collect()),
    ]
}

/// argument renderings for which "the same argument" is not determined by the property
pub fn is_twin_key(arg_key: &str) -> bool {
    ["f0e0", "f-0.0", "d10e-1", "d100e-2", "fNaN"].iter().any(|t| arg_key.contains(t))
}

pub const PROBE_NAMES: [&str; 4] = ["fa", "fb", "fc", "fd"];

/// a call-heavy rule expression: lists / nested calls of probes over similar arguments
pub fn gen_call_expr(d: &mut Dec, depth: u32, with_id: bool) -> Expr {
    let args = similar_args();
    let arg = |d: &mut Dec| -> Expr {
        // (one argument in eight is the whole input or a field of it, or a literal that equals it: the argument is its
        // value, however it is spelled)
        if !with_id && d.below(8) == 7 {
            return match d.below(4) {
                0 => Expr::reff("facts"),
                1 => Expr::Value(pool::map(&[("vi", Value::Int(5))])),
                2 => Expr::reff("vi"),
                _ => Expr::value(5),
            };
        }
        let v = Expr::Value(d.pick(&args).clone());
        if with_id {
            Expr::Vec(vec![Expr::reff("id"), v])
        } else {
            v
        }
    };
    if depth == 0 || d.exhausted() {
        let a = arg(d);
        return Expr::func(*d.pick(&PROBE_NAMES), a);
    }
    match d.below(12) {
        // calls under every other node kind: membership, strict binary and unary operators, index steps
        8 => {
            let k = *d.pick(&crate::data::BINARY_KINDS[..]);
            let a = gen_call_expr(d, depth - 1, with_id);
            let b = gen_call_expr(d, depth - 1, with_id);
            crate::data::mk2(k, a, b)
        }
        9 => {
            let k = *d.pick(&crate::data::UNARY_KINDS[..]);
            crate::data::mk1(k, gen_call_expr(d, depth - 1, with_id))
        }
        10 => {
            let n = 1 + d.below(3);
            let items: Vec<Expr> = (0..n).map(|_| gen_call_expr(d, depth - 1, with_id)).collect();
            let item = gen_call_expr(d, depth - 1, with_id);
            if d.bool() {
                Expr::contains(Expr::Vec(items), item)
            } else {
                Expr::contains(item, Expr::Vec(items))
            }
        }
        11 => Expr::index(gen_call_expr(d, depth - 1, with_id), reval::expr::Index::Vec(d.below(3))),
        0 | 1 | 2 => {
            let n = 1 + d.below(4);
            Expr::Vec((0..n).map(|_| gen_call_expr(d, depth - 1, with_id)).collect())
        }
        3 => {
            // nested call: the argument is itself a call result
            let inner = gen_call_expr(d, depth - 1, with_id);
            let inner = if with_id { Expr::Vec(vec![Expr::reff("id"), inner]) } else { inner };
            Expr::func(*d.pick(&PROBE_NAMES), inner)
        }
        4 => {
            let c = Expr::some(gen_call_expr(d, depth - 1, with_id));
            let t = gen_call_expr(d, depth - 1, with_id);
            let f = gen_call_expr(d, depth - 1, with_id);
            Expr::iif(c, t, f)
        }
        5 => {
            let a = gen_call_expr(d, depth - 1, with_id);
            let b = gen_call_expr(d, depth - 1, with_id);
            Expr::eq(a, b)
        }
        6 => Expr::Map(
            (0..1 + d.below(3)).map(|i| (format!("k{}", 3 - i), gen_call_expr(d, depth - 1, with_id))).collect(),
        ),
        _ => {
            let a = arg(d);
            Expr::func(*d.pick(&PROBE_NAMES), a)
        }
    }
}

/// function table for call-heavy rulesets; `stateful` allows fail-first plans
pub fn gen_fns(d: &mut Dec, stateful: bool) -> BTreeMap<String, FnSpec> {
    let args = similar_args();
    let mut fns = BTreeMap::new();
    let n = 2 + d.below(3);
    let order: [&str; 4] = if d.bool() { PROBE_NAMES } else { ["fd", "fa", "fb", "fc"] };
    for name in order.iter().take(n) {
        // "fd" is registered without overriding cacheable(): the documented default (cacheable) must apply
        let cacheable = d.below(3) != 0 || *name == crate::probe::DEFAULT_CACHEABILITY_NAME;
        let mut fail_on = vec![];
        let nf = if d.below(3) == 0 { 1 + d.below(3) } else { 0 };
        for _ in 0..nf {
            fail_on.push(me::arg_key(d.pick(&args)));
        }
        let fail_first = if stateful && d.below(5) == 0 { 1 + d.below(2) as u32 } else { 0 };
        // (sequential histories only) now and then a cacheable function stops being cacheable after a few invocations
        let uncacheable_after = if stateful && cacheable && *name != crate::probe::DEFAULT_CACHEABILITY_NAME && d.below(6) == 5 { 1 + d.below(4) as u32 } else { 0 };
        fns.insert(name.to_string(), FnSpec { cacheable, fail_on, fail_first, uncacheable_after });
    }
    fns
}

pub fn typed_facts(d: &mut Dec, id: i128) -> Value {
    let mut m = match gen::gen_facts(d) {
        Value::Map(m) => m,
        _ => BTreeMap::new(),
    };
    m.insert("id".to_string(), Value::Int(id));
    m.entry("vi".to_string()).or_insert(Value::Int(5));
    Value::Map(m)
}

pub fn is_error_class(m: &MRes) -> Option<&'static str> {
    match m {
        Ok(_) => None,
        Err(MErr::InvalidType) => Some("InvalidType"),
        Err(MErr::DivisionByZero) => Some("DivisionByZero"),
        Err(MErr::InvalidCast) => Some("InvalidCast"),
        Err(MErr::OutOfBounds) => Some("OutOfBounds"),
        Err(MErr::AnyError) => Some("OutOfRange"),
        Err(MErr::UnknownRef(_)) | Err(MErr::RefOnNonMap(_)) => Some("UnknownRef"),
        Err(MErr::InvalidSymbol(_)) => Some("InvalidSymbol"),
        Err(MErr::UnknownUserFunction(_)) => Some("UnknownUserFunction"),
        Err(MErr::UserFunctionError(..)) => Some("UserFunctionError"),
        Err(MErr::Ambiguous) => Some("Ambiguous"),
    }
}
