//! C11 — user-function caching is transparent, per evaluation and per argument.
//! History-based: call sequences spread over the rules of a ruleset, several consecutive evaluations,
//! compared with the cache model (per evaluation, keyed by function and argument).

use super::setcommon::*;
use crate::core::*;
use crate::gen::{self, Dec};
use crate::model::eval::{self as me, compare_with, MErr};
use crate::probe::{self, SetSpec};
use reval::prelude::*;
use std::collections::BTreeMap;

fn multiset(log: &[(String, String)]) -> BTreeMap<(String, String), usize> {
    let mut m = BTreeMap::new();
    for k in log.iter().filter(|k| !is_twin_key(&k.1)) {
        *m.entry(k.clone()).or_insert(0) += 1;
    }
    m
}

pub fn check(case: &SetCase) -> Verdict {
    let spec = &case.spec;
    let built = probe::build(spec, false);
    let mut counts = BTreeMap::new();
    for (round, facts) in case.inputs.iter().enumerate() {
        let (model, model_log) = model_evaluation(spec, facts, &mut counts);
        built.log.lock().unwrap().clear();
        let out = match catch(|| {
            let out = block_on(built.ruleset.evaluate_value(facts)).expect("evaluate_value");
            out.into_iter().map(|o| o.value).collect::<Vec<_>>()
        }) {
            Ok(o) => o,
            Err(p) => return Err(Issue::new("cache:panic", format!("evaluate_value panicked: {p}; {}", case.render()))),
        };
        let log = built.log.lock().unwrap().clone();
        // invocation counts per (function, argument): order-independent
        let (a, m) = (multiset(&log), multiset(&model_log));
        if a != m {
            let diff: Vec<String> = a
                .keys()
                .chain(m.keys())
                .collect::<std::collections::BTreeSet<_>>()
                .into_iter()
                .filter(|k| a.get(*k) != m.get(*k))
                .map(|k| format!("{}({}): invoked {} times, cache model {}", k.0, k.1, a.get(k).unwrap_or(&0), m.get(k).unwrap_or(&0)))
                .collect();
            let kind = if diff.iter().any(|_| true) && a.values().sum::<usize>() > m.values().sum::<usize>() {
                "too-many-invocations"
            } else {
                "too-few-invocations"
            };
            return Err(Issue::new(
                format!("cache:{kind}"),
                format!("evaluation #{} of the ruleset: {}; {}", round + 1, diff.join("; "), case.render()),
            ));
        }
        // values observed at each call site / error outcomes naming the function and carrying the original error
        if out.len() != model.len() {
            return Err(Issue::new("cache:outcome-count", format!("{} outcomes for {} rules", out.len(), model.len())));
        }
        for (i, (v, m)) in out.iter().zip(model.iter()).enumerate() {
            if let Some(d) = compare_with(v, m, true) {
                let what = if matches!(m, Err(MErr::UserFunctionError(..))) || matches!(v, Err(reval::Error::UserFunctionError { .. })) {
                    "failure-outcome"
                } else {
                    "observed-value"
                };
                return Err(Issue::new(
                    format!("cache:{what}:{d:?}"),
                    format!(
                        "evaluation #{} rule {i}: implementation {} but cache model {}; {}",
                        round + 1,
                        me::show_actual(v),
                        me::show_model(m),
                        case.render()
                    ),
                ));
            }
        }
    }
    Ok(())
}

pub(crate) fn random_case(bytes: &[u8]) -> SetCase {
    let mut d = Dec::new(bytes);
    let fns = gen_fns(&mut d, true);
    let nrules = 1 + d.below(5);
    let rules = (0..nrules)
        .map(|i| {
            let depth = 1 + d.below(3) as u32;
            (format!("r{i}"), gen_call_expr(&mut d, depth, false))
        })
        .collect();
    let rounds = 1 + d.below(3);
    let facts = crate::pool::map(&[("vi", Value::Int(5))]);
    SetCase { spec: SetSpec { rules, fns, symbols: BTreeMap::new(), suspend: 0 }, inputs: vec![facts; rounds] }
}

/// small exhaustive family: two call sites over every ordered pair of similar arguments x
/// {same function, different function} x {cacheable, not} x {no failure, fails on first argument}
fn family() -> Vec<SetCase> {
    let mut args = similar_args();
    args.extend(long_twin_args());
    let mut out = vec![];
    for a in &args {
        for b in &args {
            for same_fn in [true, false] {
                for cacheable in [true, false] {
                    for fail in [false, true] {
                        for split_rules in [false, true] {
                            let mut fns = BTreeMap::new();
                            let spec_f = |c: bool| me::FnSpec { cacheable: c, fail_on: if fail { vec![me::arg_key(a)] } else { vec![] }, fail_first: 0, uncacheable_after: 0 };
                            fns.insert("fa".to_string(), spec_f(cacheable));
                            fns.insert("fb".to_string(), spec_f(cacheable));
                            let c1 = Expr::func("fa", Expr::Value(a.clone()));
                            let c2 = Expr::func(if same_fn { "fa" } else { "fb" }, Expr::Value(b.clone()));
                            let rules = if split_rules {
                                vec![("r0".to_string(), c1), ("r1".to_string(), c2)]
                            } else {
                                vec![("r0".to_string(), Expr::Vec(vec![c1.clone(), c2, c1]))]
                            };
                            out.push(SetCase {
                                spec: SetSpec { rules, fns, symbols: BTreeMap::new(), suspend: 0 },
                                inputs: vec![Value::None, Value::None],
                            });
                        }
                    }
                }
            }
        }
    }
    // the argument is its value, however it is spelled: the whole input as `facts`, a field of it, and a literal equal to it,
    // in one rule and across rules, directly and inside membership tests
    for a in &args {
        if matches!(a, Value::Float(f) if f.is_nan()) {
            continue;
        }
        for cacheable in [true, false] {
            for shape in 0..4u8 {
                let mut fns = BTreeMap::new();
                fns.insert("fa".to_string(), me::FnSpec { cacheable, fail_on: vec![], fail_first: 0, uncacheable_after: 0 });
                let input = crate::pool::map(&[("x", a.clone())]);
                let f = |e: Expr| Expr::func("fa", e);
                let whole = || f(Expr::reff("facts"));
                let whole_lit = || f(Expr::Value(input.clone()));
                let field = || f(Expr::reff("x"));
                let field_lit = || f(Expr::Value(a.clone()));
                let rules: Vec<(String, Expr)> = match shape {
                    0 => vec![("r0".into(), Expr::Vec(vec![whole(), whole_lit(), whole(), field(), field_lit()]))],
                    1 => vec![("r0".into(), whole_lit()), ("r1".into(), whole()), ("r2".into(), field_lit()), ("r3".into(), field())],
                    2 => vec![
                        ("r0".into(), Expr::contains(Expr::Vec(vec![Expr::value(1)]), field())),
                        ("r1".into(), field_lit()),
                        ("r2".into(), Expr::contains(whole(), Expr::value(1))),
                    ],
                    _ => vec![
                        ("r0".into(), Expr::eq(field(), field_lit())),
                        ("r1".into(), Expr::contains(Expr::Vec(vec![whole_lit()]), whole())),
                        // a field / an item of a call's answer, asked for again (the answer may be none, a list or anything else)
                        ("r2".into(), Expr::Vec(vec![
                            Expr::index(field_lit(), reval::expr::Index::Vec(1)),
                            Expr::index(field(), reval::expr::Index::Vec(1)),
                            Expr::index(f(Expr::value("none".to_string())), reval::expr::Index::Map("a".into())),
                            Expr::index(f(Expr::value("none".to_string())), reval::expr::Index::Map("a".into())),
                            Expr::index(f(Expr::value("none".to_string())), reval::expr::Index::Vec(0)),
                        ])),
                    ],
                };
                out.push(SetCase { spec: SetSpec { rules, fns, symbols: BTreeMap::new(), suspend: 0 }, inputs: vec![input.clone(), input] });
            }
        }
    }
    out
}

/// A user function that evaluates another ruleset inline, between repeated cacheable calls (see `probe::nested_evaluation`).
pub fn check_nested_evaluation(suspend: u32, nest_cacheable: bool) -> Verdict {
    let (outer, log) = probe::nested_evaluation(suspend, false, nest_cacheable);
    let out = catch(|| block_on(outer.evaluate_value(&Value::None)).expect("evaluate_value").into_iter().map(|o| o.value).collect::<Vec<_>>())
        .map_err(|p| Issue::new("cache:nested:panic", format!("an evaluation whose user function evaluates another ruleset inline panicked: {p}")))?;
    let got = multiset(&log.lock().unwrap());
    let want = probe::nested_expected(nest_cacheable);
    let n = if nest_cacheable { 1 } else { 2 };
    let _ = n;
    let values_ok = out.len() == 3 && out.iter().all(|v| v.is_ok());
    if got != want || !values_ok {
        return Err(Issue::new(
            "cache:nested-evaluation",
            format!(
                "a user function `nest` (cacheable: {nest_cacheable}) evaluates another ruleset inline between repeated cacheable calls (functions suspend {suspend}x): invocations {:?}, expected {:?}; outcomes {:?}",
                got,
                want,
                out.iter().map(|v| v.as_ref().map(crate::data::show_value).map_err(|e| e.to_string())).collect::<Vec<_>>()
            ),
        ));
    }
    Ok(())
}

pub fn run(ctx: &Ctx) {
    ctx.set_rule(
        "Generated call histories: (1) exhaustive family: two/three call sites over every ordered pair of 17 equal / similar-but-distinct \
         arguments (i1 \"1\" \"i1\" [i1] f1 d1 {a:i1} [[i1]] i11 \"\" none true [i1,i1] [\"1\"] i-1 datetime duration) x same / \
         different function x cacheable / not x no failure / failure on the first argument x one rule / two rules, each evaluated \
         twice; evaluations with 129-1000 distinct calls, each repeated; interleaved evaluations of one ruleset under a harness-owned schedule (every evaluation's invocations are its own); (2) random rulesets of 1-5 rules whose expressions are lists, maps, conditionals, comparisons and nestings of calls \
         to 2-4 probes (cacheable or not) with failure sets and fail-the-first-n plans, evaluated 1-3 times in a row. Oracle: the cache \
         model (per evaluation; key = function and argument identity; insert on success only; non-cacheable always invoked): the \
         number of invocations per (function, argument) and every outcome value equal the model's; a failing call surfaces as a \
         user-function error naming the function and carrying the original message. For arguments that are equal under == yet distinguishable (0.0 / -0.0, d1.0 / d1.00, NaN) only the \
         observed values are asserted (a cached result must be the one the function gives for exactly that argument), not the counts. Non-trivial: \
         some key is called >= 2 times, or a failure precedes a success for the same key, or >= 2 evaluations.",
    );
    ctx.assume("probe results are a pure function of (function, argument); invocations are observed through the probes' own log");

    super::regressions::run(ctx, "C11", replay);

    let fam = family();
    ctx.enumerate(
        "similar-argument-family",
        fam.len() as u64,
        true,
        |i, acc| {
            acc.cell("family", true);
            if i % 1777 == 0 {
                acc.sample("family", || fam[i as usize].render());
            }
            check(&fam[i as usize])
        },
        |i| fam[i as usize].to_json(),
        "setcase",
    );

    // one evaluation with many distinct calls, each repeated later: however many results an evaluation holds, every
    // repeat of a cacheable call is served from them and every non-cacheable call is invoked
    let big: Vec<SetCase> = [129usize, 300, 1000, 20_000, 70_000]
        .iter()
        .flat_map(|&n| {
            [true, false].into_iter().map(move |cacheable| {
                let mut fns = BTreeMap::new();
                fns.insert("fa".to_string(), me::FnSpec { cacheable, fail_on: vec![], fail_first: 0, uncacheable_after: 0 });
                fns.insert("fb".to_string(), me::FnSpec { cacheable: true, fail_on: vec![me::arg_key(&Value::Int(7))], fail_first: 0, uncacheable_after: 0 });
                let call = |f: &str, k: usize| Expr::func(f, Expr::value(k as i128));
                let first: Vec<Expr> = (0..n).map(|k| call(if k % 5 == 4 { "fb" } else { "fa" }, k)).filter(|e| !matches!(e, Expr::Function(f, a) if f == "fb" && matches!(**a, Expr::Value(Value::Int(7))))).collect();
                let again = first.clone();
                SetCase {
                    spec: SetSpec {
                        rules: vec![("r0".to_string(), Expr::Vec(first)), ("r1".to_string(), Expr::Vec(again.into_iter().rev().collect()))],
                        fns,
                        symbols: BTreeMap::new(),
                        suspend: 0,
                    },
                    inputs: vec![Value::None, Value::None],
                }
            })
        })
        .collect();
    let mut big = big;
    // a ruleset with 80 cacheable functions, each called twice with one argument (every one of them is served from its
    // own result the second time, whichever it was registered as)
    {
        let mut fns = BTreeMap::new();
        let names: Vec<String> = (0..80).map(|i| format!("fn{i:02}")).collect();
        for n in &names {
            fns.insert(n.clone(), me::FnSpec { cacheable: true, fail_on: vec![], fail_first: 0, uncacheable_after: 0 });
        }
        let calls = |k: i128| Expr::Vec(names.iter().map(|n| Expr::func(n.clone(), Expr::value(k))).collect());
        big.push(SetCase {
            spec: SetSpec { rules: vec![("r0".to_string(), calls(1)), ("r1".to_string(), calls(1)), ("r2".to_string(), calls(2))], fns, symbols: BTreeMap::new(), suspend: 0 },
            inputs: vec![Value::None, Value::None, Value::None],
        });
    }
    // 1300 evaluations in which nothing is ever asked twice, then one in which it is: what a ruleset has seen in earlier
    // evaluations has no bearing on the cache of this one
    {
        let mut fns = BTreeMap::new();
        fns.insert("fa".to_string(), me::FnSpec { cacheable: true, fail_on: vec![], fail_first: 0, uncacheable_after: 0 });
        let rule = Expr::Vec(vec![Expr::func("fa", Expr::reff("x")), Expr::func("fa", Expr::reff("y"))]);
        let mut inputs: Vec<Value> = (0..1300).map(|i| crate::pool::map(&[("x", Value::Int(i)), ("y", Value::Int(i + 10_000))])).collect();
        inputs.push(crate::pool::map(&[("x", Value::Int(5)), ("y", Value::Int(5))]));
        inputs.push(crate::pool::map(&[("x", Value::Int(6)), ("y", Value::Int(6))]));
        big.push(SetCase { spec: SetSpec { rules: vec![("r0".to_string(), rule)], fns, symbols: BTreeMap::new(), suspend: 0 }, inputs });
    }
    // user functions whose names sound like internals, called on the arguments the built-in conversions get in the same
    // evaluation (a built-in never goes through the function table or its cache)
    for name in ["parse_datetime", "parse_date_time", "datetime_parse", "parse_int", "parse_float", "parse_dec", "parse_duration", "cast", "convert", "lookup", "index", "call", "cache", "eval"] {
        let mut fns = BTreeMap::new();
        fns.insert(name.to_string(), me::FnSpec { cacheable: true, fail_on: vec![], fail_first: 0, uncacheable_after: 0 });
        let ts = || Expr::value("2015-07-30T03:26:13Z".to_string());
        let num = || Expr::value("12".to_string());
        let bad = || Expr::value("not a date".to_string());
        let f = |e: Expr| Expr::func(name, e);
        let rules = vec![
            ("r0".to_string(), Expr::Vec(vec![Expr::datetime(ts()), f(ts()), Expr::int(num()), f(num()), Expr::float(num()), Expr::dec(num()), Expr::duration(Expr::value(12)), f(Expr::value(12))])),
            ("r1".to_string(), Expr::Vec(vec![f(bad()), Expr::datetime(bad())])),
            ("r2".to_string(), Expr::Vec(vec![f(ts()), Expr::datetime(ts()), f(num()), Expr::int(num())])),
        ];
        big.push(SetCase { spec: SetSpec { rules, fns, symbols: BTreeMap::new(), suspend: 0 }, inputs: vec![Value::None, Value::None] });
    }
    ctx.enumerate(
        "large-evaluations",
        big.len() as u64,
        true,
        |i, acc| {
            acc.cell("large", true);
            acc.sample("large", || format!("{} call sites repeated once in a second rule", match &big[i as usize].spec.rules[0].1 { Expr::Vec(v) => v.len(), _ => 0 }));
            check(&big[i as usize])
        },
        |i| big[i as usize].to_json(),
        "setcase",
    );

    // one function asked about a field, a symbol of the same name, paths into both and equal literals: one invocation
    // per distinct argument *value*, however the argument is spelled
    let spellings = super::c09::argument_spelling_cases();
    ctx.enumerate(
        "argument-spellings",
        spellings.len() as u64,
        true,
        |i, acc| {
            acc.cell("argument-spellings", true);
            if i == 0 {
                acc.sample("argument-spellings", || spellings[0].render());
            }
            check(&spellings[i as usize])
        },
        |i| spellings[i as usize].to_json(),
        "setcase",
    );

    // arguments that differ in structure but read alike once their parts are written next to each other (a text holding
    // the very delimiters a rendering of lists and maps would put between items): distinct arguments, distinct invocations
    let alike: Vec<SetCase> = {
        let st = |s: &str| Value::String(s.to_string());
        let list = |v: &[&str]| Value::Vec(v.iter().map(|s| st(s)).collect());
        let map = |v: &[(&str, &str)]| crate::pool::map(&v.iter().map(|(k, x)| (*k, st(x))).collect::<Vec<_>>());
        let mut pairs: Vec<(Value, Value)> = vec![];
        for d in ["\",\"", "\", \"", ",", ", ", "\"),String(\"", "\"), String(\"", "','", "', '", "\\\",\\\"", "\n", "\",\n\""] {
            pairs.push((list(&[&format!("x{d}y")]), list(&["x", "y"])));
            pairs.push((list(&[&format!("x{d}y"), "z"]), list(&["x", &format!("y{d}z")])));
        }
        for d in ["\",\"b\":\"", "\", \"b\": \"", "\",b:\"", ", b: ", "\"),(\"b\",String(\"", "\"), \"b\": String(\""] {
            pairs.push((map(&[("a", &format!("p{d}q"))]), map(&[("a", "p"), ("b", "q")])));
        }
        pairs.push((list(&["1"]), Value::Vec(vec![Value::Int(1)])));
        pairs.push((list(&["i1"]), Value::Vec(vec![Value::Int(1)])));
        pairs.push((list(&["[]"]), Value::Vec(vec![Value::Vec(vec![])])));
        pairs.push((list(&["None"]), Value::Vec(vec![Value::None])));
        pairs.push((list(&["none"]), Value::Vec(vec![Value::None])));
        pairs.push((map(&[("a", "{}")]), crate::pool::map(&[("a", crate::pool::map(&[]))])));
        pairs.push((Value::Vec(vec![list(&["a"]), list(&["b"])]), Value::Vec(vec![list(&["a", "b"])])));
        pairs.push((Value::Vec(vec![list(&[]), list(&["a"])]), Value::Vec(vec![list(&["a"]), list(&[])])));
        pairs
            .into_iter()
            .flat_map(|(a, b)| {
                [false, true].into_iter().map(move |swap| {
                    let (first, second) = if swap { (b.clone(), a.clone()) } else { (a.clone(), b.clone()) };
                    let mut fns = BTreeMap::new();
                    fns.insert("fa".to_string(), me::FnSpec { cacheable: true, fail_on: vec![], fail_first: 0, uncacheable_after: 0 });
                    let f = |v: &Value| Expr::func("fa", Expr::Value(v.clone()));
                    SetCase {
                        spec: SetSpec { rules: vec![("r0".into(), Expr::Vec(vec![f(&first), f(&second), f(&first)])), ("r1".into(), f(&second))], fns, symbols: BTreeMap::new(), suspend: 0 },
                        inputs: vec![Value::None],
                    }
                })
            })
            .collect()
    };
    ctx.enumerate(
        "arguments-that-read-alike",
        alike.len() as u64,
        true,
        |i, acc| {
            acc.cell("read-alike", true);
            if i % 7 == 0 {
                acc.sample("read-alike", || alike[i as usize].render().chars().take(240).collect());
            }
            check(&alike[i as usize])
        },
        |i| alike[i as usize].to_json(),
        "setcase",
    );

    ctx.enumerate(
        "nested-evaluations",
        6,
        true,
        |i, acc| {
            acc.cell("nested", true);
            acc.sample("nested", || "rules [fa(1), fb(2)]; [nest(5), fa(1), nest(5)]; [fa(1), fb(2), fa(3)] where nest evaluates another ruleset that calls fa(1), fa(1), fb(2); fa(1)".to_string());
            check_nested_evaluation((i / 2) as u32, i % 2 == 0)
        },
        |i| serde_json::json!({"nested_evaluation": [i / 2, i % 2 == 0]}),
        "nested",
    );

    // the same cache model when evaluations of one ruleset are interleaved (the schedule is owned by the harness, as in C12):
    // each evaluation's invocations are what it makes on its own
    let ni = ctx.tier.pick(20_000u64, 400_000u64);
    ctx.random(
        "interleaved-evaluations",
        ni,
        || gen::recipe(400),
        |bytes, acc| {
            let c = super::c12::random_case(bytes);
            if let Some(acc) = acc {
                let nt = c.spec.suspend >= 1 && c.inputs.len() >= 2;
                acc.case(if nt { "interleaved:suspending" } else { "interleaved:other" }, nt, || super::c12::render(&c));
            }
            super::c12::check(&c).map_err(|i| Issue::new(i.sig.replace("sched:", "cache:interleaved:"), i.msg))
        },
        |bytes| {
            let mut j = super::c12::random_case(bytes).to_json();
            j["interleaved"] = serde_json::json!(true);
            j
        },
        "sched",
    );

    let n = ctx.tier.pick(150_000u64, 3_000_000u64);
    ctx.random(
        "random-call-histories",
        n,
        || gen::recipe(400),
        |bytes, acc| {
            let case = random_case(bytes);
            if let Some(acc) = acc {
                let mut counts = BTreeMap::new();
                let (_, log) = model_evaluation(&case.spec, &case.inputs[0], &mut counts);
                let ms = multiset(&log);
                let repeated = ms.values().any(|c| *c >= 2);
                let cached_hit = {
                    // some cacheable key requested more often than invoked
                    let mut sites = 0usize;
                    for (_, e) in &case.spec.rules {
                        fn count(e: &Expr) -> usize {
                            (matches!(e, Expr::Function(..)) as usize) + crate::data::children(e).iter().map(|c| count(c)).sum::<usize>()
                        }
                        sites += count(e);
                    }
                    sites > log.len()
                };
                let nt = repeated || cached_hit || case.inputs.len() >= 2;
                let class = if cached_hit { "rnd:cache-hit" } else if repeated { "rnd:repeated-invocation" } else { "rnd:other" };
                acc.case(class, nt, || case.render());
            }
            check(&case)
        },
        |bytes| random_case(bytes).to_json(),
        "setcase",
    );
}

pub fn replay(j: &serde_json::Value) -> Option<Verdict> {
    if let Some(a) = j.get("nested_evaluation").and_then(|a| a.as_array()) {
        return Some(check_nested_evaluation(a.first()?.as_u64()? as u32, a.get(1)?.as_bool()?));
    }
    if j.get("interleaved").is_some() {
        return super::c12::replay(j).map(|v| v.map_err(|i| Issue::new(i.sig.replace("sched:", "cache:interleaved:"), i.msg)));
    }
    SetCase::from_json(j).map(|c| check(&c))
}
