//! C17 — conversions between Value and Rust types are lossless or fail.

use crate::core::*;
use crate::data::*;
use crate::gen::{self, Dec};
use chrono::{DateTime, TimeDelta, Utc};
use reval::prelude::*;
use rust_decimal::Decimal;
use serde_json::json;
use std::collections::{BTreeMap, HashMap};

const INT_TYPES: [&str; 10] = ["i8", "i16", "i32", "i64", "i128", "u8", "u16", "u32", "u64", "u128"];

fn range_of(t: &str) -> (i128, Option<i128>) {
    // (min, max) as i128; u128's max does not fit: None = unbounded above within i128
    match t {
        "i8" => (i8::MIN as i128, Some(i8::MAX as i128)),
        "i16" => (i16::MIN as i128, Some(i16::MAX as i128)),
        "i32" => (i32::MIN as i128, Some(i32::MAX as i128)),
        "i64" => (i64::MIN as i128, Some(i64::MAX as i128)),
        "i128" => (i128::MIN, None),
        "u8" => (0, Some(u8::MAX as i128)),
        "u16" => (0, Some(u16::MAX as i128)),
        "u32" => (0, Some(u32::MAX as i128)),
        "u64" => (0, Some(u64::MAX as i128)),
        "u128" => (0, None),
        _ => unreachable!(),
    }
}

/// extract type `t` from `v`; Ok(value widened to i128 / u128-as-i128) or the error
fn extract_int(t: &str, v: Value) -> Result<i128, reval::Error> {
    Ok(match t {
        "i8" => i8::try_from(v)? as i128,
        "i16" => i16::try_from(v)? as i128,
        "i32" => i32::try_from(v)? as i128,
        "i64" => i64::try_from(v)? as i128,
        "i128" => i128::try_from(v)?,
        "u8" => u8::try_from(v)? as i128,
        "u16" => u16::try_from(v)? as i128,
        "u32" => u32::try_from(v)? as i128,
        "u64" => u64::try_from(v)? as i128,
        "u128" => {
            let x = u128::try_from(v)?;
            // a Value::Int never exceeds i128::MAX, so this is lossless
            i128::try_from(x).expect("u128 from Value::Int fits i128")
        }
        _ => unreachable!(),
    })
}

/// `Value::Int(n)` extracted as `t`
pub fn check_int_extract(t: &str, n: i128) -> Verdict {
    let (min, max) = range_of(t);
    let in_range = n >= min && max.map(|m| n <= m).unwrap_or(true);
    let r = catch(|| extract_int(t, Value::Int(n))).map_err(|p| Issue::new("convert:panic", format!("extracting {t} from Int({n}) panicked: {p}")))?;
    match (in_range, r) {
        (true, Ok(x)) if x == n => Ok(()),
        (false, Err(reval::Error::NumericOverflow(_))) => Ok(()),
        (true, other) => Err(Issue::new(
            format!("convert:int:{t}:in-range"),
            format!("extracting {t} from Value::Int({n}) must give {n}, got {:?}", other.map_err(|e| e.to_string())),
        )),
        (false, other) => Err(Issue::new(
            format!("convert:int:{t}:out-of-range"),
            format!(
                "extracting {t} from Value::Int({n}) must fail with the overflow error (range {min}..={:?}), got {:?}",
                max,
                other.map_err(|e| e.to_string())
            ),
        )),
    }
}

macro_rules! roundtrip_int {
    ($t:ty, $x:expr) => {{
        let x: $t = $x;
        let v = Value::from(x);
        match (&v, <$t>::try_from(v.clone())) {
            (Value::Int(n), Ok(y)) if *n == x as i128 && y == x => Ok(()),
            (_, other) => Err(Issue::new(
                concat!("convert:roundtrip:", stringify!($t)),
                format!("{} {} -> {} -> {:?}", stringify!($t), x, show_value(&v), other.map_err(|e| e.to_string())),
            )),
        }
    }};
}

fn roundtrip_by_type(t: &str, n: i128) -> Verdict {
    // n is guaranteed in range of t by the callers
    match t {
        "i8" => roundtrip_int!(i8, n as i8),
        "i16" => roundtrip_int!(i16, n as i16),
        "i32" => roundtrip_int!(i32, n as i32),
        "i64" => roundtrip_int!(i64, n as i64),
        "i128" => roundtrip_int!(i128, n),
        "u8" => roundtrip_int!(u8, n as u8),
        "u16" => roundtrip_int!(u16, n as u16),
        "u32" => roundtrip_int!(u32, n as u32),
        "u64" => roundtrip_int!(u64, n as u64),
        "usize" => {
            let x = n as usize;
            match Value::from(x) {
                Value::Int(m) if m == x as i128 => Ok(()),
                other => Err(Issue::new("convert:roundtrip:usize", format!("usize {x} -> {}", show_value(&other)))),
            }
        }
        _ => Ok(()),
    }
}

/// every extraction applied to a value of every variant: the wrong kind fails with a type error carrying the value
fn check_wrong_kind(v: &Value) -> Verdict {
    fn judge<T: std::fmt::Debug>(what: &str, v: &Value, matches_kind: bool, r: Result<T, reval::Error>) -> Verdict {
        match (matches_kind, r) {
            (true, Ok(_)) => Ok(()),
            (true, Err(reval::Error::NumericOverflow(_))) => Ok(()), // judged by the range checks
            (false, Err(reval::Error::UnexpectedValueType(carried, _))) if same_value(&carried, v, true) => Ok(()),
            (m, other) => Err(Issue::new(
                format!("convert:kind:{what}"),
                format!(
                    "extracting {what} from {} must {}; got {:?}",
                    show_value(v),
                    if m { "succeed" } else { "fail with a type error carrying the offending value" },
                    other.map(|x| format!("{x:?}")).map_err(|e| format!("{e:?}"))
                ),
            )),
        }
    }
    let is = |k: usize| type_idx(v) == k;
    judge("String", v, is(0), String::try_from(v.clone()))?;
    judge("i8", v, is(1), i8::try_from(v.clone()))?;
    judge("i16", v, is(1), i16::try_from(v.clone()))?;
    judge("i32", v, is(1), i32::try_from(v.clone()))?;
    judge("i64", v, is(1), i64::try_from(v.clone()))?;
    judge("i128", v, is(1), i128::try_from(v.clone()))?;
    judge("u8", v, is(1), u8::try_from(v.clone()))?;
    judge("u16", v, is(1), u16::try_from(v.clone()))?;
    judge("u32", v, is(1), u32::try_from(v.clone()))?;
    judge("u64", v, is(1), u64::try_from(v.clone()))?;
    judge("u128", v, is(1), u128::try_from(v.clone()))?;
    judge("f64", v, is(2), f64::try_from(v.clone()))?;
    judge("Decimal", v, is(3), Decimal::try_from(v.clone()))?;
    judge("bool", v, is(4), bool::try_from(v.clone()))?;
    judge("DateTime", v, is(5), DateTime::<Utc>::try_from(v.clone()))?;
    judge("Duration", v, is(6), TimeDelta::try_from(v.clone()))?;
    judge("HashMap<String,Value>", v, is(8), HashMap::<String, Value>::try_from(v.clone()))?;
    judge("BTreeMap<String,Value>", v, is(8), BTreeMap::<String, Value>::try_from(v.clone()))?;
    // typed collections of a wrong-kind source
    if !is(7) {
        judge("Vec<i64>", v, false, Vec::<i64>::try_from(v.clone()))?;
    }
    if !is(8) {
        judge("HashMap<String,i64>", v, false, HashMap::<String, i64>::try_from(v.clone()))?;
        judge("BTreeMap<String,bool>", v, false, BTreeMap::<String, bool>::try_from(v.clone()))?;
    }
    Ok(())
}

/// collections whose elements are Values (of every kind, none included): into a Value and back, every entry kept
/// A caller's own key type: it turns into its wire name (`Into<String>`, what the map constructors are documented to use);
/// printing it (`Display`) gives a label for people.
#[derive(Clone, Copy, PartialEq, Eq, PartialOrd, Ord, Hash, Debug)]
enum Column {
    Price,
    Quantity,
    Total,
}
impl From<Column> for String {
    fn from(c: Column) -> String {
        match c {
            Column::Price => "price",
            Column::Quantity => "qty",
            Column::Total => "total",
        }
        .to_string()
    }
}
impl std::fmt::Display for Column {
    fn fmt(&self, f: &mut std::fmt::Formatter<'_>) -> std::fmt::Result {
        // (two columns share a label)
        f.write_str(match self {
            Column::Price => "Unit price (EUR)",
            Column::Quantity => "Amount",
            Column::Total => "Amount",
        })
    }
}
/// A key that prints quoted.
#[derive(Clone, PartialEq, Eq, PartialOrd, Ord, Hash, Debug)]
struct Quoted(String);
impl From<Quoted> for String {
    fn from(q: Quoted) -> String {
        q.0
    }
}
impl std::fmt::Display for Quoted {
    fn fmt(&self, f: &mut std::fmt::Formatter<'_>) -> std::fmt::Result {
        write!(f, "{:?}", self.0)
    }
}

fn check_value_collections(v: &Value) -> Verdict {
    let fail = |what: &str, got: String| Err(Issue::new(format!("convert:collection:{what}"), format!("element {}: {got}", show_value(v))));
    // maps keyed by a caller's own key type: the keys of the image are the keys turned into text by `Into<String>`
    {
        let by_column: BTreeMap<Column, Value> = [(Column::Price, v.clone()), (Column::Quantity, Value::Int(2)), (Column::Total, Value::None)].into_iter().collect();
        let want: BTreeMap<String, Value> = by_column.iter().map(|(k, x)| (String::from(*k), x.clone())).collect();
        let same = |m: &BTreeMap<String, Value>| m.len() == want.len() && want.iter().all(|(k, x)| m.get(k).map(|y| same_value(x, y, true)).unwrap_or(false));
        match Value::from(by_column.clone()) {
            Value::Map(m) if same(&m) => {}
            other => return fail("From<BTreeMap<Column,Value>> (keys through Into<String>)", show_value(&other)),
        }
        match Value::from(by_column.into_iter().collect::<HashMap<Column, Value>>()) {
            Value::Map(m) if same(&m) => {}
            other => return fail("From<HashMap<Column,Value>> (keys through Into<String>)", show_value(&other)),
        }
        let quoted: BTreeMap<Quoted, i64> = [(Quoted("a b".into()), 1), (Quoted("".into()), 2)].into_iter().collect();
        match Value::from(quoted) {
            Value::Map(m) if m.len() == 2 && matches!(m.get("a b"), Some(Value::Int(1))) && matches!(m.get(""), Some(Value::Int(2))) => {}
            other => return fail("From<BTreeMap<Quoted,i64>> (keys through Into<String>)", show_value(&other)),
        }
    }
    // (keys are opaque text: dots, blanks and path-like spellings stay one key)
    let entries: Vec<(String, Value)> = vec![
        ("a".into(), v.clone()),
        ("n".into(), Value::None),
        ("z".into(), v.clone()),
        ("".into(), Value::None),
        ("customer.name".into(), v.clone()),
        ("a.b.c".into(), Value::Int(3)),
        ("a".into(), v.clone()),
        ("list.0".into(), Value::Int(4)),
    ];
    let bt: BTreeMap<String, Value> = entries.iter().cloned().collect();
    let hm: HashMap<String, Value> = entries.iter().cloned().collect();
    let opt: BTreeMap<&str, Option<Value>> = [("some", Some(v.clone())), ("none", None)].into_iter().collect();
    let same_map = |m: &BTreeMap<String, Value>, want: &BTreeMap<String, Value>| {
        m.len() == want.len() && want.iter().all(|(k, x)| m.get(k).map(|y| same_value(x, y, true)).unwrap_or(false))
    };
    for (what, val) in [("From<BTreeMap<String,Value>>", Value::from(bt.clone())), ("From<HashMap<String,Value>>", Value::from(hm))] {
        match &val {
            Value::Map(m) if same_map(m, &bt) => {}
            other => return fail(what, show_value(other)),
        }
        match BTreeMap::<String, Value>::try_from(val.clone()) {
            Ok(back) if same_map(&back, &bt) => {}
            other => return fail("BTreeMap<String,Value> back", format!("{other:?}")),
        }
        match HashMap::<String, Value>::try_from(val.clone()) {
            Ok(back) if same_map(&back.clone().into_iter().collect(), &bt) => {}
            other => return fail("HashMap<String,Value> back", format!("{other:?}")),
        }
    }
    match Value::from(opt) {
        Value::Map(m) if m.len() == 2 && m.get("some").map(|x| same_value(x, v, true)).unwrap_or(false) && matches!(m.get("none"), Some(Value::None)) => {}
        other => return fail("From<BTreeMap<&str,Option<Value>>>", show_value(&other)),
    }
    let list = vec![v.clone(), Value::None, v.clone()];
    match Value::from(list.clone()) {
        Value::Vec(xs) if xs.len() == 3 && same_value(&xs[0], v, true) && matches!(xs[1], Value::None) && same_value(&xs[2], v, true) => {}
        other => return fail("From<Vec<Value>>", show_value(&other)),
    }
    match Value::from(vec![Some(v.clone()), None]) {
        Value::Vec(xs) if xs.len() == 2 && same_value(&xs[0], v, true) && matches!(xs[1], Value::None) => {}
        other => return fail("From<Vec<Option<Value>>>", show_value(&other)),
    }
    Ok(())
}

/// a caller's own element type that accepts several kinds of value (an integer, a float, or nothing)
#[derive(Debug, PartialEq)]
enum Loose {
    I(i128),
    F(u64),
    Nothing,
}

impl TryFrom<Value> for Loose {
    type Error = reval::Error;
    fn try_from(v: Value) -> Result<Self, reval::Error> {
        match v {
            Value::Int(i) => Ok(Loose::I(i)),
            Value::Float(f) => Ok(Loose::F(f.to_bits())),
            Value::None => Ok(Loose::Nothing),
            other => Err(reval::Error::unexpected_val_type(other, "Loose")),
        }
    }
}

/// lists and maps of mixed kinds extract element-wise into a caller's own multi-kind element type
fn check_custom_elements() -> Verdict {
    let mixed = vec![Value::Int(1), Value::Float(2.5), Value::None, Value::Int(-3), Value::Float(f64::NAN)];
    let want = || vec![Loose::I(1), Loose::F(2.5f64.to_bits()), Loose::Nothing, Loose::I(-3), Loose::F(f64::NAN.to_bits())];
    let fail = |what: &str, got: String| Err(Issue::new(format!("convert:collection:{what}"), got));
    for n in 0..=mixed.len() {
        let list = Value::Vec(mixed[..n].to_vec());
        match catch(|| Vec::<Loose>::try_from(list.clone())).map_err(|p| Issue::new("convert:panic", format!("Vec<custom element>::try_from({}) panicked: {p}", show_value(&list))))? {
            Ok(xs) if xs == want()[..n] => {}
            other => return fail("Vec<custom>", format!("{} -> {other:?}", show_value(&list))),
        }
        let map = Value::Map(mixed[..n].iter().enumerate().map(|(i, v)| (format!("k{i}"), v.clone())).collect());
        match catch(|| BTreeMap::<String, Loose>::try_from(map.clone())).map_err(|p| Issue::new("convert:panic", format!("BTreeMap<String, custom element>::try_from({}) panicked: {p}", show_value(&map))))? {
            Ok(m) if m.len() == n && want()[..n].iter().enumerate().all(|(i, w)| m.get(&format!("k{i}")) == Some(w)) => {}
            other => return fail("BTreeMap<String,custom>", format!("{} -> {other:?}", show_value(&map))),
        }
        let nested = Value::Map([("inner".to_string(), list.clone())].into_iter().collect());
        match catch(|| HashMap::<String, Vec<Loose>>::try_from(nested.clone())).map_err(|p| Issue::new("convert:panic", format!("HashMap<String, Vec<custom element>>::try_from({}) panicked: {p}", show_value(&nested))))? {
            Ok(m) if m.get("inner").map(|xs| xs[..] == want()[..n]).unwrap_or(false) => {}
            other => return fail("HashMap<String,Vec<custom>>", format!("{} -> {other:?}", show_value(&nested))),
        }
    }
    // one element that does not convert fails the whole extraction
    let bad = Value::Vec(vec![Value::Int(1), Value::String("x".into()), Value::Float(1.0)]);
    match catch(|| Vec::<Loose>::try_from(bad.clone())).map_err(|p| Issue::new("convert:panic", format!("panicked: {p}")))? {
        Err(_) => Ok(()),
        other => fail("Vec<custom>", format!("{} -> {other:?}", show_value(&bad))),
    }
}

/// scalar round trips other than integers
fn check_scalar_roundtrip(v: &Value) -> Verdict {
    // options: Some(v) is v, None is Value::None
    if !same_value(&Value::from(Some(v.clone())), v, true) || !matches!(Value::from(Option::<Value>::None), Value::None) {
        return Err(Issue::new("convert:roundtrip:Option", format!("Option<Value> conversion of {} is not the identity", show_value(v))));
    }
    let fail = |what: &str, got: String| Err(Issue::new(format!("convert:roundtrip:{what}"), format!("{} -> {got}", show_value(v))));
    match v {
        Value::String(s) => {
            let a = Value::from(s.clone());
            let b = Value::from(s.as_str());
            match (String::try_from(a), String::try_from(b)) {
                (Ok(x), Ok(y)) if x == *s && y == *s => Ok(()),
                other => fail("String", format!("{other:?}")),
            }
        }
        Value::Float(f) => match f64::try_from(Value::from(*f)) {
            Ok(x) if x.to_bits() == f.to_bits() => {
                // f32 widens exactly
                let g = *f as f32;
                match Value::from(g) {
                    Value::Float(w) if w.to_bits() == f64::from(g).to_bits() => Ok(()),
                    other => fail("f32", show_value(&other)),
                }
            }
            other => fail("f64", format!("{other:?}")),
        },
        Value::Decimal(d) => match Decimal::try_from(Value::from(*d)) {
            Ok(x) if x.mantissa() == d.mantissa() && x.scale() == d.scale() => Ok(()),
            other => fail("Decimal", format!("{other:?}")),
        },
        Value::Bool(b) => match bool::try_from(Value::from(*b)) {
            Ok(x) if x == *b => Ok(()),
            other => fail("bool", format!("{other:?}")),
        },
        Value::DateTime(d) => match DateTime::<Utc>::try_from(Value::from(*d)) {
            Ok(x) if x == *d => Ok(()),
            other => fail("DateTime", format!("{other:?}")),
        },
        Value::Duration(d) => match TimeDelta::try_from(Value::from(*d)) {
            Ok(x) if x == *d => Ok(()),
            other => fail("Duration", format!("{other:?}")),
        },
        _ => Ok(()),
    }
}

#[derive(Clone, Debug)]
struct CollCase {
    /// elements as i64 payloads; `bad` = position holding a non-convertible element, if any
    items: Vec<i64>,
    bad: Option<usize>,
    bad_kind: u8,
}

fn bad_element(kind: u8) -> Value {
    match kind % 4 {
        0 => Value::String("x".into()),
        1 => Value::Int(i64::MAX as i128 + 1), // right variant, out of range
        2 => Value::None,
        _ => Value::Float(1.0),
    }
}

fn check_collections(c: &CollCase) -> Verdict {
    let elems: Vec<Value> = c
        .items
        .iter()
        .enumerate()
        .map(|(i, x)| if Some(i) == c.bad { bad_element(c.bad_kind) } else { Value::Int(*x as i128) })
        .collect();
    let good = c.bad.map(|b| b >= c.items.len()).unwrap_or(true);
    let fail = |what: &str, got: String| {
        Err(Issue::new(format!("convert:collection:{what}"), format!("{c:?}: {got}")))
    };
    // Vec<V> -> Value -> Vec<V>
    let v = Value::Vec(elems.clone());
    match catch(|| Vec::<i64>::try_from(v.clone())).map_err(|p| Issue::new("convert:panic", p))? {
        Ok(xs) if good && xs == c.items => {}
        Err(_) if !good => {}
        other => return fail("Vec<i64>", format!("{other:?}")),
    }
    if good {
        match Value::from(c.items.clone()) {
            Value::Vec(xs) if xs.len() == c.items.len() && xs.iter().zip(&c.items).all(|(a, b)| *a == Value::Int(*b as i128)) => {}
            other => return fail("From<Vec<i64>>", show_value(&other)),
        }
    }
    // maps: keys k0..kn
    let entries: Vec<(String, Value)> = elems.iter().enumerate().map(|(i, e)| (format!("k{i}"), e.clone())).collect();
    let m = Value::Map(entries.iter().cloned().collect());
    let want: BTreeMap<String, i64> = c.items.iter().enumerate().map(|(i, x)| (format!("k{i}"), *x)).collect();
    match catch(|| BTreeMap::<String, i64>::try_from(m.clone())).map_err(|p| Issue::new("convert:panic", p))? {
        Ok(xs) if good && xs == want => {}
        Err(_) if !good => {}
        other => return fail("BTreeMap<String,i64>", format!("{other:?}")),
    }
    match catch(|| HashMap::<String, i64>::try_from(m.clone())).map_err(|p| Issue::new("convert:panic", p))? {
        Ok(xs) if good && xs.len() == want.len() && want.iter().all(|(k, v)| xs.get(k) == Some(v)) => {}
        Err(_) if !good => {}
        other => return fail("HashMap<String,i64>", format!("{other:?}")),
    }
    if good {
        let hm: HashMap<String, i64> = want.clone().into_iter().collect();
        for (what, val) in [("From<HashMap>", Value::from(hm)), ("From<BTreeMap>", Value::from(want.clone()))] {
            match &val {
                Value::Map(mm) if mm.len() == want.len() && want.iter().all(|(k, v)| mm.get(k) == Some(&Value::Int(*v as i128))) => {}
                other => return fail(what, show_value(other)),
            }
        }
        // untyped extraction keeps every entry
        match BTreeMap::<String, Value>::try_from(m.clone()) {
            Ok(mm) if mm.len() == want.len() => {}
            other => return fail("BTreeMap<String,Value>", format!("{other:?}")),
        }
    }
    Ok(())
}

pub fn run(ctx: &Ctx) {
    ctx.set_rule(
        "Generated: every i8/u8/i16/u16 value into Value and back (exhaustive); every Value::Int(n) for n within +-2^17 of every \
         limit of every integer type (and of 0) extracted as each of the 10 integer types (exhaustive windows: in range => the \
         number, otherwise the overflow error); boundary and random values for the wider types; floats by bit pattern (f64 exact, \
         f32 widened exactly); strings, decimals (mantissa and scale), datetimes, durations, bools; every Value variant as the source \
         of every extraction (19 target types: wrong kind => type error carrying an equal value); lists and string-keyed maps of \
         length 0-6 with one non-convertible element (wrong kind, or right kind out of range) at each position (succeed iff every \
         element converts; conversions to and from Vec / HashMap / BTreeMap keep every element). Oracle: range arithmetic in i128 and \
         equality with the original. Non-trivial: n within 2 of a limit, a wrong-variant source, or a collection with a bad element.",
    );

    super::regressions::run(ctx, "C17", |j| replay(j));

    // exhaustive 8/16-bit round trips
    ctx.enumerate(
        "roundtrip-8-16-bit",
        2 * 256 + 2 * 65536,
        true,
        |i, acc| {
            let (t, n) = if i < 256 {
                ("i8", i as i128 - 128)
            } else if i < 512 {
                ("u8", i as i128 - 256)
            } else if i < 512 + 65536 {
                ("i16", i as i128 - 512 - 32768)
            } else {
                ("u16", i as i128 - 512 - 65536)
            };
            let (min, max) = range_of(t);
            acc.cell(&format!("rt:{t}"), n.abs_diff(min) <= 2 || n.abs_diff(max.unwrap()) <= 2);
            roundtrip_by_type(t, n)
        },
        |i| json!({"roundtrip_index": i}),
        "roundtrip",
    );

    // windows around every limit into every integer type
    let mut centers: Vec<i128> = vec![0];
    for t in INT_TYPES {
        let (min, max) = range_of(t);
        centers.push(min);
        if let Some(m) = max {
            centers.push(m);
        }
    }
    centers.push(i128::MAX);
    centers.sort();
    centers.dedup();
    let w: i128 = ctx.tier.pick(1 << 15, 1 << 17);
    let per_center = (2 * w + 1) as u64;
    let total = centers.len() as u64 * per_center * INT_TYPES.len() as u64;
    let decode = |i: u64| -> (&'static str, i128) {
        let t = INT_TYPES[(i % INT_TYPES.len() as u64) as usize];
        let r = i / INT_TYPES.len() as u64;
        let c = centers[(r / per_center) as usize];
        let off = (r % per_center) as i128 - w;
        (t, c.saturating_add(off))
    };
    ctx.enumerate(
        "limit-windows",
        total,
        true,
        |i, acc| {
            let (t, n) = decode(i);
            let (min, max) = range_of(t);
            let near = n.abs_diff(min) <= 2 || max.map(|m| n.abs_diff(m) <= 2).unwrap_or(false);
            acc.cell(&format!("win:{t}"), near);
            if near && i % 7 == 0 {
                acc.sample(&format!("win:{t}"), || format!("{t} from Int({n})"));
            }
            check_int_extract(t, n)?;
            let in_range = n >= min && max.map(|m| n <= m).unwrap_or(true);
            if in_range && t != "u128" {
                roundtrip_by_type(t, n)?;
            }
            Ok(())
        },
        |i| {
            let (t, n) = decode(i);
            json!({"extract": t, "n": n.to_string()})
        },
        "extract",
    );

    let nr = ctx.tier.pick(300_000u64, 5_000_000u64);
    ctx.random(
        "random-ints",
        nr,
        || gen::recipe(24),
        |bytes, acc| {
            let mut d = Dec::new(bytes);
            let n = gen::gen_int(&mut d);
            let t = *d.pick(&INT_TYPES);
            if let Some(acc) = acc {
                acc.case(&format!("rnd:{t}"), true, || format!("{t} from Int({n})"));
            }
            check_int_extract(t, n)?;
            if n >= 0 && n <= usize::MAX as i128 {
                roundtrip_by_type("usize", n)?;
            }
            Ok(())
        },
        |bytes| {
            let mut d = Dec::new(bytes);
            let n = gen::gen_int(&mut d);
            let t = *d.pick(&INT_TYPES);
            json!({"extract": t, "n": n.to_string()})
        },
        "extract",
    );

    // every variant as the source of every extraction + scalar round trips
    let mut pool = crate::pool::boundary();
    // strings that spell a value of another kind (a String stays the wrong kind for every other extraction), and
    // collections of many sizes (the error carries the whole offending value)
    for t in ["2015-07-30T03:26:13Z", "2015-07-30T03:26:13+02:00", "1", "-1", "1.5", "true", "none", "PT1S", "[i1]", "{}", "", "i1", "d1.5"] {
        pool.push(Value::String(t.to_string()));
    }
    // NaNs other than the default quiet one (sign, payload, signalling), and date-times that carry a leap-second
    // representation (nanosecond part >= 10^9) on an arbitrary second: all of them round-trip bit for bit
    for bits in [0xfff8_0000_0000_0000u64, 0x7ff8_0000_0000_0001, 0x7ff0_0000_0000_0001, 0xfff0_dead_beef_0001, 0x7fff_ffff_ffff_ffff] {
        pool.push(Value::Float(f64::from_bits(bits)));
    }
    {
        use chrono::Timelike;
        for (secs, nanos) in [(1_438_226_773i64, 1_500_000_000u32), (0, 1_000_000_000), (1_483_228_799, 1_999_999_999), (-1, 1_250_000_000), (86_400 * 365, 1_000_000_001)] {
            if let Some(d) = DateTime::<Utc>::from_timestamp(secs, 0).and_then(|d| d.with_nanosecond(nanos)) {
                pool.push(Value::DateTime(d));
            }
        }
    }
    // values of one kind shaped like the contents of another: lists of [key, value] pairs, maps keyed 0..n, singletons
    let pair = |k: &str, v: Value| Value::Vec(vec![Value::String(k.into()), v]);
    pool.push(Value::Vec(vec![pair("width", Value::Int(3)), pair("height", Value::Int(4))]));
    pool.push(Value::Vec(vec![pair("a", Value::String("x".into()))]));
    pool.push(Value::Vec(vec![pair("a", Value::Int(1)), pair("a", Value::Int(2))]));
    pool.push(Value::Map([("0".to_string(), Value::Int(1)), ("1".to_string(), Value::Int(2))].into_iter().collect()));
    pool.push(Value::Vec(vec![Value::Int(5)]));
    pool.push(Value::Vec(vec![Value::String("2015-07-30T03:26:13Z".into())]));
    pool.push(Value::Map([("secs".to_string(), Value::Int(1)), ("nanos".to_string(), Value::Int(0))].into_iter().collect()));
    for n in [1usize, 31, 32, 33, 64, 65, 255, 256, 257, 1000] {
        pool.push(Value::Vec((0..n as i128).map(Value::Int).collect()));
        pool.push(Value::Vec((0..n).map(|i| Value::String(format!("s{i}"))).collect()));
        pool.push(Value::Map((0..n).map(|i| (format!("k{i:04}"), Value::Int(i as i128))).collect()));
        pool.push(Value::Vec(vec![Value::Vec((0..n as i128).map(Value::Int).collect()), Value::Bool(true)]));
    }
    ctx.enumerate(
        "every-variant-every-extraction",
        pool.len() as u64,
        true,
        |i, acc| {
            if i == 0 {
                check_custom_elements()?;
            }
            let v = &pool[i as usize];
            acc.cell(&format!("kind:{}", type_name(v)), true);
            if i % 11 == 0 {
                acc.sample(&format!("kind:{}", type_name(v)), || show_value(v));
            }
            // (conversions into a Value are infallible by signature: a panic inside one is a violation, not a crash of the check)
            catch(|| {
                check_wrong_kind(v)?;
                check_value_collections(v)?;
                check_scalar_roundtrip(v)
            })
            .unwrap_or_else(|p| Err(Issue::new("convert:panic", format!("a conversion of {} panicked: {p}", show_value(v)))))
        },
        |i| json!({"value": value_to_json(&pool[i as usize])}),
        "value",
    );
    let nv = ctx.tier.pick(200_000u64, 3_000_000u64);
    ctx.random(
        "random-values",
        nv,
        || gen::recipe(80),
        |bytes, acc| {
            let v = gen::gen_value(&mut Dec::new(bytes), 2);
            if let Some(acc) = acc {
                acc.case(&format!("rv:{}", type_name(&v)), true, || show_value(&v));
            }
            catch(|| {
                check_wrong_kind(&v)?;
                check_value_collections(&v)?;
                check_scalar_roundtrip(&v)
            })
            .unwrap_or_else(|p| Err(Issue::new("convert:panic", format!("a conversion of {} panicked: {p}", show_value(&v)))))
        },
        |bytes| json!({"value": value_to_json(&gen::gen_value(&mut Dec::new(bytes), 2))}),
        "value",
    );

    // lists and maps that become a Value through the serializer, after conversions that were refused
    let hist: Vec<(usize, u8)> = [0usize, 1, 2, 50, 400, 1100, 5000].iter().flat_map(|&n| (0..4u8).map(move |k| (n, k))).collect();
    ctx.enumerate(
        "through-the-serializer-and-back",
        hist.len() as u64,
        true,
        |i, acc| {
            let (n, k) = hist[i as usize];
            acc.cell(if n == 0 { "serializer:fresh" } else { "serializer:after-refusals" }, true);
            acc.sample("serializer", || format!("{n} refused conversions of kind {k}, then a list, a nested list and two maps"));
            catch(|| check_through_serializer(n, k)).unwrap_or_else(|p| Err(Issue::new("convert:panic", format!("a conversion through the serializer panicked: {p}"))))
        },
        |i| json!({"through_serializer": [hist[i as usize].0, hist[i as usize].1]}),
        "serializer-history",
    );

    // collections with a bad element at each position
    let mut colls = vec![];
    for len in 0..=6usize {
        for bad in 0..=len {
            for kind in 0..4u8 {
                colls.push(CollCase {
                    items: (0..len).map(|i| (i as i64 - 2) * 1_000_000_007).collect(),
                    bad: if bad == len { None } else { Some(bad) },
                    bad_kind: kind,
                });
            }
        }
    }
    ctx.enumerate(
        "collections",
        colls.len() as u64,
        true,
        |i, acc| {
            let c = &colls[i as usize];
            acc.cell(if c.bad.is_some() { "coll:bad-element" } else { "coll:all-good" }, c.bad.is_some());
            if i % 9 == 0 {
                acc.sample("coll", || format!("{c:?}"));
            }
            check_collections(c)
        },
        |i| json!({"items": colls[i as usize].items, "bad": colls[i as usize].bad, "bad_kind": colls[i as usize].bad_kind}),
        "collection",
    );
}

/// Lists and maps of Rust values turned into a Value through the serializer (the way `RuleSet::evaluate` takes its
/// input) and extracted again, after `rejected` conversions of kind `kind` were refused on the same thread: the round
/// trip gives back the original however many conversions failed before.
fn check_through_serializer(rejected: usize, kind: u8) -> Verdict {
    use reval::value::ser::ValueSerializer;
    use serde::Serialize;
    let what = format!("after {rejected} refused conversions of kind {kind}");
    for k in 0..rejected {
        let refused = match (kind + (k % 2) as u8) % 4 {
            0 => vec![vec![vec![u128::MAX]]].serialize(ValueSerializer).is_err(),
            1 => [(vec![1u8], 1u8)].into_iter().collect::<BTreeMap<Vec<u8>, u8>>().serialize(ValueSerializer).is_err(),
            2 => [("k".to_string(), vec![Some(u128::MAX)])].into_iter().collect::<BTreeMap<String, Vec<Option<u128>>>>().serialize(ValueSerializer).is_err(),
            _ => (1u8, ("x", [u128::MAX, 0])).serialize(ValueSerializer).is_err(),
        };
        if !refused {
            return Err(Issue::new("convert:serializer:accepts-out-of-range", format!("a conversion that must be refused (kind {kind}) was accepted, {what}")));
        }
    }
    let list: Vec<i64> = vec![i64::MIN, -1, 0, 1, i64::MAX];
    let nested: Vec<Vec<String>> = vec![vec!["a".into(), "".into()], vec![], vec!["é".into()]];
    let map: BTreeMap<String, i32> = [("a".to_string(), i32::MIN), ("".to_string(), 0), ("z".to_string(), i32::MAX)].into_iter().collect();
    let map_of_lists: BTreeMap<String, Vec<u16>> = [("k".to_string(), vec![0, u16::MAX]), ("e".to_string(), vec![])].into_iter().collect();
    let fail = |t: &str, why: String| Err(Issue::new(format!("convert:serializer:{t}"), format!("{t} turned into a Value by the serializer and extracted again, {what}: {why}")));
    match list.serialize(ValueSerializer).map(Vec::<i64>::try_from) {
        Ok(Ok(back)) if back == list => {}
        other => return fail("Vec<i64>", format!("{other:?}")),
    }
    match nested.serialize(ValueSerializer).map(Vec::<Vec<String>>::try_from) {
        Ok(Ok(back)) if back == nested => {}
        other => return fail("Vec<Vec<String>>", format!("{other:?}")),
    }
    match map.serialize(ValueSerializer).map(BTreeMap::<String, i32>::try_from) {
        Ok(Ok(back)) if back == map => {}
        other => return fail("BTreeMap<String,i32>", format!("{other:?}")),
    }
    match map_of_lists.serialize(ValueSerializer).map(HashMap::<String, Vec<u16>>::try_from) {
        Ok(Ok(back)) if back.iter().collect::<BTreeMap<_, _>>() == map_of_lists.iter().collect::<BTreeMap<_, _>>() => {}
        other => return fail("map of lists", format!("{other:?}")),
    }
    Ok(())
}

pub fn replay(j: &serde_json::Value) -> Option<Verdict> {
    if let Some(a) = j.get("through_serializer").and_then(|a| a.as_array()) {
        return Some(check_through_serializer(a.first()?.as_u64()? as usize, a.get(1)?.as_u64()? as u8));
    }
    if let Some(t) = j.get("extract").and_then(|x| x.as_str()) {
        let n: i128 = j.get("n")?.as_str()?.parse().ok()?;
        let t = INT_TYPES.iter().find(|x| **x == t)?;
        return Some(check_int_extract(t, n));
    }
    if let Some(v) = j.get("value") {
        let v = value_from_json(v)?;
        return Some(check_wrong_kind(&v).and_then(|_| check_scalar_roundtrip(&v)));
    }
    if let Some(items) = j.get("items").and_then(|x| x.as_array()) {
        let c = CollCase {
            items: items.iter().filter_map(|x| x.as_i64()).collect(),
            bad: j.get("bad").and_then(|b| b.as_u64()).map(|b| b as usize),
            bad_kind: j.get("bad_kind")?.as_u64()? as u8,
        };
        return Some(check_collections(&c));
    }
    if let Some(i) = j.get("roundtrip_index").and_then(|x| x.as_u64()) {
        let (t, n) = if i < 256 {
            ("i8", i as i128 - 128)
        } else if i < 512 {
            ("u8", i as i128 - 256)
        } else if i < 512 + 65536 {
            ("i16", i as i128 - 512 - 32768)
        } else {
            ("u16", i as i128 - 512 - 65536)
        };
        return Some(roundtrip_by_type(t, n));
    }
    None
}
