//! Replays the committed regression cases of a property (shrunk failing cases of earlier findings)
//! before any generation, bypassing the generators.

use crate::core::*;
use serde_json::Value as J;
use std::time::Instant;

pub fn run(ctx: &Ctx, prop: &str, f: impl Fn(&J) -> Option<Verdict>) {
    let t0 = Instant::now();
    let dir = format!("{}/regressions/{}", ctx.verif_dir, prop);
    let mut files: Vec<_> = match std::fs::read_dir(&dir) {
        Ok(rd) => rd.filter_map(|e| e.ok()).map(|e| e.path()).filter(|p| p.extension().map(|x| x == "json").unwrap_or(false)).collect(),
        Err(_) => vec![],
    };
    files.sort();
    let mut acc = Acc::default();
    for p in files {
        let text = match std::fs::read_to_string(&p) {
            Ok(t) => t,
            Err(_) => continue,
        };
        let j: J = match serde_json::from_str(&text) {
            Ok(j) => j,
            Err(_) => {
                eprintln!("regression file {} is not JSON", p.display());
                continue;
            }
        };
        let case = j.get("case").cloned().unwrap_or(j.clone());
        match f(&case) {
            None => eprintln!("regression file {} could not be decoded", p.display()),
            Some(v) => {
                acc.case("regression", true, || p.file_name().unwrap().to_string_lossy().to_string());
                if let Err(issue) = v {
                    if let Err(issue) = ctx.triage(issue, &|| case.to_string()) {
                        ctx.violation("regression", case.clone(), &issue);
                    }
                }
            }
        }
    }
    ctx.finish_phase("regressions", acc, false, t0);
}
