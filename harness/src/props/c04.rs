//! C04 — None operands propagate through operators instead of failing.
//! Oracle: the statement's list as a table of its own (independent of the reference evaluator),
//! plus reference-evaluator comparison for trees in which None arises from a lookup deep inside.

use super::evalcommon::*;
use crate::core::*;
use crate::data::*;
use crate::gen::{self, Dec, Ty};
use crate::model::eval::{self as me};
use crate::pool;
use reval::expr::Index;
use reval::prelude::*;

#[derive(Debug, Clone, PartialEq)]
enum Want {
    None,
    Bool(bool),
    TypeError,
    /// list membership of a None item: ordinary structural search
    ListHasNone(bool),
}

/// expected result of `kind` with None at `pos` (0 = left/only, 1 = right, 2 = both) and `other`
fn expected(kind: &str, pos: u8, other: &Value) -> Want {
    let pos = if matches!(other, Value::None) { 2 } else { pos };
    match kind {
        "is_some" => Want::Bool(false),
        "is_none" => Want::Bool(true),
        k if UNARY_KINDS.contains(&k) => Want::None,
        "add" | "sub" | "mult" | "div" | "rem" | "bitand" | "bitor" | "bitxor" => Want::None,
        "gt" | "gte" | "lt" | "lte" => Want::Bool(false),
        "eq" => Want::Bool(false),
        "neq" => Want::Bool(true),
        "contains" => match pos {
            0 | 2 => Want::Bool(false),
            _ => match other {
                Value::Vec(items) => Want::ListHasNone(items.iter().any(|x| matches!(x, Value::None))),
                _ => Want::TypeError,
            },
        },
        "and" => match pos {
            0 | 2 => Want::TypeError,
            _ => match other {
                Value::Bool(false) => Want::Bool(false),
                _ => Want::TypeError, // true and None -> None is not a Bool; non-Bool left -> type error
            },
        },
        "or" => match pos {
            0 | 2 => Want::TypeError,
            _ => match other {
                Value::Bool(true) => Want::Bool(true),
                _ => Want::TypeError,
            },
        },
        _ => unreachable!("kind {kind}"),
    }
}

fn satisfied(want: &Want, r: &Result<Value, reval::Error>) -> bool {
    match (want, r) {
        (Want::None, Ok(Value::None)) => true,
        (Want::Bool(b), Ok(Value::Bool(x))) => b == x,
        (Want::ListHasNone(b), Ok(Value::Bool(x))) => b == x,
        (Want::TypeError, Err(reval::Error::InvalidType)) => true,
        _ => false,
    }
}

#[derive(Clone, Debug)]
struct NoneCell {
    kind: String,
    pos: u8,
    other: Value,
    /// the non-None operand is replaced by an expression that fails when evaluated (eq/neq right side)
    failing_right: bool,
}

impl NoneCell {
    fn expr(&self) -> Expr {
        self.expr_in_form(0)
    }
    /// form 0: operands written as literals; 1: as symbols `:sn` / `:so`; 2: as input fields `vn` / `vo`
    fn expr_in_form(&self, form: u8) -> Expr {
        let none = match form {
            0 => Expr::Value(Value::None),
            1 => Expr::symbol("sn"),
            _ => Expr::reff("vn"),
        };
        let other = if self.failing_right {
            Expr::div(Expr::value(1), Expr::value(0))
        } else {
            match form {
                0 => Expr::Value(self.other.clone()),
                1 => Expr::symbol("so"),
                _ => Expr::reff("vo"),
            }
        };
        match self.kind.as_str() {
            "index-field" => Expr::index(none, Index::Map("a".into())),
            "index-at" => Expr::index(none, Index::Vec(0)),
            "if" => Expr::iif(none, Expr::value(1), Expr::value(2)),
            k if UNARY_KINDS.contains(&k) => mk1(k, none),
            k => match self.pos {
                0 => mk2(k, none, other),
                1 => mk2(k, other, none),
                _ => mk2(k, none.clone(), none),
            },
        }
    }
    fn case(&self) -> EvalCase {
        EvalCase::plain(self.expr(), Value::None)
    }
    fn case_in_form(&self, form: u8) -> EvalCase {
        match form {
            0 => self.case(),
            1 => EvalCase {
                expr: self.expr_in_form(1),
                facts: Value::None,
                fns: Default::default(),
                symbols: [("sn".to_string(), Value::None), ("so".to_string(), self.other.clone())].into_iter().collect(),
            },
            _ => EvalCase::plain(self.expr_in_form(2), pool::map(&[("vn", Value::None), ("vo", self.other.clone())])),
        }
    }
    fn to_json(&self) -> serde_json::Value {
        serde_json::json!({"kind": self.kind, "pos": self.pos, "other": value_to_json(&self.other),
            "failing_right": self.failing_right, "text": show_expr(&self.expr())})
    }
    fn from_json(j: &serde_json::Value) -> Option<Self> {
        Some(NoneCell {
            kind: j.get("kind")?.as_str()?.to_string(),
            pos: j.get("pos")?.as_u64()? as u8,
            other: value_from_json(j.get("other")?)?,
            failing_right: j.get("failing_right")?.as_bool()?,
        })
    }
}

fn check_cell(c: &NoneCell) -> Verdict {
    // the same cell with its operands written as literals, supplied by symbols of a ruleset, and read from the input
    for form in 0..3u8 {
        check_cell_form(c, form)?;
    }
    Ok(())
}

fn check_cell_form(c: &NoneCell, form: u8) -> Verdict {
    let case = c.case_in_form(form);
    let r = match observe(&case).actual {
        Actual::Done(r) => r,
        Actual::Panic(p) => return Err(Issue::new("none:panic", format!("panic {p}; case {}", case.render()))),
        Actual::Pending => return Err(Issue::new("none:pending", format!("pending; case {}", case.render()))),
    };
    let want = match c.kind.as_str() {
        "index-field" | "index-at" => Want::None,
        "if" => Want::TypeError,
        "eq" | "neq" if c.failing_right => {
            // left None decides without evaluating the (failing) right operand
            if c.pos == 0 {
                Want::Bool(c.kind == "neq")
            } else {
                return Ok(());
            }
        }
        k => expected(k, c.pos, &c.other),
    };
    if satisfied(&want, &r) {
        Ok(())
    } else {
        Err(Issue::new(
            format!("none:{}:pos{}:{}{}", c.kind, c.pos, type_name(&c.other), ["", ":via-symbols", ":via-input-fields"][form as usize]),
            format!(
                "None rule violated: expected {want:?}, implementation returned {}; case {}{}",
                me::show_actual(&r),
                case.render(),
                if form == 1 { format!(" with symbols sn = none, so = {}", show_value(&c.other)) } else { String::new() }
            ),
        ))
    }
}

/// typed tree whose leaves are replaced by lookups that miss (None arises deep inside)
fn deep_case(bytes: &[u8]) -> (EvalCase, usize) {
    let mut d = Dec::new(bytes);
    let cfg = gen::ExprCfg { typed_weight: 7, fn_names: vec!["nofn".into()], sym_names: vec!["nosym".into()] };
    let want = *d.pick(&[Ty::Int, Ty::Float, Ty::Dec, Ty::Bool, Ty::Str, Ty::DateTime, Ty::Duration, Ty::Any]);
    let depth = 1 + d.below(5) as u32;
    let e = gen::gen_expr(&mut d, want, depth, &cfg);
    let mut planted = 0;
    let e = plant(&e, &mut d, &mut planted);
    let facts = match gen::gen_facts(&mut d) {
        Value::Map(m) => Value::Map(m),
        _ => pool::map(&[("vm", pool::map(&[("a", Value::Int(1))])), ("vl", Value::Vec(vec![Value::Int(1)]))]),
    };
    (EvalCase::plain(e, facts), planted)
}

fn missing_lookup(d: &mut Dec) -> Expr {
    match d.below(9) {
        // a None that is present in the data (not a missing key), then further steps
        5 => Expr::index(Expr::reff("vn"), Index::Map("x".into())),
        6 => Expr::index(Expr::index(Expr::Value(Value::Vec(vec![Value::None])), Index::Vec(0)), Index::Map("x".into())),
        7 => Expr::index(Expr::index(Expr::index(Expr::reff("vn"), Index::Vec(0)), Index::Map("y".into())), Index::Vec(2)),
        8 => Expr::index(
            Expr::index(Expr::Map([("a".to_string(), Expr::Value(Value::None))].into_iter().collect()), Index::Map("a".into())),
            Index::Vec(1),
        ),
        0 => Expr::index(Expr::reff("vm"), Index::Map("nokey".into())),
        1 => Expr::index(Expr::reff("vl"), Index::Vec(99)),
        2 => Expr::index(Expr::index(Expr::reff("vm"), Index::Map("nokey".into())), Index::Map("x".into())),
        3 => Expr::index(Expr::index(Expr::reff("vl"), Index::Vec(99)), Index::Vec(0)),
        _ => Expr::reff("vn"),
    }
}

fn plant(e: &Expr, d: &mut Dec, planted: &mut usize) -> Expr {
    match e {
        Expr::Value(_) | Expr::Reference(_) | Expr::Symbol(_) => {
            if d.below(4) == 0 {
                *planted += 1;
                missing_lookup(d)
            } else {
                e.clone()
            }
        }
        _ => {
            let kids: Vec<Expr> = children(e).iter().map(|c| plant(c, d, planted)).collect();
            rebuild(e, kids)
        }
    }
}

// ---- conditions: None-valued and None-rule-valued conditions of if / and / or, through every evaluation path -------

#[derive(Clone, Copy, Debug, PartialEq)]
enum CondWant {
    /// the condition evaluates to None: if / and / or reject it
    Rejected,
    /// the None rules make the condition this boolean
    Is(bool),
}

fn conditions() -> Vec<(&'static str, Expr, CondWant)> {
    use CondWant::*;
    // (the crate's own constructor of the None literal)
    let none = || Expr::none_value();
    let vn = || Expr::reff("vn");
    let miss = || Expr::index(Expr::reff("vm"), Index::Map("nokey".into()));
    let i1 = || Expr::value(1);
    vec![
        ("none", none(), Rejected),
        ("!none", Expr::not(none()), Rejected),
        ("!vn", Expr::not(vn()), Rejected),
        ("!vm.nokey", Expr::not(miss()), Rejected),
        ("vm.nokey", miss(), Rejected),
        ("-none", Expr::neg(none()), Rejected),
        ("none + i1", Expr::add(none(), i1()), Rejected),
        ("int(none)", Expr::int(none()), Rejected),
        ("!(!none)", Expr::not(Expr::not(none())), Rejected),
        ("none & true", Expr::bitwise_and(none(), Expr::value(true)), Rejected),
        ("none == none", Expr::eq(none(), none()), Is(false)),
        ("none != none", Expr::neq(none(), none()), Is(true)),
        ("vn == vn", Expr::eq(vn(), vn()), Is(false)),
        ("none == vn", Expr::eq(none(), vn()), Is(false)),
        ("vm.nokey != vm.nokey", Expr::neq(miss(), miss()), Is(true)),
        ("!(none == none)", Expr::not(Expr::eq(none(), none())), Is(true)),
        ("none < i1", Expr::lt(none(), i1()), Is(false)),
        ("!(none >= i1)", Expr::not(Expr::gte(none(), i1())), Is(true)),
        ("is_none(none)", mk1("is_none", none()), Is(true)),
        ("is_some(vn)", mk1("is_some", vn()), Is(false)),
        ("[none] contains none", Expr::contains(Expr::Vec(vec![none()]), none()), Is(true)),
        ("none contains i1", Expr::contains(none(), i1()), Is(false)),
        ("none == none and true", Expr::and(Expr::eq(none(), none()), Expr::value(true)), Is(false)),
        ("none != none or false", Expr::or(Expr::neq(none(), none()), Expr::value(false)), Is(true)),
        ("(none == none) == false", Expr::eq(Expr::eq(none(), none()), Expr::value(false)), Is(true)),
        // both sides under the same conversion: none on either side still equals nothing
        ("uppercase(none) == uppercase(none)", Expr::eq(Expr::uppercase(none()), Expr::uppercase(none())), Is(false)),
        ("lowercase(vn) != lowercase(vn)", Expr::neq(Expr::lowercase(vn()), Expr::lowercase(vn())), Is(true)),
        ("uppercase(none) == uppercase(i3)", Expr::eq(Expr::uppercase(none()), Expr::uppercase(Expr::value(3))), Is(false)),
        ("lowercase(vm.nokey) == lowercase(\"x\")", Expr::eq(Expr::lowercase(miss()), Expr::lowercase(Expr::value("x".to_string()))), Is(false)),
        ("int(none) == int(none)", Expr::eq(Expr::int(none()), Expr::int(none())), Is(false)),
        ("trim(vn) != trim(\"x\")", Expr::neq(Expr::trim(vn()), Expr::trim(Expr::value("x".to_string()))), Is(true)),
    ]
}

/// (text template with {c}, builder, expected value given the condition's boolean)
type Frame = (&'static str, fn(Expr) -> Expr, fn(bool) -> Value);

fn frames() -> Vec<Frame> {
    vec![
        ("if {c} then true else false", |c| Expr::iif(c, Expr::value(true), Expr::value(false)), |b| Value::Bool(b)),
        ("if {c} then false else true", |c| Expr::iif(c, Expr::value(false), Expr::value(true)), |b| Value::Bool(!b)),
        ("if {c} then i1 else i2", |c| Expr::iif(c, Expr::value(1), Expr::value(2)), |b| Value::Int(if b { 1 } else { 2 })),
        (
            "if {c} then \"equal\" else \"different\"",
            |c| Expr::iif(c, Expr::value("equal"), Expr::value("different")),
            |b| Value::String(if b { "equal" } else { "different" }.into()),
        ),
        ("if {c} then none else true", |c| Expr::iif(c, Expr::Value(Value::None), Expr::value(true)), |b| if b { Value::None } else { Value::Bool(true) }),
        ("({c}) and true", |c| Expr::and(c, Expr::value(true)), |b| Value::Bool(b)),
        ("true and ({c})", |c| Expr::and(Expr::value(true), c), |b| Value::Bool(b)),
        ("({c}) or false", |c| Expr::or(c, Expr::value(false)), |b| Value::Bool(b)),
        ("false or ({c})", |c| Expr::or(Expr::value(false), c), |b| Value::Bool(b)),
        ("if if {c} then true else false then i1 else i2", |c| Expr::iif(Expr::iif(c, Expr::value(true), Expr::value(false)), Expr::value(1), Expr::value(2)), |b| Value::Int(if b { 1 } else { 2 })),
    ]
}

fn condition_facts() -> Value {
    pool::map(&[("vn", Value::None), ("vm", pool::map(&[("a", Value::Int(1))]))])
}

fn check_condition(ci: usize, fi: usize) -> Verdict {
    let (ctext, cexpr, want) = conditions().swap_remove(ci);
    let (ftext, build, value_of) = frames().swap_remove(fi);
    let text = ftext.replace("{c}", ctext);
    let built = build(cexpr);
    let parsed = match crate::core::parse_guarded(&text) {
        Some(Ok(e)) => e,
        Some(Err(e)) => return Err(Issue::new("none-cond:text-does-not-parse", format!("{text:?} does not parse: {e}"))),
        None => return Err(Issue::new("none-cond:panic", format!("Expr::parse panicked on {text:?}"))),
    };
    let facts = condition_facts();
    for (via, e) in [("constructors", built), ("text", parsed)] {
        let case = EvalCase::plain(e, facts.clone());
        for path in ["Expr::evaluate", "RuleSet::evaluate_value"] {
            let actual = if path == "Expr::evaluate" { observe(&case).actual } else { observe_via_ruleset(&case) };
            let r = match actual {
                Actual::Done(r) => r,
                Actual::Panic(p) => return Err(Issue::new("none-cond:panic", format!("panic {p}; {text}"))),
                Actual::Pending => return Err(Issue::new("none-cond:pending", format!("pending; {text}"))),
            };
            let ok = match (want, &r) {
                (CondWant::Rejected, Err(reval::Error::InvalidType)) => true,
                (CondWant::Is(b), Ok(v)) => same_value(v, &value_of(b), true),
                _ => false,
            };
            if !ok {
                return Err(Issue::new(
                    format!("none-cond:{}:{via}:{path}", if want == CondWant::Rejected { "none-condition-not-rejected" } else { "none-rule-value-as-condition" }),
                    format!(
                        "`{text}` ({via}, {path}) on {}: the condition is {}, so the result must be {}; implementation returned {}",
                        show_value(&facts),
                        match want {
                            CondWant::Rejected => "None".to_string(),
                            CondWant::Is(b) => b.to_string(),
                        },
                        match want {
                            CondWant::Rejected => "a type error".to_string(),
                            CondWant::Is(b) => show_value(&value_of(b)),
                        },
                        me::show_actual(&r)
                    ),
                ));
            }
        }
    }
    Ok(())
}

// ---- the input as a whole is None ---------------------------------------------------------------------------------

fn none_input_exprs() -> Vec<Expr> {
    let facts = || Expr::reff("facts");
    let fx = || Expr::index(facts(), Index::Map("x".into()));
    vec![
        facts(),
        fx(),
        Expr::index(fx(), Index::Map("y".into())),
        Expr::index(facts(), Index::Vec(0)),
        Expr::index(Expr::index(facts(), Index::Vec(0)), Index::Map("x".into())),
        Expr::not(fx()),
        Expr::add(fx(), Expr::value(1)),
        Expr::eq(fx(), Expr::value(1)),
        Expr::neq(fx(), fx()),
        Expr::lt(fx(), Expr::value(1)),
        mk1("is_none", fx()),
        mk1("is_some", facts()),
        Expr::contains(Expr::Vec(vec![Expr::value(1)]), fx()),
        Expr::contains(fx(), Expr::value(1)),
        Expr::contains(facts(), Expr::value("x".to_string())),
        Expr::iif(mk1("is_none", fx()), Expr::value(1), Expr::value(2)),
        Expr::iif(fx(), Expr::value(1), Expr::value(2)),
        Expr::Vec(vec![fx(), facts()]),
        Expr::uppercase(fx()),
        Expr::int(facts()),
    ]
}

/// a serialized struct whose optional / unit fields are none: the fields exist and hold none
#[derive(serde::Serialize)]
struct Person {
    name: &'static str,
    age: Option<i64>,
    unit: (),
    nested: Inner,
}

#[derive(serde::Serialize)]
struct Inner {
    score: Option<f64>,
}

fn struct_input_exprs() -> Vec<Expr> {
    let age = || Expr::reff("age");
    let score = || Expr::index(Expr::reff("nested"), Index::Map("score".into()));
    vec![
        age(),
        Expr::add(age(), Expr::value(1)),
        Expr::neg(age()),
        Expr::float(age()),
        Expr::gte(age(), Expr::value(21)),
        Expr::eq(age(), Expr::value(21)),
        Expr::neq(age(), Expr::value(21)),
        mk1("is_none", age()),
        Expr::reff("unit"),
        Expr::add(Expr::reff("unit"), Expr::value(1)),
        score(),
        Expr::mult(score(), Expr::Value(Value::Float(2.0))),
        Expr::contains(Expr::reff("facts"), Expr::value("age".to_string())),
        Expr::iif(mk1("is_none", age()), Expr::reff("name"), Expr::value("known".to_string())),
    ]
}

fn check_struct_input(i: usize) -> Verdict {
    let e = struct_input_exprs().swap_remove(i);
    let person = Person { name: "Ann", age: None, unit: (), nested: Inner { score: None } };
    let as_value = pool::map(&[("name", Value::String("Ann".into())), ("age", Value::None), ("unit", Value::None), ("nested", pool::map(&[("score", Value::None)]))]);
    let want = me::eval_plain(&e, &as_value);
    let spec = crate::probe::SetSpec { rules: vec![("r".into(), e.clone())], fns: Default::default(), symbols: Default::default(), suspend: 0 };
    let built = crate::probe::build(&spec, false);
    let r = catch(|| block_on(built.ruleset.evaluate(&person)).and_then(|mut o| o.pop().expect("one outcome").value))
        .map_err(|p| Issue::new("none-field:panic", format!("RuleSet::evaluate(&struct) panicked on {}: {p}", show_expr(&e))))?;
    match me::compare(&r, &want) {
        None => Ok(()),
        Some(d) => Err(Issue::new(
            format!("none-field:{}", root_sig(&e)),
            format!("{} on a serialized struct whose fields age / unit / nested.score are none: implementation {}, reference {} ({d:?})", show_expr(&e), me::show_actual(&r), me::show_model(&want)),
        )),
    }
}

/// none as the (repeated, cached) answer of a user function behaves like any other none
fn check_none_answers() -> Verdict {
    let mut fns = std::collections::BTreeMap::new();
    fns.insert("fa".to_string(), me::FnSpec { cacheable: true, fail_on: vec![], fail_first: 0, uncacheable_after: 0 });
    fns.insert("fb".to_string(), me::FnSpec { cacheable: false, fail_on: vec![], fail_first: 0, uncacheable_after: 0 });
    let ans = |f: &str| Expr::func(f, Expr::value("none".to_string()));
    for f in ["fa", "fb"] {
        let e = Expr::Vec(vec![
            Expr::index(ans(f), Index::Map("a".into())),
            Expr::index(ans(f), Index::Map("a".into())),
            Expr::index(ans(f), Index::Vec(0)),
            Expr::index(Expr::index(ans(f), Index::Vec(0)), Index::Map("x".into())),
            Expr::add(ans(f), Expr::value(1)),
            Expr::gt(ans(f), Expr::value(1)),
            Expr::eq(ans(f), ans(f)),
            Expr::neq(ans(f), ans(f)),
            Expr::contains(ans(f), Expr::value(1)),
            mk1("is_none", ans(f)),
            Expr::uppercase(ans(f)),
            Expr::not(ans(f)),
        ]);
        let case = EvalCase { expr: e, facts: Value::None, fns: fns.clone(), symbols: Default::default() };
        check_deep(&case).map_err(|i| Issue::new(i.sig.replace("none-tree:", "none-answer:"), i.msg))?;
    }
    Ok(())
}

fn check_none_input(i: usize) -> Verdict {
    let e = none_input_exprs().swap_remove(i);
    let want = me::eval_plain(&e, &Value::None);
    let spec = crate::probe::SetSpec { rules: vec![("r".into(), e.clone())], fns: Default::default(), symbols: Default::default(), suspend: 0 };
    let built = crate::probe::build(&spec, false);
    let one = |r: Result<Vec<reval::ruleset::Outcome>, reval::Error>| -> Result<Value, reval::Error> { r.and_then(|mut o| o.pop().expect("one outcome").value) };
    let runs: Vec<(&str, Result<Result<Value, reval::Error>, String>)> = vec![
        ("Expr::evaluate(&Value::None)", catch(|| block_on(e.evaluate(&Value::None)))),
        ("RuleSet::evaluate_value(&Value::None)", catch(|| one(block_on(built.ruleset.evaluate_value(&Value::None))))),
        ("RuleSet::evaluate(&())", catch(|| one(block_on(built.ruleset.evaluate(&()))))),
        ("RuleSet::evaluate(&None::<u8>)", catch(|| one(block_on(built.ruleset.evaluate(&None::<u8>))))),
    ];
    for (path, r) in runs {
        let r = r.map_err(|p| Issue::new("none-input:panic", format!("{path} panicked on {}: {p}", show_expr(&e))))?;
        if let Some(d) = me::compare(&r, &want) {
            return Err(Issue::new(
                format!("none-input:{}", root_sig(&e)),
                format!("{} with an input that is None as a whole, through {path}: implementation {}, reference {} ({d:?})", show_expr(&e), me::show_actual(&r), me::show_model(&want)),
            ));
        }
    }
    Ok(())
}

/// A tree of `and` / `or` / `!` / `if` over atoms that all speak about ONE subject (a field, a symbol or a path that is
/// None, missing, or a plain value): comparisons of the subject with other operands in both orders, `some` / `none` of it,
/// membership tests with it on either side, conversions, arithmetic, a step into a list literal holding it. Shapes that an
/// implementation may special-case (`x == a or x == b`, `some(x) and x != a`, `a - -x`, `[x, a].0`, `x in :list`) arise by
/// construction; the oracle is the reference evaluator.
pub(crate) fn subject_case(bytes: &[u8]) -> EvalCase {
    let mut d = Dec::new(bytes);
    let facts = pool::map(&[
        ("vn", Value::None),
        ("wn", Value::None),
        ("vi", Value::Int(5)),
        ("vs", Value::String("W".into())),
        ("vl", Value::Vec(vec![Value::Int(5), Value::None, Value::String("W".into())])),
        ("vm", pool::map(&[("a", Value::Int(5)), ("n", Value::None)])),
        ("vd", pool::dt(1_700_000_000, 0)),
        ("vu", pool::du(90, 0)),
    ]);
    let mut symbols = std::collections::BTreeMap::new();
    symbols.insert("sn".to_string(), Value::None);
    symbols.insert("si".to_string(), Value::Int(5));
    symbols.insert("sl".to_string(), Value::Vec(vec![Value::Int(5), Value::None]));
    let mut fns = std::collections::BTreeMap::new();
    fns.insert("fa".to_string(), me::FnSpec { cacheable: true, fail_on: vec![], fail_first: 0, uncacheable_after: 0 });
    let idx = |e: Expr, k: &str| Expr::index(e, Index::Map(k.into()));
    let subjects: Vec<Expr> = vec![
        Expr::reff("vn"),
        Expr::reff("vi"),
        Expr::reff("vs"),
        Expr::symbol("sn"),
        Expr::symbol("si"),
        idx(Expr::reff("vm"), "n"),
        idx(Expr::reff("vm"), "a"),
        idx(Expr::reff("vm"), "nokey"),
        Expr::index(Expr::reff("vl"), Index::Vec(1)),
        Expr::index(Expr::reff("vl"), Index::Vec(9)),
        Expr::index(Expr::symbol("sl"), Index::Vec(1)),
        Expr::reff("vd"),
        Expr::reff("vu"),
        Expr::reff("vl"),
        Expr::symbol("sl"),
    ];
    let x = subjects[d.below(subjects.len())].clone();
    fn operand(d: &mut Dec, subjects: &[Expr]) -> Expr {
        match d.below(12) {
            0..=4 => subjects[d.below(subjects.len())].clone(),
            5 => Expr::value(Value::None),
            6 => Expr::value(5),
            7 => Expr::value("W".to_string()),
            8 => Expr::value(true),
            9 => Expr::Vec(vec![Expr::value(5), Expr::value(Value::None)]),
            10 => Expr::func("fa", Expr::value(5)),
            _ => Expr::Value(pool::du(90, 0)),
        }
    }
    fn atom(d: &mut Dec, x: &Expr, subjects: &[Expr]) -> Expr {
        let a = operand(d, subjects);
        let cmps: [fn(Expr, Expr) -> Expr; 6] = [Expr::eq, Expr::neq, Expr::gt, Expr::gte, Expr::lt, Expr::lte];
        match d.below(16) {
            0..=5 => {
                let c = cmps[d.below(6)];
                if d.bool() {
                    c(x.clone(), a)
                } else {
                    c(a, x.clone())
                }
            }
            6 => Expr::some(x.clone()),
            7 => Expr::none(x.clone()),
            8 => Expr::contains(Expr::Vec(vec![a, operand(d, subjects)]), x.clone()),
            9 => Expr::contains(x.clone(), a),
            10 => Expr::eq(Expr::int(x.clone()), a),
            11 => Expr::eq(Expr::sub(a, Expr::neg(x.clone())), Expr::value(10)),
            12 => Expr::eq(Expr::add(x.clone(), a), Expr::value(10)),
            13 => Expr::some(Expr::index(Expr::Vec(vec![x.clone(), a]), Index::Vec(d.below(3)))),
            14 => Expr::eq(Expr::func("fa", x.clone()), Expr::func("fa", a)),
            _ => Expr::gt(Expr::sub(x.clone(), a), Expr::value(0)),
        }
    }
    fn tree(d: &mut Dec, x: &Expr, subjects: &[Expr], depth: u32) -> Expr {
        if depth == 0 {
            return atom(d, x, subjects);
        }
        match d.below(8) {
            0 | 1 => Expr::and(tree(d, x, subjects, depth - 1), tree(d, x, subjects, depth - 1)),
            2 | 3 => Expr::or(tree(d, x, subjects, depth - 1), tree(d, x, subjects, depth - 1)),
            4 => Expr::not(tree(d, x, subjects, depth - 1)),
            5 => Expr::iif(tree(d, x, subjects, depth - 1), tree(d, x, subjects, depth - 1), tree(d, x, subjects, depth - 1)),
            _ => atom(d, x, subjects),
        }
    }
    let depth = 1 + d.below(3) as u32;
    let expr = tree(&mut d, &x, &subjects, depth);
    EvalCase { expr, facts, fns, symbols }
}

pub(crate) fn check_deep(case: &EvalCase) -> Verdict {
    let o = observe(case);
    super::c02::judge(case, &o.actual, &o.model).map_err(|i| Issue::new(i.sig.replace("table:", "none-tree:"), i.msg))
}

pub fn run(ctx: &Ctx) {
    ctx.set_rule(
        "Generated: every node kind x None in each operand position (left, right, both) x every value of the boundary pool as the \
         other operand (exhaustive), including partners that would be a type error without the None, == / != with a None left and \
         a right operand that fails if evaluated, index steps into None, None as if/and/or condition; every cell also with its operands supplied by symbols of a ruleset and by input fields; 20 expressions over an input that is None as a whole (facts.x, facts.0, ...) through Expr::evaluate, evaluate_value, evaluate(&()) and evaluate(&None); 25 None-valued and None-rule-valued conditions (none, !none, !missing, none == none, !(none >= x), ...) in 10 if / and / or frames incl. literal true/false branches, built through constructors and through text, evaluated by Expr::evaluate and as a rule of a ruleset (exhaustive); and random typed trees whose \
         leaves are replaced by lookups that miss (missing key, index past the end, steps into those, a None input field). Oracle: \
         the statement's list as an independent table (cells); reference evaluator (trees). Non-trivial: the other operand is itself \
         not of a type the operator supports, or None arises from a lookup.",
    );
    ctx.assume("table in harness/src/props/c04.rs transcribes the property statement");

    super::regressions::run(ctx, "C04", |j| {
        if j.get("none_input").is_some() || j.get("struct_input").is_some() {
            return replay(j);
        }
        if let Some(a) = j.get("none_condition").and_then(|a| a.as_array()) {
            let (ci, fi) = (a.first()?.as_u64()? as usize, a.get(1)?.as_u64()? as usize);
            return (ci < conditions().len() && fi < frames().len()).then(|| check_condition(ci, fi));
        }
        if j.get("kind").map(|k| k.is_string()).unwrap_or(false) && j.get("pos").is_some() {
            NoneCell::from_json(j).map(|c| check_cell(&c))
        } else {
            EvalCase::from_json(j).map(|c| check_deep(&c))
        }
    });

    let p = pool::boundary();
    let n = p.len() as u64;
    let nb = BINARY_KINDS.len() as u64;
    // binary: kind × pos(0,1) × other, + kind × both; eq/neq failing-right; unary; index; if
    let b_cells = nb * 2 * n + nb;
    let total = b_cells + 4 + UNARY_KINDS.len() as u64 + 3;
    let cell = |i: u64| -> NoneCell {
        if i < nb * 2 * n {
            let k = BINARY_KINDS[(i / (2 * n)) as usize];
            let r = i % (2 * n);
            NoneCell { kind: k.into(), pos: (r / n) as u8, other: p[(r % n) as usize].clone(), failing_right: false }
        } else if i < b_cells {
            let k = BINARY_KINDS[(i - nb * 2 * n) as usize];
            NoneCell { kind: k.into(), pos: 2, other: Value::None, failing_right: false }
        } else if i < b_cells + 4 {
            let j = i - b_cells;
            NoneCell {
                kind: if j % 2 == 0 { "eq" } else { "neq" }.into(),
                pos: (j / 2) as u8,
                other: Value::None,
                failing_right: true,
            }
        } else if i < b_cells + 4 + UNARY_KINDS.len() as u64 {
            let k = UNARY_KINDS[(i - b_cells - 4) as usize];
            NoneCell { kind: k.into(), pos: 0, other: Value::None, failing_right: false }
        } else {
            let k = ["index-field", "index-at", "if"][(i - b_cells - 4 - UNARY_KINDS.len() as u64) as usize];
            NoneCell { kind: k.into(), pos: 0, other: Value::None, failing_right: false }
        }
    };
    ctx.enumerate(
        "none-cells",
        total,
        true,
        |i, acc| {
            let c = cell(i);
            // non-trivial: without the None the partner would be a type error for this operator
            let nt = if c.pos < 2 && BINARY_KINDS.contains(&c.kind.as_str()) {
                let twin = mk2(&c.kind, Expr::Value(c.other.clone()), Expr::Value(c.other.clone()));
                matches!(me::eval_plain(&twin, &Value::None), Err(me::MErr::InvalidType)) || c.failing_right
            } else {
                true
            };
            acc.cell(&format!("cell:{}", c.kind), nt);
            if i % 97 == 0 {
                acc.sample(&format!("cell:{}", c.kind), || show_expr(&c.expr()));
            }
            check_cell(&c)
        },
        |i| cell(i).to_json(),
        "nonecell",
    );

    let (nc, nf) = (conditions().len() as u64, frames().len() as u64);
    ctx.enumerate(
        "none-conditions",
        nc * nf,
        true,
        |i, acc| {
            let (ci, fi) = ((i / nf) as usize, (i % nf) as usize);
            acc.cell(if conditions()[ci].2 == CondWant::Rejected { "cond:none-valued" } else { "cond:none-rule-boolean" }, true);
            if i % 7 == 0 {
                acc.sample("cond", || frames()[fi].0.replace("{c}", conditions()[ci].0));
            }
            check_condition(ci, fi)
        },
        |i| serde_json::json!({"none_condition": [i / nf, i % nf], "text": frames()[(i % nf) as usize].0.replace("{c}", conditions()[(i / nf) as usize].0)}),
        "nonecond",
    );

    let nni = none_input_exprs().len() as u64;
    ctx.enumerate(
        "none-as-whole-input",
        nni,
        true,
        |i, acc| {
            acc.cell("none-input", true);
            acc.sample("none-input", || show_expr(&none_input_exprs()[i as usize]));
            if i == 0 {
                check_none_answers()?;
            }
            check_none_input(i as usize)
        },
        |i| serde_json::json!({"none_input": i, "text": show_expr(&none_input_exprs()[i as usize])}),
        "noneinput",
    );

    // long chains (33-60 operators on one spine) with a none somewhere inside and a comparison / membership test on top
    let long_chains: Vec<EvalCase> = {
        let mut out = vec![];
        let facts = pool::map(&[("vn", Value::None), ("vm", pool::map(&[("a", Value::Int(1))]))]);
        for n in [8usize, 31, 32, 33, 34, 60] {
            for at in [0usize, n / 2, n - 1] {
                for inner in ["add", "mult", "sub", "bitor"] {
                    let leaf = |i: usize| if i == at { Expr::index(Expr::reff("vm"), Index::Map("nokey".into())) } else { Expr::value(1 + (i % 3) as i128) };
                    let mut e = leaf(0);
                    for i in 1..n {
                        e = mk2(inner, e, leaf(i));
                    }
                    for top in ["gt", "gte", "lt", "lte", "eq", "neq", "contains"] {
                        out.push(EvalCase::plain(mk2(top, e.clone(), Expr::value(5)), facts.clone()));
                        out.push(EvalCase::plain(mk2(top, Expr::value(5), e.clone()), facts.clone()));
                    }
                    out.push(EvalCase::plain(mk1("is_none", e.clone()), facts.clone()));
                    out.push(EvalCase::plain(Expr::add(mk2("gt", e.clone(), Expr::value(5)), Expr::value(1)), facts.clone()));
                }
            }
        }
        out
    };
    ctx.enumerate(
        "none-inside-long-chains",
        long_chains.len() as u64,
        true,
        |i, acc| {
            acc.cell("long-chain", true);
            if i % 211 == 0 {
                acc.sample("long-chain", || long_chains[i as usize].render().chars().take(200).collect());
            }
            check_deep(&long_chains[i as usize])
        },
        |i| long_chains[i as usize].to_json(),
        "deepnone",
    );

    // one subject compared with several alternatives (`x == a or x == b`, `x != a and x != b`, `[a, b] contains x`): a
    // subject that is None equals none of them, whichever of them is None too, however the subject is spelled
    let alternatives: Vec<EvalCase> = {
        let facts = pool::map(&[
            ("vn", Value::None),
            ("wn", Value::None),
            ("vs", Value::String("W".into())),
            ("vm", pool::map(&[("a", Value::Int(1)), ("n", Value::None)])),
        ]);
        let mut symbols = std::collections::BTreeMap::new();
        symbols.insert("sn".to_string(), Value::None);
        symbols.insert("sw".to_string(), Value::String("W".into()));
        let subjects: Vec<Expr> = vec![
            Expr::reff("vn"),
            Expr::symbol("sn"),
            Expr::index(Expr::reff("vm"), Index::Map("n".into())),
            Expr::index(Expr::reff("vm"), Index::Map("nokey".into())),
            Expr::reff("vs"),
            Expr::symbol("sw"),
            Expr::index(Expr::reff("vm"), Index::Map("a".into())),
        ];
        let candidates: Vec<Expr> = vec![
            Expr::reff("wn"),
            Expr::value(Value::None),
            Expr::value("W".to_string()),
            Expr::value(1),
            Expr::symbol("sn"),
            Expr::index(Expr::reff("vm"), Index::Map("nokey".into())),
        ];
        let mut out = vec![];
        for x in &subjects {
            for a in &candidates {
                for b in &candidates {
                    let eqs = [Expr::eq(x.clone(), a.clone()), Expr::eq(x.clone(), b.clone()), Expr::eq(x.clone(), Expr::value(77))];
                    let nes = [Expr::neq(x.clone(), a.clone()), Expr::neq(x.clone(), b.clone())];
                    for e in [
                        Expr::or(eqs[0].clone(), eqs[1].clone()),
                        Expr::or(Expr::or(eqs[0].clone(), eqs[1].clone()), eqs[2].clone()),
                        Expr::or(eqs[0].clone(), Expr::or(eqs[1].clone(), eqs[2].clone())),
                        Expr::and(nes[0].clone(), nes[1].clone()),
                        Expr::and(eqs[0].clone(), eqs[1].clone()),
                        Expr::or(nes[0].clone(), nes[1].clone()),
                        Expr::not(Expr::or(eqs[0].clone(), eqs[1].clone())),
                        Expr::contains(Expr::Vec(vec![a.clone(), b.clone()]), x.clone()),
                        Expr::iif(Expr::or(eqs[0].clone(), eqs[1].clone()), Expr::value("yes".to_string()), Expr::value("no".to_string())),
                    ] {
                        out.push(EvalCase { expr: e, facts: facts.clone(), fns: Default::default(), symbols: symbols.clone() });
                    }
                }
                // guards: `some(x) and x <cmp> a`, `none(x) or ...`, either operand order, every comparison
                for (ci, cmp) in [Expr::eq as fn(Expr, Expr) -> Expr, Expr::neq, Expr::gt, Expr::gte, Expr::lt, Expr::lte].into_iter().enumerate() {
                    let _ = ci;
                    for flipped in [false, true] {
                        let c = if flipped { cmp(a.clone(), x.clone()) } else { cmp(x.clone(), a.clone()) };
                        for e in [
                            Expr::and(Expr::some(x.clone()), c.clone()),
                            Expr::and(c.clone(), Expr::some(x.clone())),
                            Expr::or(Expr::none(x.clone()), c.clone()),
                            Expr::and(Expr::not(Expr::none(x.clone())), c.clone()),
                            Expr::iif(Expr::some(x.clone()), c.clone(), Expr::value(false)),
                            Expr::and(Expr::some(x.clone()), Expr::not(c.clone())),
                        ] {
                            out.push(EvalCase { expr: e, facts: facts.clone(), fns: Default::default(), symbols: symbols.clone() });
                        }
                    }
                }
            }
        }
        out
    };
    ctx.enumerate(
        "alternatives-on-one-subject",
        alternatives.len() as u64,
        true,
        |i, acc| {
            acc.cell(&format!("alternatives:{}", root_sig(&alternatives[i as usize].expr)), true);
            if i % 97 == 0 {
                acc.sample("alternatives", || alternatives[i as usize].render().chars().take(200).collect());
            }
            check_deep(&alternatives[i as usize])
        },
        |i| alternatives[i as usize].to_json(),
        "deepnone",
    );

    let nsi = struct_input_exprs().len() as u64;
    ctx.enumerate(
        "none-fields-of-a-struct",
        nsi,
        true,
        |i, acc| {
            acc.cell("none-field", true);
            acc.sample("none-field", || show_expr(&struct_input_exprs()[i as usize]));
            check_struct_input(i as usize)
        },
        |i| serde_json::json!({"struct_input": i, "text": show_expr(&struct_input_exprs()[i as usize])}),
        "structinput",
    );

    // depth 2: every outer kind over every inner cell of a small pool containing None, in each operand position
    // (e.g. !(none < x) must be true: the inner None rule composes with the outer operator)
    let c2 = Cells2::new(vec![
        Value::None,
        Value::Int(3),
        Value::Bool(true),
        Value::String("abc".into()),
        Value::Float(2.5),
        Value::Vec(vec![Value::None]),
    ]);
    ctx.enumerate(
        "none-cells-depth2",
        c2.count(),
        true,
        |i, acc| {
            let case = c2.cell(i);
            fn has_none(e: &Expr) -> bool {
                matches!(e, Expr::Value(Value::None)) || children(e).iter().any(|c| has_none(c))
            }
            let nt = has_none(&case.expr);
            acc.cell(&format!("d2:{}", root_sig(&case.expr)), nt);
            if nt && i % 7919 == 0 {
                acc.sample("d2", || case.render());
            }
            check_deep(&case)
        },
        |i| c2.cell(i).to_json(),
        "deepnone",
    );

    let nsub = ctx.tier.pick(300_000u64, 4_000_000u64);
    ctx.random(
        "trees-about-one-subject",
        nsub,
        || gen::recipe(120),
        |bytes, acc| {
            let case = subject_case(bytes);
            let o = observe(&case);
            if let Some(acc) = acc {
                let class = match &o.model {
                    Ok(Value::None) => "subject:none",
                    Ok(_) => "subject:value",
                    Err(me::MErr::InvalidType) => "subject:type-error",
                    Err(_) => "subject:other-error",
                };
                acc.case(class, true, || case.render());
            }
            super::c02::judge(&case, &o.actual, &o.model).map_err(|i| Issue::new(i.sig.replace("table:", "none-tree:subject:"), i.msg))
        },
        |bytes| subject_case(bytes).to_json(),
        "deepnone",
    );

    let nrand = ctx.tier.pick(600_000u64, 6_000_000u64);
    ctx.random_min(
        "deep-none-trees",
        nrand,
        || gen::recipe(300),
        |bytes, acc| {
            let (case, planted) = deep_case(bytes);
            let o = observe(&case);
            if let Some(acc) = acc {
                let class = match &o.model {
                    Ok(Value::None) => "tree:none",
                    Ok(_) => "tree:value",
                    Err(me::MErr::InvalidType) => "tree:type-error",
                    Err(_) => "tree:other-error",
                };
                acc.case(class, planted > 0, || case.render());
            }
            super::c02::judge(&case, &o.actual, &o.model)
                .map_err(|i| Issue::new(i.sig.replace("table:", "none-tree:"), i.msg))
        },
        |bytes| deep_case(bytes).0.to_json(),
        "deepnone",
        Some(&|bytes: &Vec<u8>, issue, is_known| {
            let (case, _) = deep_case(bytes);
            let (c, i) = minimize(&case, issue, &|c| check_deep(c).err().filter(|i| !is_known(i)));
            (c.to_json(), i)
        }),
    );
}

pub fn replay(j: &serde_json::Value) -> Option<Verdict> {
    if let Some(i) = j.get("none_input").and_then(|x| x.as_u64()) {
        return ((i as usize) < none_input_exprs().len()).then(|| check_none_input(i as usize));
    }
    if let Some(i) = j.get("struct_input").and_then(|x| x.as_u64()) {
        return ((i as usize) < struct_input_exprs().len()).then(|| check_struct_input(i as usize));
    }
    if let Some(a) = j.get("none_condition").and_then(|a| a.as_array()) {
        let (ci, fi) = (a.first()?.as_u64()? as usize, a.get(1)?.as_u64()? as usize);
        return (ci < conditions().len() && fi < frames().len()).then(|| check_condition(ci, fi));
    }
    if j.get("pos").is_some() {
        NoneCell::from_json(j).map(|c| check_cell(&c))
    } else {
        EvalCase::from_json(j).map(|c| check_deep(&c))
    }
}

/// Entry point of the `set_diff` fuzz target.
pub(crate) fn fuzz_bytes(bytes: &[u8]) -> Verdict {
    // (inputs whose first byte is odd are decoded as a tree about one subject, the others as a deep-None tree)
    match bytes.split_first() {
        Some((sel, rest)) if sel % 2 == 1 => check_deep(&subject_case(rest)),
        _ => check_deep(&deep_case(bytes).0),
    }
}
