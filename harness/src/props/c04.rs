//! C04 — None operands propagate through operators instead of failing.
//! Oracle: the statement's list as a table of its own (independent of the reference evaluator),
//! plus reference-evaluator comparison for trees in which None arises from a lookup deep inside.

use super::evalcommon::*;
use crate::core::*;
use crate::data::*;
use crate::gen::{self, Dec, Ty};
use crate::model::eval::{self as me};
use crate::pool;
use reval::expr::Index;
use reval::prelude::*;

#[derive(Debug, Clone, PartialEq)]
enum Want {
    None,
    Bool(bool),
    TypeError,
    /// list membership of a None item: ordinary structural search
    ListHasNone(bool),
}

/// expected result of `kind` with None at `pos` (0 = left/only, 1 = right, 2 = both) and `other`
fn expected(kind: &str, pos: u8, other: &Value) -> Want {
    let pos = if matches!(other, Value::None) { 2 } else { pos };
    match kind {
        "is_some" => Want::Bool(false),
        "is_none" => Want::Bool(true),
        k if UNARY_KINDS.contains(&k) => Want::None,
        "add" | "sub" | "mult" | "div" | "rem" | "bitand" | "bitor" | "bitxor" => Want::None,
        "gt" | "gte" | "lt" | "lte" => Want::Bool(false),
        "eq" => Want::Bool(false),
        "neq" => Want::Bool(true),
        "contains" => match pos {
            0 | 2 => Want::Bool(false),
            _ => match other {
                Value::Vec(items) => Want::ListHasNone(items.iter().any(|x| matches!(x, Value::None))),
                _ => Want::TypeError,
            },
        },
        "and" => match pos {
            0 | 2 => Want::TypeError,
            _ => match other {
                Value::Bool(false) => Want::Bool(false),
                _ => Want::TypeError, // true and None -> None is not a Bool; non-Bool left -> type error
            },
        },
        "or" => match pos {
            0 | 2 => Want::TypeError,
            _ => match other {
                Value::Bool(true) => Want::Bool(true),
                _ => Want::TypeError,
            },
        },
        _ => unreachable!("kind {kind}"),
    }
}

fn satisfied(want: &Want, r: &Result<Value, reval::Error>) -> bool {
    match (want, r) {
        (Want::None, Ok(Value::None)) => true,
        (Want::Bool(b), Ok(Value::Bool(x))) => b == x,
        (Want::ListHasNone(b), Ok(Value::Bool(x))) => b == x,
        (Want::TypeError, Err(reval::Error::InvalidType)) => true,
        _ => false,
    }
}

#[derive(Clone, Debug)]
struct NoneCell {
    kind: String,
    pos: u8,
    other: Value,
    /// the non-None operand is replaced by an expression that fails when evaluated (eq/neq right side)
    failing_right: bool,
}

impl NoneCell {
    fn expr(&self) -> Expr {
        let none = Expr::Value(Value::None);
        let other = if self.failing_right {
            Expr::div(Expr::value(1), Expr::value(0))
        } else {
            Expr::Value(self.other.clone())
        };
        match self.kind.as_str() {
            "index-field" => Expr::index(none, Index::Map("a".into())),
            "index-at" => Expr::index(none, Index::Vec(0)),
            "if" => Expr::iif(none, Expr::value(1), Expr::value(2)),
            k if UNARY_KINDS.contains(&k) => mk1(k, none),
            k => match self.pos {
                0 => mk2(k, none, other),
                1 => mk2(k, other, none),
                _ => mk2(k, none.clone(), none),
            },
        }
    }
    fn case(&self) -> EvalCase {
        EvalCase::plain(self.expr(), Value::None)
    }
    fn to_json(&self) -> serde_json::Value {
        serde_json::json!({"kind": self.kind, "pos": self.pos, "other": value_to_json(&self.other),
            "failing_right": self.failing_right, "text": show_expr(&self.expr())})
    }
    fn from_json(j: &serde_json::Value) -> Option<Self> {
        Some(NoneCell {
            kind: j.get("kind")?.as_str()?.to_string(),
            pos: j.get("pos")?.as_u64()? as u8,
            other: value_from_json(j.get("other")?)?,
            failing_right: j.get("failing_right")?.as_bool()?,
        })
    }
}

fn check_cell(c: &NoneCell) -> Verdict {
    let case = c.case();
    let r = match observe(&case).actual {
        Actual::Done(r) => r,
        Actual::Panic(p) => return Err(Issue::new("none:panic", format!("panic {p}; case {}", case.render()))),
        Actual::Pending => return Err(Issue::new("none:pending", format!("pending; case {}", case.render()))),
    };
    let want = match c.kind.as_str() {
        "index-field" | "index-at" => Want::None,
        "if" => Want::TypeError,
        "eq" | "neq" if c.failing_right => {
            // left None decides without evaluating the (failing) right operand
            if c.pos == 0 {
                Want::Bool(c.kind == "neq")
            } else {
                return Ok(());
            }
        }
        k => expected(k, c.pos, &c.other),
    };
    if satisfied(&want, &r) {
        Ok(())
    } else {
        Err(Issue::new(
            format!("none:{}:pos{}:{}", c.kind, c.pos, type_name(&c.other)),
            format!(
                "None rule violated: expected {want:?}, implementation returned {}; case {}",
                me::show_actual(&r),
                case.render()
            ),
        ))
    }
}

/// typed tree whose leaves are replaced by lookups that miss (None arises deep inside)
fn deep_case(bytes: &[u8]) -> (EvalCase, usize) {
    let mut d = Dec::new(bytes);
    let cfg = gen::ExprCfg { typed_weight: 7, fn_names: vec!["nofn".into()], sym_names: vec!["nosym".into()] };
    let want = *d.pick(&[Ty::Int, Ty::Float, Ty::Dec, Ty::Bool, Ty::Str, Ty::DateTime, Ty::Duration, Ty::Any]);
    let depth = 1 + d.below(5) as u32;
    let e = gen::gen_expr(&mut d, want, depth, &cfg);
    let mut planted = 0;
    let e = plant(&e, &mut d, &mut planted);
    let facts = match gen::gen_facts(&mut d) {
        Value::Map(m) => Value::Map(m),
        _ => pool::map(&[("vm", pool::map(&[("a", Value::Int(1))])), ("vl", Value::Vec(vec![Value::Int(1)]))]),
    };
    (EvalCase::plain(e, facts), planted)
}

fn missing_lookup(d: &mut Dec) -> Expr {
    match d.below(9) {
        // a None that is present in the data (not a missing key), then further steps
        5 => Expr::index(Expr::reff("vn"), Index::Map("x".into())),
        6 => Expr::index(Expr::index(Expr::Value(Value::Vec(vec![Value::None])), Index::Vec(0)), Index::Map("x".into())),
        7 => Expr::index(Expr::index(Expr::index(Expr::reff("vn"), Index::Vec(0)), Index::Map("y".into())), Index::Vec(2)),
        8 => Expr::index(
            Expr::index(Expr::Map([("a".to_string(), Expr::Value(Value::None))].into_iter().collect()), Index::Map("a".into())),
            Index::Vec(1),
        ),
        0 => Expr::index(Expr::reff("vm"), Index::Map("nokey".into())),
        1 => Expr::index(Expr::reff("vl"), Index::Vec(99)),
        2 => Expr::index(Expr::index(Expr::reff("vm"), Index::Map("nokey".into())), Index::Map("x".into())),
        3 => Expr::index(Expr::index(Expr::reff("vl"), Index::Vec(99)), Index::Vec(0)),
        _ => Expr::reff("vn"),
    }
}

fn plant(e: &Expr, d: &mut Dec, planted: &mut usize) -> Expr {
    match e {
        Expr::Value(_) | Expr::Reference(_) | Expr::Symbol(_) => {
            if d.below(4) == 0 {
                *planted += 1;
                missing_lookup(d)
            } else {
                e.clone()
            }
        }
        _ => {
            let kids: Vec<Expr> = children(e).iter().map(|c| plant(c, d, planted)).collect();
            rebuild(e, kids)
        }
    }
}

fn check_deep(case: &EvalCase) -> Verdict {
    let o = observe(case);
    super::c02::judge(case, &o.actual, &o.model).map_err(|i| Issue::new(i.sig.replace("table:", "none-tree:"), i.msg))
}

pub fn run(ctx: &Ctx) {
    ctx.set_rule(
        "Generated: every node kind x None in each operand position (left, right, both) x every value of the boundary pool as the \
         other operand (exhaustive), including partners that would be a type error without the None, == / != with a None left and \
         a right operand that fails if evaluated, index steps into None, None as if/and/or condition; and random typed trees whose \
         leaves are replaced by lookups that miss (missing key, index past the end, steps into those, a None input field). Oracle: \
         the statement's list as an independent table (cells); reference evaluator (trees). Non-trivial: the other operand is itself \
         not of a type the operator supports, or None arises from a lookup.",
    );
    ctx.assume("table in harness/src/props/c04.rs transcribes the property statement");

    super::regressions::run(ctx, "C04", |j| {
        if j.get("kind").map(|k| k.is_string()).unwrap_or(false) && j.get("pos").is_some() {
            NoneCell::from_json(j).map(|c| check_cell(&c))
        } else {
            EvalCase::from_json(j).map(|c| check_deep(&c))
        }
    });

    let p = pool::boundary();
    let n = p.len() as u64;
    let nb = BINARY_KINDS.len() as u64;
    // binary: kind × pos(0,1) × other, + kind × both; eq/neq failing-right; unary; index; if
    let b_cells = nb * 2 * n + nb;
    let total = b_cells + 4 + UNARY_KINDS.len() as u64 + 3;
    let cell = |i: u64| -> NoneCell {
        if i < nb * 2 * n {
            let k = BINARY_KINDS[(i / (2 * n)) as usize];
            let r = i % (2 * n);
            NoneCell { kind: k.into(), pos: (r / n) as u8, other: p[(r % n) as usize].clone(), failing_right: false }
        } else if i < b_cells {
            let k = BINARY_KINDS[(i - nb * 2 * n) as usize];
            NoneCell { kind: k.into(), pos: 2, other: Value::None, failing_right: false }
        } else if i < b_cells + 4 {
            let j = i - b_cells;
            NoneCell {
                kind: if j % 2 == 0 { "eq" } else { "neq" }.into(),
                pos: (j / 2) as u8,
                other: Value::None,
                failing_right: true,
            }
        } else if i < b_cells + 4 + UNARY_KINDS.len() as u64 {
            let k = UNARY_KINDS[(i - b_cells - 4) as usize];
            NoneCell { kind: k.into(), pos: 0, other: Value::None, failing_right: false }
        } else {
            let k = ["index-field", "index-at", "if"][(i - b_cells - 4 - UNARY_KINDS.len() as u64) as usize];
            NoneCell { kind: k.into(), pos: 0, other: Value::None, failing_right: false }
        }
    };
    ctx.enumerate(
        "none-cells",
        total,
        true,
        |i, acc| {
            let c = cell(i);
            // non-trivial: without the None the partner would be a type error for this operator
            let nt = if c.pos < 2 && BINARY_KINDS.contains(&c.kind.as_str()) {
                let twin = mk2(&c.kind, Expr::Value(c.other.clone()), Expr::Value(c.other.clone()));
                matches!(me::eval_plain(&twin, &Value::None), Err(me::MErr::InvalidType)) || c.failing_right
            } else {
                true
            };
            acc.cell(&format!("cell:{}", c.kind), nt);
            if i % 97 == 0 {
                acc.sample(&format!("cell:{}", c.kind), || show_expr(&c.expr()));
            }
            check_cell(&c)
        },
        |i| cell(i).to_json(),
        "nonecell",
    );

    // depth 2: every outer kind over every inner cell of a small pool containing None, in each operand position
    // (e.g. !(none < x) must be true: the inner None rule composes with the outer operator)
    let c2 = Cells2::new(vec![
        Value::None,
        Value::Int(3),
        Value::Bool(true),
        Value::String("abc".into()),
        Value::Float(2.5),
        Value::Vec(vec![Value::None]),
    ]);
    ctx.enumerate(
        "none-cells-depth2",
        c2.count(),
        true,
        |i, acc| {
            let case = c2.cell(i);
            fn has_none(e: &Expr) -> bool {
                matches!(e, Expr::Value(Value::None)) || children(e).iter().any(|c| has_none(c))
            }
            let nt = has_none(&case.expr);
            acc.cell(&format!("d2:{}", root_sig(&case.expr)), nt);
            if nt && i % 7919 == 0 {
                acc.sample("d2", || case.render());
            }
            check_deep(&case)
        },
        |i| c2.cell(i).to_json(),
        "deepnone",
    );

    let nrand = ctx.tier.pick(600_000u64, 6_000_000u64);
    ctx.random_min(
        "deep-none-trees",
        nrand,
        || gen::recipe(300),
        |bytes, acc| {
            let (case, planted) = deep_case(bytes);
            let o = observe(&case);
            if let Some(acc) = acc {
                let class = match &o.model {
                    Ok(Value::None) => "tree:none",
                    Ok(_) => "tree:value",
                    Err(me::MErr::InvalidType) => "tree:type-error",
                    Err(_) => "tree:other-error",
                };
                acc.case(class, planted > 0, || case.render());
            }
            super::c02::judge(&case, &o.actual, &o.model)
                .map_err(|i| Issue::new(i.sig.replace("table:", "none-tree:"), i.msg))
        },
        |bytes| deep_case(bytes).0.to_json(),
        "deepnone",
        Some(&|bytes: &Vec<u8>, issue, is_known| {
            let (case, _) = deep_case(bytes);
            let (c, i) = minimize(&case, issue, &|c| check_deep(c).err().filter(|i| !is_known(i)));
            (c.to_json(), i)
        }),
    );
}

pub fn replay(j: &serde_json::Value) -> Option<Verdict> {
    if j.get("pos").is_some() {
        NoneCell::from_json(j).map(|c| check_cell(&c))
    } else {
        EvalCase::from_json(j).map(|c| check_deep(&c))
    }
}
