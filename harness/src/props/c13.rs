//! C13 — serializing input data into a Value is total and faithful.

use crate::core::*;
use crate::data::*;
use crate::gen::{self, Dec};
use crate::sval::{self, Image, SVal};
use reval::prelude::*;
use reval::value::ser::ValueSerializer;
use serde::Serialize;
use serde_json::json;

fn loc(p: &str) -> String {
    p.rsplit(" @ ").next().unwrap_or("?").to_string()
}

pub fn check(v: &SVal) -> Verdict {
    let r = match catch(|| v.serialize(ValueSerializer)) {
        Ok(r) => r,
        Err(p) => {
            return Err(Issue::new(
                format!("ser:panic:{}", loc(&p)),
                format!("serializing {v:?} into a Value panicked: {p}"),
            ))
        }
    };
    let cause = if sval::contains_fail(v) { "failing-or-out-of-range-part" } else { "none" };
    match (sval::model_image(v), &r) {
        (Image::Val(m), Ok(a)) => {
            if !same_value(a, &m, true) {
                return Err(Issue::new(
                    format!("ser:wrong-image:{}", sval::kind_name(v)),
                    format!("image of {v:?} is {} but the faithful image is {}", show_value(a), show_value(&m)),
                ));
            }
        }
        (Image::Val(m), Err(e)) => {
            return Err(Issue::new(
                format!("ser:unexpected-error:{}", sval::kind_name(v)),
                format!("serializing {v:?} failed ({e}) but it has the faithful image {}", show_value(&m)),
            ))
        }
        (Image::Error, Ok(a)) => {
            return Err(Issue::new(
                format!("ser:missing-error:{cause}"),
                format!("serializing {v:?} must fail (integer out of range / failing Serialize) but gave {}", show_value(a)),
            ))
        }
        (Image::Error, Err(_)) | (Image::KeyDependent, Err(_)) => {}
        (Image::KeyDependent, Ok(_)) => {}
    }
    // JSON agreement whenever it succeeds on JSON-representable data
    if let Ok(a) = &r {
        if let Some(j) = sval::json_image(v) {
            if !same_value(a, &j, true) {
                return Err(Issue::new(
                    format!("ser:differs-from-json:{}", sval::kind_name(v)),
                    format!("image of {v:?} is {} but its serde_json image is {}", show_value(a), show_value(&j)),
                ));
            }
        }
    }
    // the same through RuleSet::evaluate(&T): fails as a whole iff serialization fails
    let rs = ruleset()
        .with_rule(Rule::new("whole", Default::default(), Expr::reff("facts")))
        .expect("rule")
        .build();
    // (a ruleset without rules serializes its input all the same)
    match (catch(|| block_on(ruleset().build().evaluate(v)).map(|o| o.len())), &r) {
        (Err(p), _) => return Err(Issue::new(format!("ser:panic:evaluate:{}", loc(&p)), format!("RuleSet::evaluate (no rules) on {v:?} panicked: {p}"))),
        (Ok(Ok(0)), Ok(_)) | (Ok(Err(_)), Err(_)) => {}
        (Ok(other), _) => {
            return Err(Issue::new(
                "ser:evaluate-differs",
                format!(
                    "RuleSet::evaluate(&T) of a ruleset without rules on {v:?} gives {:?} but T serializes to {}",
                    other.map_err(|e| e.to_string()),
                    r.as_ref().map(show_value).map_err(|e| e.to_string()).unwrap_or_else(|e| format!("Err({e})"))
                ),
            ))
        }
    }
    let via = catch(|| block_on(rs.evaluate(v)).map(|mut o| o.pop().map(|x| x.value)));
    match (via, &r) {
        (Err(p), _) => Err(Issue::new(
            format!("ser:panic:evaluate:{}", loc(&p)),
            format!("RuleSet::evaluate on {v:?} panicked: {p}"),
        )),
        (Ok(Err(_)), Err(_)) => Ok(()),
        (Ok(Ok(Some(Ok(x)))), Ok(a)) if same_value(&x, a, true) => Ok(()),
        (Ok(other), _) => Err(Issue::new(
            "ser:evaluate-differs",
            format!(
                "RuleSet::evaluate(&T) on {v:?} gives {:?} but T serializes to {}",
                other.map(|o| o.map(|r| r.map(|v| show_value(&v)).map_err(|e| e.to_string()))).map_err(|e| e.to_string()),
                r.as_ref().map(show_value).map_err(|e| e.to_string()).unwrap_or_else(|e| format!("Err({e})"))
            ),
        )),
    }
}

fn limits() -> Vec<SVal> {
    let mut v = vec![
        SVal::I8(i8::MIN), SVal::I8(i8::MAX), SVal::I16(i16::MIN), SVal::I16(i16::MAX), SVal::I32(i32::MIN),
        SVal::I32(i32::MAX), SVal::I64(i64::MIN), SVal::I64(i64::MAX), SVal::I128(i128::MIN), SVal::I128(i128::MAX),
        SVal::U8(0), SVal::U8(u8::MAX), SVal::U16(u16::MAX), SVal::U32(u32::MAX), SVal::U64(u64::MAX),
        SVal::U128(0), SVal::U128(i128::MAX as u128), SVal::U128(i128::MAX as u128 + 1), SVal::U128(u128::MAX),
        SVal::U128(u64::MAX as u128 + 1), SVal::F32(f32::MAX), SVal::F32(f32::MIN_POSITIVE), SVal::F32(0.1),
        SVal::F32(f32::NAN), SVal::F32(f32::INFINITY), SVal::F64(f64::MAX), SVal::F64(-0.0), SVal::F64(f64::NAN),
        SVal::F64(f64::NEG_INFINITY), SVal::F64(5e-324), SVal::Char('\u{0}'), SVal::Char('\u{10ffff}'), SVal::Char('A'), SVal::Char('İ'), SVal::Char('ǅ'), SVal::Str(String::new()), SVal::Str("MiXed İǅΣ ß".into()),
        SVal::Bytes(vec![]), SVal::Bytes(vec![0, 255]), SVal::None, SVal::Unit, SVal::UnitStruct("T".into()),
        SVal::UnitVariant("E".into(), 0, "A".into()), SVal::Fail("boom".into()), SVal::Ip([127, 0, 0, 1]),
        SVal::Seq(vec![], true), SVal::Seq(vec![], false), SVal::Tuple(vec![]), SVal::Map(vec![], false),
        SVal::Struct("T".into(), vec![]),
    ];
    // every kind as the content of every wrapper kind
    let base = v.clone();
    for b in &base {
        v.push(SVal::Some(Box::new(b.clone())));
        v.push(SVal::NewtypeStruct("N".into(), Box::new(b.clone())));
        v.push(SVal::NewtypeVariant("E".into(), 1, "V".into(), Box::new(b.clone())));
        v.push(SVal::Seq(vec![SVal::I8(1), b.clone()], false));
        v.push(SVal::Tuple(vec![b.clone(), SVal::I8(1)]));
        v.push(SVal::TupleStruct("T".into(), vec![b.clone()]));
        v.push(SVal::TupleVariant("E".into(), 2, "V".into(), vec![b.clone(), b.clone()]));
        v.push(SVal::Map(vec![(SVal::Str("k".into()), b.clone()), (SVal::Str("k".into()), SVal::I8(2))], true));
        v.push(SVal::Map(vec![(SVal::Str("a".into()), SVal::I8(2)), (SVal::Str("k".into()), b.clone())], false));
        v.push(SVal::Map(vec![(b.clone(), SVal::I8(1))], true));
        v.push(SVal::Struct("S".into(), vec![("a".into(), b.clone()), ("b".into(), SVal::Unit)]));
        v.push(SVal::StructVariant("E".into(), 3, "V".into(), vec![("a".into(), b.clone())]));
    }
    v
}

/// collections, texts and nestings of many sizes (nothing about the image depends on how large or how deep a value is)
fn sizes() -> Vec<SVal> {
    let mut v = vec![];
    // failure messages of many byte lengths, with multi-byte characters straddling every offset
    for n in [0usize, 1, 85, 86, 127, 128, 129, 255, 256, 257, 1023, 1024, 1025, 70_000] {
        for pre in 0..3usize {
            let msg = format!("{}{}", "x".repeat(pre), "é€😀".repeat(n / 9 + 1));
            v.push(SVal::Fail(msg.clone()));
            v.push(SVal::Struct("S".into(), vec![("f".into(), SVal::Seq(vec![SVal::U8(1), SVal::Fail(msg)], true))]));
        }
    }
    // variants (and types) whose name is the empty string or a blank: a name like any other
    for name in ["", " "] {
        v.push(SVal::UnitVariant(name.into(), 0, name.into()));
        v.push(SVal::NewtypeVariant("E".into(), 0, name.into(), Box::new(SVal::Tuple(vec![SVal::U8(1), SVal::U8(2)]))));
        v.push(SVal::TupleVariant("E".into(), 1, name.into(), vec![SVal::U8(1), SVal::U8(2)]));
        v.push(SVal::StructVariant(name.into(), 2, name.into(), vec![("f".into(), SVal::U8(1))]));
        v.push(SVal::Map(vec![(SVal::Str(name.into()), SVal::TupleVariant("E".into(), 1, name.into(), vec![SVal::Unit]))], true));
    }
    // field names that differ only by a raw-identifier prefix, side by side
    v.push(SVal::Struct("S".into(), vec![("r#type".into(), SVal::U8(1)), ("type".into(), SVal::U8(2)), ("width".into(), SVal::U8(3))]));
    v.push(SVal::StructVariant("E".into(), 0, "V".into(), vec![("type".into(), SVal::U8(2)), ("r#type".into(), SVal::U8(1)), ("r#r#x".into(), SVal::U8(3))]));
    v.push(SVal::Map(vec![(SVal::Str("r#k".into()), SVal::U8(1)), (SVal::Str("k".into()), SVal::U8(2))], true));
    for n in [31usize, 32, 33, 127, 128, 129, 255, 256, 257, 1000, 65_537] {
        v.push(SVal::Seq((0..n).map(|i| SVal::U32(i as u32)).collect(), n % 2 == 0));
        v.push(SVal::Bytes((0..n).map(|i| i as u8).collect()));
        v.push(SVal::Str("é".repeat(n)));
        if n <= 1000 {
            v.push(SVal::Tuple((0..n).map(|i| SVal::I16(i as i16)).collect()));
            v.push(SVal::Map((0..n).map(|i| (SVal::Str(format!("k{i:05}")), SVal::U64(i as u64))).collect(), n % 2 == 1));
            v.push(SVal::Struct("Wide".into(), (0..n).map(|i| (format!("f{i:05}"), SVal::Bool(i % 2 == 0))).collect()));
            v.push(SVal::TupleVariant("E".into(), 0, "V".into(), (0..n).map(|i| SVal::I64(-(i as i64))).collect()));
        }
    }
    for depth in [8usize, 31, 32, 33, 64, 100, 127, 128, 129, 200, 300] {
        for wrapper in 0..8usize {
            let mut x = SVal::I8(7);
            for level in 0..depth {
                let w = if wrapper == 7 { level % 7 } else { wrapper };
                x = match w {
                    0 => SVal::Seq(vec![x], true),
                    1 => SVal::Some(Box::new(x)),
                    2 => SVal::NewtypeStruct("N".into(), Box::new(x)),
                    3 => SVal::Map(vec![(SVal::Str("k".into()), x)], true),
                    4 => SVal::Struct("S".into(), vec![("f".into(), x)]),
                    5 => SVal::Tuple(vec![SVal::Unit, x]),
                    _ => SVal::NewtypeVariant("E".into(), 0, "V".into(), Box::new(x)),
                };
            }
            v.push(x);
        }
    }
    v
}

fn nontrivial(v: &SVal, depth: usize) -> bool {
    fn d(v: &SVal) -> usize {
        match v {
            SVal::Some(x) | SVal::NewtypeStruct(_, x) | SVal::NewtypeVariant(_, _, _, x) => 1 + d(x),
            SVal::Seq(i, _) | SVal::Tuple(i) | SVal::TupleStruct(_, i) | SVal::TupleVariant(_, _, _, i) => {
                1 + i.iter().map(d).max().unwrap_or(0)
            }
            SVal::Map(i, _) => 1 + i.iter().map(|(k, v)| d(k).max(d(v))).max().unwrap_or(0),
            SVal::Struct(_, f) | SVal::StructVariant(_, _, _, f) => 1 + f.iter().map(|(_, v)| d(v)).max().unwrap_or(0),
            _ => 0,
        }
    }
    fn feat(v: &SVal) -> bool {
        match v {
            SVal::I64(x) => *x == i64::MIN || *x == i64::MAX,
            SVal::U64(x) => *x == u64::MAX,
            SVal::I128(x) => x.unsigned_abs() > u64::MAX as u128,
            SVal::U128(x) => *x > u64::MAX as u128,
            SVal::Fail(_) | SVal::UnitVariant(..) | SVal::NewtypeVariant(..) | SVal::TupleVariant(..) | SVal::StructVariant(..) => true,
            SVal::Map(i, _) => i.iter().any(|(k, v)| !matches!(k, SVal::Str(_)) || feat(v)),
            SVal::Some(x) | SVal::NewtypeStruct(_, x) => feat(x),
            SVal::Seq(i, _) | SVal::Tuple(i) | SVal::TupleStruct(_, i) => i.iter().any(feat),
            SVal::Struct(_, f) => f.iter().any(|(_, v)| feat(v)),
            _ => false,
        }
    }
    feat(v) || d(v) >= depth
}

pub fn run(ctx: &Ctx) {
    ctx.set_rule(
        "Generated values of the serde data model through a hand-written Serialize that calls each serializer method directly: all \
         29 kinds, every integer width at its limits (incl. u128 above i128::MAX), non-finite and extreme floats, empty containers, \
         sequences/maps with unknown length, maps with keys of every kind and duplicate keys, all four enum variant shapes, structs \
         with duplicate field names, nesting to depth 4, and a kind whose Serialize raises S::Error::custom at any depth; first an \
         exhaustive list (every kind at every limit, alone and as the content of every wrapper kind), then recipe-decoded random \
         values. Oracles: (1) the structurally faithful image prescribed by the property (or an error where prescribed), (2) equality \
         with serde_json::to_value mapped into Value whenever serialization succeeds on JSON-representable data, (3) no panic, (4) \
         RuleSet::evaluate(&T) gives the same image and fails as a whole iff serialization fails. Non-trivial: contains a 64/128-bit \
         limit value, a non-string map key, a failing part, an enum variant, or nesting depth >= 3.",
    );
    ctx.assume("Serialize implementations that violate the serde protocol (serialize_value before serialize_key) are not values of the data model");
    ctx.assume("serde_json::to_value is the reference image for JSON-representable data");

    super::regressions::run(ctx, "C13", |j| replay(j));

    // shrunk failing cases of the defects found on the pinned commit (D7, D8), kept as plain regression checks
    let fixed: Vec<SVal> = vec![
        SVal::U128(u128::MAX),
        SVal::U128(i128::MAX as u128 + 1),
        SVal::Fail("boom".into()),
        SVal::Struct("T".into(), vec![("a".into(), SVal::Fail("boom".into()))]),
        SVal::Map(vec![(SVal::Fail("key".into()), SVal::Unit)], true),
        SVal::Seq(vec![SVal::I8(1), SVal::U128(u128::MAX)], false),
    ];
    ctx.list("fixed-defect-regressions", &fixed, |v, acc| {
        acc.case("regression", true, || format!("{v:?}"));
        check(v)
    }, |v| json!({"debug": format!("{v:?}")}), "fixed");

    // real-world Serialize implementations (derive attributes, std / chrono / serde_json types): differential with serde_json
    let types = super::c13_types::cases();
    ctx.list(
        "real-serialize-impls",
        &types,
        |t, acc| {
            use super::c13_types::Expect;
            acc.case(&format!("types:{:?}", t.expect), true, || format!("{} => {:?}", t.name, t.reval.as_ref().map(|r| r.as_ref().map(show_value))));
            let r = match &t.reval {
                Err(p) => return Err(Issue::new(format!("ser:panic:{}", loc(p)), format!("serializing `{}` panicked: {p}", t.name))),
                Ok(r) => r,
            };
            match (t.expect, r) {
                (Expect::Error, Ok(v)) => Err(Issue::new("ser:missing-error:type", format!("`{}` must fail to serialize but gave {}", t.name, show_value(v)))),
                (Expect::Error, Err(_)) | (Expect::KeyDependent, Err(_)) => Ok(()),
                (Expect::Image, Err(e)) => Err(Issue::new("ser:unexpected-error:type", format!("`{}` failed to serialize: {e}", t.name))),
                (_, Ok(v)) => match &t.json {
                    Some(j) if !same_value(v, j, true) => Err(Issue::new(
                        "ser:differs-from-json:type",
                        format!("image of `{}` is {} but its serde_json image is {}", t.name, show_value(v), show_value(j)),
                    )),
                    _ => Ok(()),
                },
            }
        },
        |t| json!({"type_case": t.name}),
        "type",
    );

    let lim = limits();
    ctx.enumerate(
        "kinds-at-limits",
        lim.len() as u64,
        true,
        |i, acc| {
            let v = &lim[i as usize];
            acc.cell(&format!("limit:{}", sval::kind_name(v)), true);
            if i % 31 == 0 {
                acc.sample(&format!("limit:{}", sval::kind_name(v)), || format!("{v:?}"));
            }
            check(v)
        },
        |i| json!({"limit_index": i, "debug": format!("{:?}", lim[i as usize])}),
        "limit",
    );

    let sz = sizes();
    ctx.enumerate(
        "sizes-and-depths",
        sz.len() as u64,
        true,
        |i, acc| {
            let v = &sz[i as usize];
            acc.cell(&format!("size:{}", sval::kind_name(v)), true);
            if i % 17 == 0 {
                acc.sample("size", || {
                    let t = format!("{v:?}");
                    format!("{} ... ({} characters of debug text)", t.chars().take(60).collect::<String>(), t.len())
                });
            }
            check(v)
        },
        |i| json!({"size_index": i}),
        "size",
    );

    let n = ctx.tier.pick(1_500_000u64, 15_000_000u64);
    ctx.random(
        "random-values",
        n,
        || gen::recipe(300),
        |bytes, acc| {
            let v = sval::gen_sval(&mut Dec::new(bytes), 4);
            if let Some(acc) = acc {
                let class = match sval::model_image(&v) {
                    Image::Val(_) => "rnd:image",
                    Image::Error => "rnd:must-fail",
                    Image::KeyDependent => "rnd:non-string-key",
                };
                acc.case(class, nontrivial(&v, 3), || format!("{v:?}"));
            }
            check(&v)
        },
        |bytes| json!({"sval_bytes": bytes, "debug": format!("{:?}", sval::gen_sval(&mut Dec::new(bytes), 4))}),
        "sval",
    );
}

pub fn replay(j: &serde_json::Value) -> Option<Verdict> {
    if let Some(name) = j.get("type_case").and_then(|x| x.as_str()) {
        use super::c13_types::Expect;
        let t = super::c13_types::cases().into_iter().find(|t| t.name == name)?;
        let r = match &t.reval {
            Err(p) => return Some(Err(Issue::new("ser:panic", format!("serializing `{}` panicked: {p}", t.name)))),
            Ok(r) => r.clone(),
        };
        return Some(match (t.expect, &r) {
            (Expect::Error, Ok(_)) => Err(Issue::new("ser:missing-error:type", t.name.clone())),
            (Expect::Image, Err(e)) => Err(Issue::new("ser:unexpected-error:type", format!("{}: {e}", t.name))),
            (_, Ok(v)) => match &t.json {
                Some(j) if !same_value(v, j, true) => Err(Issue::new("ser:differs-from-json:type", t.name.clone())),
                _ => Ok(()),
            },
            _ => Ok(()),
        });
    }
    if let Some(i) = j.get("limit_index").and_then(|x| x.as_u64()) {
        return limits().get(i as usize).map(check);
    }
    if let Some(i) = j.get("size_index").and_then(|x| x.as_u64()) {
        return sizes().get(i as usize).map(check);
    }
    let bytes: Vec<u8> = j.get("sval_bytes")?.as_array()?.iter().filter_map(|b| b.as_u64().map(|x| x as u8)).collect();
    Some(check(&sval::gen_sval(&mut Dec::new(&bytes), 4)))
}
