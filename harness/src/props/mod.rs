pub mod evalcommon;
pub mod regressions;
pub mod c01;
pub mod c02;
pub mod c03;
pub mod c04;
pub mod c05;
pub mod c06;
pub mod c07;
pub mod c08;
pub mod c09;
pub mod c10;
pub mod c11;
pub mod c12;
pub mod setcommon;
pub mod c13;
pub mod c13_types;
pub mod c14;
pub mod c14_tokens;
pub mod c15;
pub mod c16;
pub mod c17;
pub mod c19;

use crate::core::{Ctx, Verdict};
use serde_json::Value as J;

pub fn run(ctx: &Ctx) -> bool {
    match ctx.prop.as_str() {
        "C01" => c01::run(ctx),
        "C02" => c02::run(ctx),
        "C03" => c03::run(ctx),
        "C04" => c04::run(ctx),
        "C05" => c05::run(ctx),
        "C06" => c06::run(ctx),
        "C07" => c07::run(ctx),
        "C08" => c08::run(ctx),
        "C09" => c09::run(ctx),
        "C10" => c10::run(ctx),
        "C11" => c11::run(ctx),
        "C12" => c12::run(ctx),
        "C13" => c13::run(ctx),
        "C14" => c14::run(ctx),
        "C15" => c15::run(ctx),
        "C16" => c16::run(ctx),
        "C17" => c17::run(ctx),
        "C19" => c19::run(ctx),
        _ => return false,
    }
    true
}

/// Replay one saved case, bypassing all generators. `kind` is the replay kind stored in the file.
pub fn replay(prop: &str, _kind: &str, case: &J) -> Option<Verdict> {
    if case.get("set_fuzz_bytes").is_some() {
        return crate::fuzz::set_replay(prop, case);
    }
    match prop {
        "C01" => c01::replay(case),
        "C02" => c02::replay(case),
        "C03" => c03::replay(case),
        "C04" => c04::replay(case),
        "C05" => c05::replay(case),
        "C06" => c06::replay(case),
        "C07" => c07::replay(case),
        "C08" => c08::replay(case),
        "C09" => c09::replay(case),
        "C10" => c10::replay(case),
        "C11" => c11::replay(case),
        "C12" => c12::replay(case),
        "C13" => c13::replay(case),
        "C14" => c14::replay(case),
        "C15" => c15::replay(case),
        "C16" => c16::replay(case),
        "C17" => c17::replay(case),
        "C19" => c19::replay(case),
        _ => None,
    }
}
