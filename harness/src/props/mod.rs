pub mod evalcommon;
pub mod regressions;
pub mod c01;

use crate::core::{Ctx, Verdict};
use serde_json::Value as J;

pub fn run(ctx: &Ctx) -> bool {
    match ctx.prop.as_str() {
        "C01" => c01::run(ctx),
        _ => return false,
    }
    true
}

/// Replay one saved case, bypassing all generators. `kind` is the replay kind stored in the file.
pub fn replay(prop: &str, _kind: &str, case: &J) -> Option<Verdict> {
    match prop {
        "C01" => c01::replay(case),
        _ => None,
    }
}
