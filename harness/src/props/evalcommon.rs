//! Shared by the evaluation properties (C01–C05, C10): the case type, running a case against the
//! implementation and the model, and the exhaustive cell enumerations.

use crate::core::{block_on_bounded, catch};
use crate::data::*;
use crate::model::eval::{self as me, FnSpec, MRes};
use crate::probe;
use reval::expr::{Expr, Index};
use reval::value::Value;
use serde_json::{json, Value as J};
use std::collections::BTreeMap;

#[derive(Clone, Debug)]
pub struct EvalCase {
    pub expr: Expr,
    pub facts: Value,
    pub fns: BTreeMap<String, FnSpec>,
    pub symbols: BTreeMap<String, Value>,
}

impl EvalCase {
    pub fn plain(expr: Expr, facts: Value) -> Self {
        EvalCase { expr, facts, fns: BTreeMap::new(), symbols: BTreeMap::new() }
    }

    pub fn to_json(&self) -> J {
        json!({
            "expr": expr_to_json(&self.expr),
            "facts": value_to_json(&self.facts),
            "fns": self.fns.iter().map(|(k, f)| (k.clone(), json!({
                "cacheable": f.cacheable, "fail_on": f.fail_on, "fail_first": f.fail_first, "uncacheable_after": f.uncacheable_after
            }))).collect::<serde_json::Map<_, _>>(),
            "symbols": self.symbols.iter().map(|(k, v)| (k.clone(), value_to_json(v))).collect::<serde_json::Map<_, _>>(),
            "text": format!("{} on {}", show_expr(&self.expr), show_value(&self.facts)),
        })
    }

    pub fn from_json(j: &J) -> Option<Self> {
        let mut fns = BTreeMap::new();
        if let Some(o) = j.get("fns").and_then(|x| x.as_object()) {
            for (k, f) in o {
                fns.insert(
                    k.clone(),
                    FnSpec {
                        cacheable: f.get("cacheable")?.as_bool()?,
                        fail_on: f
                            .get("fail_on")?
                            .as_array()?
                            .iter()
                            .filter_map(|x| x.as_str().map(String::from))
                            .collect(),
                        fail_first: f.get("fail_first")?.as_u64()? as u32,
                        uncacheable_after: f.get("uncacheable_after").and_then(|x| x.as_u64()).unwrap_or(0) as u32 },
                );
            }
        }
        let mut symbols = BTreeMap::new();
        if let Some(o) = j.get("symbols").and_then(|x| x.as_object()) {
            for (k, v) in o {
                symbols.insert(k.clone(), value_from_json(v)?);
            }
        }
        Some(EvalCase {
            expr: expr_from_json(j.get("expr")?)?,
            facts: value_from_json(j.get("facts")?)?,
            fns,
            symbols,
        })
    }

    pub fn render(&self) -> String {
        format!("{} on {}", show_expr(&self.expr), show_value(&self.facts))
    }
}

pub enum Actual {
    Panic(String),
    Pending,
    Done(Result<Value, reval::Error>),
}

pub struct Observed {
    pub actual: Actual,
    pub log: Vec<(String, String)>,
    pub model: MRes,
    pub model_log: Vec<(String, String)>,
}

/// Run one case: through `Expr::evaluate` when it uses no functions/symbols tables, otherwise
/// through a one-rule ruleset with probes.
pub fn observe(case: &EvalCase) -> Observed {
    let mut env = me::Env::new(&case.facts, &case.symbols, &case.fns);
    let model = me::eval(&case.expr, &mut env);
    let model_log = env.log.clone();
    if case.fns.is_empty() && case.symbols.is_empty() {
        let r = catch(|| block_on_bounded(case.expr.evaluate(&case.facts), 4));
        let actual = match r {
            Err(p) => Actual::Panic(p),
            Ok(None) => Actual::Pending,
            Ok(Some(v)) => Actual::Done(v),
        };
        Observed { actual, log: vec![], model, model_log }
    } else {
        let r = catch(|| probe::eval_in_ruleset(&case.expr, &case.facts, &case.fns, &case.symbols));
        match r {
            Err(p) => Observed { actual: Actual::Panic(p), log: vec![], model, model_log },
            Ok((v, log)) => Observed { actual: Actual::Done(v), log, model, model_log },
        }
    }
}

/// Also run through a ruleset even when no tables are needed (second entry point).
pub fn observe_via_ruleset(case: &EvalCase) -> Actual {
    match catch(|| probe::eval_in_ruleset(&case.expr, &case.facts, &case.fns, &case.symbols)) {
        Err(p) => Actual::Panic(p),
        Ok((v, _)) => Actual::Done(v),
    }
}

pub fn root_sig(e: &Expr) -> String {
    match e {
        Expr::Value(_) => "value".into(),
        Expr::Reference(_) => "ref".into(),
        Expr::Symbol(_) => "symbol".into(),
        Expr::Function(..) => "call".into(),
        Expr::Index(..) => "index".into(),
        Expr::Map(_) => "map".into(),
        Expr::Vec(_) => "list".into(),
        _ => node(e).0.into(),
    }
}

/// The first location (root-most, left-most) at which a node kind's direct application overflows
/// is hard to attribute in general; the signature uses the root kind and its operand types when the
/// operands are literals.
pub fn operand_types(e: &Expr) -> String {
    let (_, c) = node(e);
    c.iter()
        .map(|x| match x {
            Expr::Value(v) => type_name(v),
            _ => "expr",
        })
        .collect::<Vec<_>>()
        .join(",")
}

// ------------------------------------------------------------------------------------------
// exhaustive cells

/// Depth-1 cell space over a value pool: every unary kind × value, every binary kind × ordered
/// pair, `if` with every condition, index steps on every value, calls, references in every input shape.
pub struct Cells {
    pub pool: Vec<Value>,
    n: u64,
    u_end: u64,
    b_end: u64,
    if_end: u64,
    idx_end: u64,
    call_end: u64,
    ref_end: u64,
}

pub const IDX_STEPS: usize = 5;
pub const REF_NAMES: [&str; 3] = ["a", "facts", "A"];

pub fn idx_step(k: usize) -> Index {
    match k {
        0 => Index::Map("a".into()),
        1 => Index::Map("facts".into()),
        2 => Index::Vec(0),
        3 => Index::Vec(1),
        _ => Index::Vec(usize::MAX),
    }
}

impl Cells {
    pub fn new(pool: Vec<Value>) -> Self {
        let n = pool.len() as u64;
        let u_end = UNARY_KINDS.len() as u64 * n;
        let b_end = u_end + BINARY_KINDS.len() as u64 * n * n;
        let if_end = b_end + n * 2;
        let idx_end = if_end + n * IDX_STEPS as u64;
        let call_end = idx_end + n;
        let ref_end = call_end + n * REF_NAMES.len() as u64;
        Cells { pool, n, u_end, b_end, if_end, idx_end, call_end, ref_end }
    }

    pub fn count(&self) -> u64 {
        self.ref_end
    }

    fn v(&self, i: u64) -> Expr {
        Expr::Value(self.pool[i as usize].clone())
    }

    pub fn cell(&self, i: u64) -> EvalCase {
        let n = self.n;
        if i < self.u_end {
            let k = UNARY_KINDS[(i / n) as usize];
            EvalCase::plain(mk1(k, self.v(i % n)), Value::None)
        } else if i < self.b_end {
            let j = i - self.u_end;
            let k = BINARY_KINDS[(j / (n * n)) as usize];
            let r = j % (n * n);
            EvalCase::plain(mk2(k, self.v(r / n), self.v(r % n)), Value::None)
        } else if i < self.if_end {
            let j = i - self.b_end;
            let (t, f) = if j / n == 0 {
                (Expr::value(1), Expr::value("e".to_string()))
            } else {
                // branches that fail if evaluated
                (Expr::div(Expr::value(1), Expr::value(0)), Expr::reff("zz"))
            };
            EvalCase::plain(Expr::iif(self.v(j % n), t, f), Value::None)
        } else if i < self.idx_end {
            let j = i - self.if_end;
            EvalCase::plain(Expr::index(self.v(j % n), idx_step((j / n) as usize)), Value::None)
        } else if i < self.call_end {
            let j = i - self.idx_end;
            EvalCase::plain(Expr::func("nofn", self.v(j)), Value::None)
        } else {
            let j = i - self.call_end;
            EvalCase::plain(Expr::reff(REF_NAMES[(j / n) as usize]), self.pool[(j % n) as usize].clone())
        }
    }

    /// class label of a cell: node kind and operand type names
    pub fn class(&self, case: &EvalCase) -> String {
        format!("{}({})", root_sig(&case.expr), operand_types(&case.expr))
    }
}

/// Depth-2 cell space: outer kind applied to an inner depth-1 (unary/binary) cell in each operand
/// position, the other operand ranging over the pool.
pub struct Cells2 {
    pub pool: Vec<Value>,
    n: u64,
    inner: u64,
    u_end: u64,
    total: u64,
}

impl Cells2 {
    pub fn new(pool: Vec<Value>) -> Self {
        let n = pool.len() as u64;
        let inner = UNARY_KINDS.len() as u64 * n + BINARY_KINDS.len() as u64 * n * n;
        let u_end = UNARY_KINDS.len() as u64 * inner;
        let total = u_end + BINARY_KINDS.len() as u64 * 2 * inner * n;
        Cells2 { pool, n, inner, u_end, total }
    }
    pub fn count(&self) -> u64 {
        self.total
    }
    fn v(&self, i: u64) -> Expr {
        Expr::Value(self.pool[i as usize].clone())
    }
    fn inner_expr(&self, i: u64) -> Expr {
        let n = self.n;
        let ue = UNARY_KINDS.len() as u64 * n;
        if i < ue {
            mk1(UNARY_KINDS[(i / n) as usize], self.v(i % n))
        } else {
            let j = i - ue;
            let r = j % (n * n);
            mk2(BINARY_KINDS[(j / (n * n)) as usize], self.v(r / n), self.v(r % n))
        }
    }
    pub fn cell(&self, i: u64) -> EvalCase {
        if i < self.u_end {
            let k = UNARY_KINDS[(i / self.inner) as usize];
            EvalCase::plain(mk1(k, self.inner_expr(i % self.inner)), Value::None)
        } else {
            let j = i - self.u_end;
            let per_kind = 2 * self.inner * self.n;
            let k = BINARY_KINDS[(j / per_kind) as usize];
            let r = j % per_kind;
            let pos = r / (self.inner * self.n);
            let r2 = r % (self.inner * self.n);
            let inner = self.inner_expr(r2 / self.n);
            let other = self.v(r2 % self.n);
            let e = if pos == 0 { mk2(k, inner, other) } else { mk2(k, other, inner) };
            EvalCase::plain(e, Value::None)
        }
    }
}

/// Is a value an extreme of its type (C01's non-triviality rule)?
pub fn is_extreme(v: &Value) -> bool {
    match v {
        Value::Int(i) => {
            let a = i.unsigned_abs();
            a >= (1u128 << 62) || *i == crate::pool::LAST_TS as i128 || *i == crate::pool::FIRST_TS as i128
        }
        Value::Float(f) => !f.is_finite() || f.abs() >= 2f64.powi(63) || (*f == 0.0 && f.is_sign_negative()) || (f.abs() < 1e-300 && *f != 0.0),
        Value::Decimal(d) => d.mantissa().unsigned_abs() >= (1u128 << 95) || d.scale() == 28,
        Value::DateTime(d) => d.timestamp() <= crate::pool::FIRST_TS + 86400 || d.timestamp() >= crate::pool::LAST_TS - 86400,
        Value::Duration(d) => d.num_seconds().unsigned_abs() >= (i64::MAX / 1000 - 86400) as u64,
        Value::Vec(v) => v.is_empty() || v.iter().any(|x| matches!(x, Value::Vec(_) | Value::Map(_))),
        Value::Map(m) => m.is_empty() || m.values().any(|x| matches!(x, Value::Vec(_) | Value::Map(_))),
        Value::None => true,
        _ => false,
    }
}

pub fn facts_extreme(v: &Value) -> bool {
    !matches!(v, Value::None) && is_extreme(v)
}

pub fn has_extreme_literal(e: &Expr) -> bool {
    use Expr as E;
    match e {
        E::Value(v) => is_extreme(v),
        E::Reference(_) | E::Symbol(_) => false,
        E::Function(_, a) | E::Index(a, _) => has_extreme_literal(a),
        E::Map(m) => m.values().any(has_extreme_literal),
        E::Vec(v) => v.iter().any(has_extreme_literal),
        _ => node(e).1.iter().any(|x| has_extreme_literal(x)),
    }
}

/// Structural minimisation after byte-level shrinking: hoist sub-expressions and simplify the input
/// while `fails` still reports an issue.
pub fn minimize(case: &EvalCase, first: crate::core::Issue, fails: &dyn Fn(&EvalCase) -> Option<crate::core::Issue>) -> (EvalCase, crate::core::Issue) {
    let mut best = case.clone();
    let mut issue = first;
    let mut budget = 3000;
    'outer: loop {
        if crate::data::expr_size(&best.expr) > 400 {
            break;
        }
        for v in simpler_variants(&best.expr) {
            budget -= 1;
            if budget <= 0 {
                break 'outer;
            }
            let cand = EvalCase { expr: v, ..best.clone() };
            if let Some(i) = fails(&cand) {
                best = cand;
                issue = i;
                continue 'outer;
            }
        }
        break;
    }
    for f in [Value::None, Value::Map(BTreeMap::new())] {
        let cand = EvalCase { facts: f, ..best.clone() };
        if let Some(i) = fails(&cand) {
            best = cand;
            issue = i;
            break;
        }
    }
    if !best.fns.is_empty() || !best.symbols.is_empty() {
        let cand = EvalCase { fns: BTreeMap::new(), symbols: BTreeMap::new(), ..best.clone() };
        if let Some(i) = fails(&cand) {
            best = cand;
            issue = i;
        }
    }
    (best, issue)
}

/// "parsed from text or built through the public constructors": when the expression lies in the parser's
/// image, render it with the harness printer, parse it with `Expr::parse` and return that tree.
pub fn through_text(e: &Expr, bytes: &[u8]) -> Option<Expr> {
    let mut d = crate::gen::Dec::new(bytes);
    let toks = crate::model::print::tokens(e, crate::model::print::Mode::Rand, Some(&mut d))?;
    // names must lex as identifiers
    fn names_ok(e: &Expr) -> bool {
        use Expr as E;
        let ok = |n: &str| !crate::model::lex::is_reserved_spelling(n);
        (match e {
            E::Reference(n) | E::Symbol(n) | E::Function(n, _) => ok(n),
            E::Index(_, reval::expr::Index::Map(k)) => ok(k),
            E::Map(m) => m.keys().all(|k| ok(k)),
            _ => true,
        }) && children(e).iter().all(|c| names_ok(c))
    }
    if !names_ok(e) {
        return None;
    }
    let text = crate::model::print::plain_text(&toks);
    crate::core::parse_guarded(&text)?.ok()
}
