//! C14 — a rule's name, description, metadata and expression are extracted exactly.
//! The text is assembled from a line script, so the expected parts are known by construction.

use crate::core::*;
use crate::data::*;
use crate::gen::{self, Dec};
use crate::model::lex::Tok;
use crate::model::print::{self, Mode};
use reval::prelude::*;
use serde_json::json;
use std::collections::BTreeMap;

#[derive(Clone, Debug)]
struct MetaItem {
    key: String,
    /// the constant written, or None when the value is not a constant
    value: Option<Value>,
    tokens: Vec<Tok>,
}

#[derive(Clone, Debug)]
struct Script {
    /// full text
    text: String,
    /// comment line contents (raw, untrimmed), in order of appearance
    comments: Vec<String>,
    meta: Vec<MetaItem>,
    expr: Expr,
    expr_text: String,
    /// the text contains a line starting with // inside a multi-line string literal (known finding D12)
    comment_in_string: bool,
}

#[derive(Debug, PartialEq)]
enum Expect {
    Ok { name: String, description: Option<String>, metadata: BTreeMap<String, Value> },
    MissingName,
    Rejected,
}

const KEYS: [&str; 17] = ["name", "description", "k", "K", "meta", "a1", "name_", "Description", "k", "namespace", "names", "name2", "descriptions", "key", "val", "starts", "ends"];

fn const_value(d: &mut Dec, depth: u32) -> (Expr, Value) {
    if depth > 0 && d.below(3) == 0 {
        if d.bool() {
            let n = d.below(4);
            let items: Vec<(Expr, Value)> = (0..n).map(|_| const_value(d, depth - 1)).collect();
            (
                Expr::Vec(items.iter().map(|x| x.0.clone()).collect()),
                Value::Vec(items.into_iter().map(|x| x.1).collect()),
            )
        } else {
            let n = d.below(4);
            let mut em = BTreeMap::new();
            let mut vm = BTreeMap::new();
            for _ in 0..n {
                let k = gen::image_name(d);
                let (e, v) = const_value(d, depth - 1);
                em.insert(k.clone(), e);
                vm.insert(k, v);
            }
            (Expr::Map(em), Value::Map(vm))
        }
    } else {
        let lit = if d.below(6) == 5 {
            Value::String((*d.pick(&["https://example.com/rules", "// not a comment", "a//b", "//", "x // y // z"])).to_string())
        } else {
            gen::image_literal(d)
        };
        let v = match lit {
            // strings without raw line breaks here; the line-break class is generated separately
            Value::String(s) => Value::String(s.replace(['\n', '\r'], " ")),
            Value::Float(f) if !f.is_finite() => Value::Float(1.0),
            other => other,
        };
        (Expr::Value(v.clone()), v)
    }
}

fn non_constant(d: &mut Dec) -> Expr {
    match d.below(24) {
        // conversions and other built-ins applied to constants are calls, not constants
        12 => Expr::datetime(Expr::value("2015-07-30T03:26:13Z".to_string())),
        13 => Expr::Vec(vec![Expr::datetime(Expr::value("2015-07-30T03:26:13+02:00".to_string()))]),
        14 => Expr::duration(Expr::value(60)),
        15 => Expr::int(Expr::value("5".to_string())),
        16 => Expr::Map([("k".to_string(), Expr::dec(Expr::value(1)))].into_iter().collect()),
        17 => Expr::float(Expr::value(1)),
        18 => Expr::some(Expr::value(1)),
        19 => Expr::uppercase(Expr::value("a".to_string())),
        20 => Expr::trim(Expr::value(" a ".to_string())),
        21 => Expr::eq(Expr::value(1), Expr::value(1)),
        22 => Expr::year(Expr::datetime(Expr::value("2015-07-30T03:26:13Z".to_string()))),
        23 => Expr::index(Expr::Vec(vec![Expr::value(1)]), reval::expr::Index::Vec(0)),
        8 => Expr::neg(Expr::Value(Value::Int(i128::MIN))),
        9 => Expr::neg(Expr::Value(crate::pool::dec((1i128 << 96) - 1, 0))),
        10 => Expr::Vec(vec![Expr::neg(Expr::neg(Expr::Value(Value::Int(i128::MIN))))]),
        11 => Expr::Map([("k".to_string(), Expr::not(Expr::Value(Value::Int(i128::MIN))))].into_iter().collect()),
        0 => Expr::neg(Expr::value(1)),
        1 => Expr::add(Expr::value(1), Expr::value(2)),
        2 => Expr::reff("a"),
        3 => Expr::func("fun", Expr::value(1)),
        4 => Expr::Vec(vec![Expr::value(1), Expr::reff("a")]),
        5 => Expr::Map([("k".to_string(), Expr::symbol("s"))].into_iter().collect()),
        6 => Expr::iif(Expr::value(true), Expr::value(1), Expr::value(2)),
        _ => Expr::Vec(vec![Expr::Vec(vec![Expr::not(Expr::value(true))])]),
    }
}

fn strip_newlines(e: &Expr) -> Expr {
    match e {
        Expr::Value(Value::String(s)) => Expr::Value(Value::String(s.replace(['\n', '\r'], " "))),
        Expr::Value(Value::Float(f)) if !f.is_finite() => Expr::Value(Value::Float(2.5)),
        _ => rebuild(e, children(e).iter().map(|c| strip_newlines(c)).collect()),
    }
}

fn comment_text(d: &mut Dec) -> String {
    match d.below(19) {
        0 => String::new(),
        1 => " ".into(),
        2 => "/ triple slash".into(),
        // more slashes after the marker are content
        10 => "// four slashes".into(),
        11 => "//////".into(),
        12 => format!("/// n{} //", d.below(9)),
        // indentation after the marker with white space of more than one byte
        13 => "\u{a0}\u{3000}wide indent".into(),
        14 => format!(" \u{2003}\u{2028}em {}\u{85}", d.below(9)),
        15 => "\u{3000}".into(),
        // quotes in comments are just characters: an odd number of them, an opening one that is closed lines later
        16 => " for 19\" racks".into(),
        17 => format!(" it's \"quoted {} ...", d.below(9)),
        18 => " ... closed here\" ok".into(),
        3 => "\t padded name \t ".into(),
        4 => " @name: \"not metadata\";".into(),
        5 => " i1 + i2".into(),
        6 => " ünï \"quoted\" \\ ".into(),
        7 => format!("Rule{} MiXed İǅΣ", d.below(50)),
        8 => format!("  Line {} of the DESCRIPTION  ", d.below(50)),
        _ => format!(" c{} // nested", d.below(9)),
    }
}

fn build_script(bytes: &[u8]) -> Script {
    let mut d = Dec::new(bytes);
    let nl = if d.below(4) == 0 { "\r\n" } else { "\n" };
    // metadata items
    // (one script in forty is large: up to 40 metadata items and ten times the comment lines)
    let large = d.below(40) == 39;
    let nmeta = if large { 5 + d.below(36) } else { d.below(5) };
    let mut meta: Vec<MetaItem> = vec![];
    let mut have_name = false;
    for mi in 0..nmeta {
        let mut key = d.pick(&KEYS).to_string();
        if large && d.below(3) != 0 {
            key = format!("{key}{mi}");
        }
        if key == "name" {
            if have_name {
                key = "k".into();
            } else {
                have_name = true;
            }
        }
        let (e, v) = if key == "name" {
            if d.below(10) == 0 {
                let (e, v) = const_value(&mut d, 1);
                (e, Some(v))
            } else {
                // (the name is the string written: padding, tabs and line breaks inside the quotes belong to it)
                let s = match d.below(8) {
                    0 => format!(" padded {} ", d.below(20)),
                    1 => format!("\ttab {}\n", d.below(20)),
                    2 => format!("\u{a0}nbsp {}\u{a0}", d.below(20)),
                    _ => format!("Meta NAME {} İ", d.below(20)),
                };
                (Expr::Value(Value::String(s.clone())), Some(Value::String(s)))
            }
        } else if d.below(8) == 0 {
            (non_constant(&mut d), None)
        } else {
            let (e, v) = const_value(&mut d, 3);
            (e, Some(v))
        };
        let mode = if d.bool() { Mode::Min } else { Mode::Rand };
        let mut tokens = vec![Tok::Fix("@"), Tok::Ident(key.clone()), Tok::Fix(":")];
        let vt = if mode == Mode::Rand {
            print::tokens(&e, Mode::Rand, Some(&mut d))
        } else {
            print::tokens(&e, Mode::Min, None)
        }
        .expect("constants are printable");
        // random rendering may use raw line breaks inside strings: re-render strings minimally
        let vt: Vec<Tok> = vt
            .into_iter()
            .map(|t| match &t {
                Tok::Str(s) if s.contains('\n') || s.contains('\r') => Tok::Str(s.replace('\n', "\\n").replace('\r', "\\r")),
                _ => t,
            })
            .collect();
        tokens.extend(vt);
        tokens.push(Tok::Fix(";"));
        meta.push(MetaItem { key, value: v, tokens });
    }
    // expression
    let depth = d.below(5) as u32;
    let expr = strip_newlines(&gen::gen_image(&mut d, depth));
    // sometimes the expression compares with a string that contains two slashes (content, not a comment)
    let expr = if d.below(6) == 5 {
        Expr::neq(
            Expr::Value(Value::String((*d.pick(&["http://localhost", "//", "a // b"])).to_string())),
            Expr::index(expr, reval::expr::Index::Map("url".into())),
        )
    } else {
        expr
    };
    // D12 class: a multi-line string literal one of whose lines starts with //
    let comment_in_string = d.below(40) == 39;
    // a multi-line string literal whose line breaks are content (written raw, with the text's own line ending)
    let multiline_string = !comment_in_string && d.below(20) == 19;
    let (expr, etoks, expr_text) = if comment_in_string || multiline_string {
        let inner = print::tokens(&expr, Mode::Min, None).expect("image trees are printable");
        let s = if comment_in_string { format!("x{nl}// inside{nl}") } else { format!("x{nl}  y // no comment{nl}{nl}z\r") };
        let mut t = vec![Tok::Fix("(")];
        t.extend(inner);
        t.push(Tok::Fix(")"));
        t.push(Tok::Fix("=="));
        t.push(Tok::Str(format!("\"{s}\"")));
        (Expr::eq(expr, Expr::Value(Value::String(s))), t, String::new())
    } else {
        let etoks: Vec<Tok> = print::tokens(&expr, Mode::Min, None).expect("image trees are printable");
        let text = print::plain_text(&etoks);
        (expr, etoks, text)
    };

    // layout
    let mut all: Vec<Tok> = vec![];
    for m in &meta {
        all.extend(m.tokens.iter().cloned());
    }
    all.extend(etoks.iter().cloned());
    let mut comments: Vec<String> = vec![];
    let mut text = String::new();
    let emit_comments = |d: &mut Dec, text: &mut String, comments: &mut Vec<String>, max: usize| {
        let n = d.below(max + 1);
        for _ in 0..n {
            match d.below(6) {
                0 => text.push_str(nl), // blank line
                _ => {
                    let indent = *d.pick(&["", "", "  ", "\t", " \u{a0}"]);
                    let c = comment_text(d);
                    text.push_str(indent);
                    text.push_str("//");
                    text.push_str(&c);
                    text.push_str(nl);
                    comments.push(c);
                }
            }
        }
    };
    emit_comments(&mut d, &mut text, &mut comments, if large { 30 } else { 3 });
    let mut at_line_start = true;
    // (the key is usually written right behind its `@`, sometimes after a blank)
    let glue_at = d.below(4) != 3;
    for (i, t) in all.iter().enumerate() {
        let after_at = i > 0 && matches!(all[i - 1], Tok::Fix("@"));
        if !at_line_start && !(after_at && glue_at) {
            text.push(' ');
        }
        text.push_str(t.text());
        at_line_start = false;
        let last = i + 1 == all.len();
        // break after ';' usually, elsewhere sometimes
        let brk = if matches!(t, Tok::Fix(";")) { d.below(4) != 0 } else { d.below(6) == 0 };
        if brk && !last {
            text.push_str(nl);
            at_line_start = true;
            if d.below(3) == 0 {
                emit_comments(&mut d, &mut text, &mut comments, 2);
            }
        }
    }
    if d.bool() {
        text.push_str(nl);
        emit_comments(&mut d, &mut text, &mut comments, 2);
    }
    Script { text, comments, meta, expr, expr_text, comment_in_string }
}

fn expectation(s: &Script) -> Expect {
    let mut name: Option<String> = None;
    let mut metadata = BTreeMap::new();
    for m in &s.meta {
        match (&m.key[..], &m.value) {
            (_, None) => return Expect::Rejected,
            ("name", Some(Value::String(n))) => name = Some(n.clone()),
            ("name", Some(_)) => return Expect::Rejected,
            (k, Some(v)) => {
                metadata.insert(k.to_string(), v.clone());
            }
        }
    }
    let trimmed: Vec<String> = s.comments.iter().map(|c| c.trim().to_string()).collect();
    let name = match name.or_else(|| trimmed.first().cloned()) {
        Some(n) => n,
        None => return Expect::MissingName,
    };
    let description = match metadata.get("description") {
        Some(Value::String(d)) => Some(d.clone()),
        Some(_) => None,
        None => {
            if trimmed.len() > 1 {
                Some(trimmed[1..].join("\n"))
            } else {
                None
            }
        }
    };
    Expect::Ok { name, description, metadata }
}

fn check(s: &Script) -> Verdict {
    let want = expectation(s);
    let got = match catch(|| Rule::parse(&s.text)) {
        Ok(r) => r,
        Err(p) => return Err(Issue::new("rule:panic", format!("Rule::parse panicked ({p}) on {:?}", s.text))),
    };
    let d12 = s.comment_in_string;
    let fail = |part: &str, msg: String| {
        let sig = if d12 { format!("rule:comment-line-inside-string:{part}") } else { format!("rule:{part}") };
        Err(Issue::new(sig, format!("{msg}; rule text {:?}", s.text)))
    };
    match (&want, &got) {
        (Expect::Rejected, Err(reval::parse::Error::RuleParseError(_))) => Ok(()),
        (Expect::Rejected, other) => fail(
            "reject",
            format!("a non-constant metadata value or non-string @name must be rejected with a rule parse error, got {}", show_rule(other)),
        ),
        (Expect::MissingName, Err(reval::parse::Error::MissingRuleName)) => Ok(()),
        (Expect::MissingName, other) => {
            fail("missing-name", format!("text without @name and without comment lines must give the missing-name error, got {}", show_rule(other)))
        }
        (Expect::Ok { .. }, Err(e)) => fail("rejected-valid", format!("valid rule text rejected: {e}")),
        (Expect::Ok { name, description, metadata }, Ok(rule)) => {
            if rule.name() != name {
                return fail("name", format!("name is {:?}, expected {:?}", rule.name(), name));
            }
            if rule.description() != description.as_deref() {
                return fail("description", format!("description is {:?}, expected {:?}", rule.description(), description));
            }
            // metadata: exactly the @keys (other than name); a comment-derived description may also be listed
            let got_meta: BTreeMap<String, Value> = rule.iter_metadata().map(|(k, v)| (k.to_string(), v.clone())).collect();
            for (k, v) in metadata {
                match got_meta.get(k) {
                    Some(g) if same_value(g, v, true) => {}
                    other => {
                        return fail(
                            "metadata",
                            format!("metadata {k:?} is {:?}, expected {}", other.map(show_value), show_value(v)),
                        )
                    }
                }
            }
            for k in got_meta.keys() {
                if !metadata.contains_key(k) && k != "description" {
                    return fail("metadata", format!("unexpected metadata entry {k:?}"));
                }
            }
            if got_meta.contains_key("name") && !metadata.contains_key("name") {
                return fail("metadata", "name must not be a metadata entry".into());
            }
            // expression: what the text without the metadata prefix parses to
            if !same_expr(rule.expr(), &s.expr) {
                return fail("expr", format!("expression is {}, expected {}", show_expr(rule.expr()), show_expr(&s.expr)));
            }
            if !s.expr_text.is_empty() {
                match crate::core::parse_guarded(&s.expr_text).unwrap_or(Err("panic".into())) {
                    Ok(e) if same_expr(&e, rule.expr()) => {}
                    other => {
                        return fail(
                            "expr",
                            format!("expression differs from Expr::parse({:?}) = {:?}", s.expr_text, other.map(|e| show_expr(&e))),
                        )
                    }
                }
            }
            Ok(())
        }
    }
}

fn show_rule(r: &Result<Rule, reval::parse::Error>) -> String {
    match r {
        Ok(rule) => format!("Ok(name {:?})", rule.name()),
        Err(e) => format!("Err({e:?})"),
    }
}

pub fn run(ctx: &Ctx) {
    ctx.set_rule(
        "Generated rule texts assembled from a line script: 0-4 metadata items (keys from a pool with name, description, duplicates, \
         case variants; values: every literal kind, nested lists/maps to depth 3 rendered minimally or with random spellings, and \
         non-constants -i1, i1+i2, a, fun(i1), [i1, a], {k: :s}, if.., [[!true]]; @name a string or, rarely, another constant), a \
         random parser-image expression, tokens laid out over lines with breaks at random token boundaries, and 0-3 comment lines \
         or blank lines inserted before, between (also inside a metadata item or the expression) and after, indented (spaces, tab, \
         NBSP), empty, ///, containing metadata-looking or expression-looking text, with \\n or \\r\\n endings. Oracle: by \
         construction of the script (name, description, metadata with last-wins, expression == the generated tree and == \
         Expr::parse of the expression part; non-constant / non-string-name => rule parse error; no name => missing-name error). \
         Non-trivial: >= 2 comment lines not all leading, or >= 2 metadata items, or a name/description override. A low-weight class \
         puts a //-line inside a multi-line string literal (known finding).",
    );
    ctx.assume("duplicate @name items and lone-\\r line endings are not generated: the property does not say what they mean");

    super::regressions::run(ctx, "C14", |j| replay(j));

    super::c14_tokens::run(ctx);

    // many metadata items, most keys written several times
    let sizes = [2usize, 5, 20, 21, 32, 33, 34, 40, 48, 64, 65, 100, 128, 129, 301, 1000];
    let layouts = ctx.tier.pick(40u64, 400u64);
    ctx.enumerate(
        "many-metadata-items",
        sizes.len() as u64 * layouts,
        true,
        |i, acc| {
            let (n, seed) = (sizes[(i / layouts) as usize], ctx.seed.wrapping_add(i % layouts));
            acc.cell(if n >= 33 { "many-items:33-or-more" } else { "many-items:fewer" }, true);
            if i % 53 == 0 {
                acc.sample("many-items", || format!("{n} metadata items, layout {seed}"));
            }
            check_many_items(n, seed)
        },
        |i| json!({"many_items": [sizes[(i / layouts) as usize], ctx.seed.wrapping_add(i % layouts)]}),
        "many-items",
    );

    let n = ctx.tier.pick(60_000u64, 1_500_000u64);
    ctx.random(
        "line-scripts",
        n,
        || gen::recipe(500),
        |bytes, acc| {
            let s = build_script(bytes);
            if let Some(acc) = acc {
                let want = expectation(&s);
                let class = match (&want, s.comment_in_string) {
                    (_, true) => "script:comment-in-string",
                    (Expect::Ok { .. }, _) => "script:valid",
                    (Expect::MissingName, _) => "script:missing-name",
                    (Expect::Rejected, _) => "script:rejected",
                };
                let overrides = s.meta.iter().any(|m| m.key == "name" || m.key == "description") && !s.comments.is_empty();
                let nt = s.comments.len() >= 2 || s.meta.len() >= 2 || overrides;
                acc.case(class, nt, || s.text.clone());
            }
            check(&s)
        },
        |bytes| {
            let s = build_script(bytes);
            json!({"script_bytes": bytes, "text": s.text})
        },
        "script",
    );
}

/// A rule text with `n` metadata items over a small pool of keys (so most keys are written several times, each time with
/// another value; the layout is derived from `seed`): every key holds the value written last, the name and the
/// description are the ones written, the expression is untouched.
fn check_many_items(n: usize, seed: u64) -> Verdict {
    let mut x = seed.wrapping_mul(0x9E37_79B9_7F4A_7C15) ^ (n as u64) ^ 0x5DEECE66D;
    let mut next = move |m: u64| {
        x ^= x << 13;
        x ^= x >> 7;
        x ^= x << 17;
        x % m
    };
    let pool = 3 + next(12) as usize;
    let name_at = next(n as u64) as usize;
    let descr_at = next(n as u64) as usize;
    let mut want: BTreeMap<String, Value> = BTreeMap::new();
    let mut text = String::from("// many items\n");
    let mut description = None;
    for i in 0..n {
        if i == name_at {
            text.push_str("@name: \"the name\";\n");
        }
        if i == descr_at {
            text.push_str(&format!("@description: \"described {i}\";\n"));
            description = Some(format!("described {i}"));
            want.insert("description".to_string(), Value::String(format!("described {i}")));
        }
        let key = format!("key{:03}", next(pool as u64));
        let value = match next(4) {
            0 => (format!("i{i}"), Value::Int(i as i128)),
            1 => (format!("\"v{i}\""), Value::String(format!("v{i}"))),
            2 => (format!("[i{i}, i{i}]"), Value::Vec(vec![Value::Int(i as i128), Value::Int(i as i128)])),
            _ => (format!("{{at: i{i}}}"), crate::pool::map(&[("at", Value::Int(i as i128))])),
        };
        text.push_str(&format!("@{key}: {};{}", value.0, if next(3) == 0 { " " } else { "\n" }));
        want.insert(key, value.1);
    }
    text.push_str("a + i1\n");
    let rule = match catch(|| Rule::parse(&text)) {
        Err(p) => return Err(Issue::new("rule:many-items:panic", format!("Rule::parse panicked ({p}) on a rule text with {n} metadata items"))),
        Ok(Err(e)) => return Err(Issue::new("rule:many-items:rejected", format!("a rule text with {n} constant metadata items and a name is rejected: {e:?}; text {text:?}"))),
        Ok(Ok(r)) => r,
    };
    let got: BTreeMap<String, Value> = rule.iter_metadata().map(|(k, v)| (k.to_string(), v.clone())).collect();
    let wrong: Vec<String> = want
        .iter()
        .filter(|(k, v)| !got.get(*k).map(|g| same_value(g, v, true)).unwrap_or(false))
        .map(|(k, v)| format!("@{k} is {} but the value written last is {}", got.get(k).map(show_value).unwrap_or_else(|| "absent".into()), show_value(v)))
        .collect();
    let descr_ok = match &description {
        Some(d) => rule.description() == Some(d.as_str()),
        None => true,
    };
    if !wrong.is_empty() || got.len() != want.len() || rule.name() != "the name" || !descr_ok || !same_expr(rule.expr(), &Expr::add(Expr::reff("a"), Expr::value(1))) {
        return Err(Issue::new(
            "rule:many-items",
            format!(
                "a rule text with {n} metadata items over {pool} keys (layout {seed}): name {:?}, description {:?}, {} metadata entries (expected {}), expression {}; {}; text {text:?}",
                rule.name(),
                rule.description(),
                got.len(),
                want.len(),
                show_expr(rule.expr()),
                wrong.join("; ")
            ),
        ));
    }
    Ok(())
}

pub fn replay(j: &serde_json::Value) -> Option<Verdict> {
    if let Some(a) = j.get("many_items").and_then(|a| a.as_array()) {
        return Some(check_many_items(a.first()?.as_u64()? as usize, a.get(1)?.as_u64()?));
    }
    if j.get("rule_tokens").is_some() {
        return super::c14_tokens::replay(j);
    }
    let bytes: Vec<u8> = j.get("script_bytes")?.as_array()?.iter().filter_map(|b| b.as_u64().map(|x| x as u8)).collect();
    Some(check(&build_script(&bytes)))
}

/// Entry point of the `set_diff` fuzz target.
pub(crate) fn fuzz_bytes(bytes: &[u8]) -> Verdict {
    check(&build_script(bytes))
}
