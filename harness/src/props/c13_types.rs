//! C13, differential part over real-world `Serialize` implementations: derive-generated ones (all container /
//! variant / field attributes that change the shape of the output) and the ones serde ships for std types, each
//! serialized with reval's serializer and with serde_json, and compared.

use crate::core::catch;
use reval::value::ser::ValueSerializer;
use reval::value::Value;
use serde::Serialize;
use std::collections::{BTreeMap, BTreeSet, HashMap, VecDeque};

#[derive(Clone, Copy, PartialEq, Debug)]
pub enum Expect {
    /// a faithful image
    Image,
    /// an error (the property lists the reason)
    Error,
    /// a map key that is not a string: an error, or the image serde_json gives
    KeyDependent,
}

pub struct TypeCase {
    pub name: String,
    pub expect: Expect,
    /// Ok(image) / Err(message) / panic text
    pub reval: Result<Result<Value, String>, String>,
    /// serde_json image mapped into Value (None: serde_json refuses, or not JSON-representable)
    pub json: Option<Value>,
}

fn json_to_value(j: &serde_json::Value) -> Option<Value> {
    Some(match j {
        serde_json::Value::Null => Value::None,
        serde_json::Value::Bool(b) => Value::Bool(*b),
        serde_json::Value::Number(n) => {
            if let Some(i) = n.as_i64() {
                Value::Int(i as i128)
            } else if let Some(u) = n.as_u64() {
                Value::Int(u as i128)
            } else {
                Value::Float(n.as_f64()?)
            }
        }
        serde_json::Value::String(s) => Value::String(s.clone()),
        serde_json::Value::Array(a) => Value::Vec(a.iter().map(json_to_value).collect::<Option<Vec<_>>>()?),
        serde_json::Value::Object(o) => {
            Value::Map(o.iter().map(|(k, v)| json_to_value(v).map(|v| (k.clone(), v))).collect::<Option<BTreeMap<_, _>>>()?)
        }
    })
}

fn case<T: Serialize>(name: &str, v: &T) -> TypeCase {
    let reval = catch(|| v.serialize(ValueSerializer).map_err(|e| e.to_string()));
    let json = serde_json::to_value(v).ok().and_then(|j| json_to_value(&j));
    let expect = if name.contains("(must fail)") || name.contains("(Serialize fails)") {
        Expect::Error
    } else if name.contains("keys") {
        Expect::KeyDependent
    } else {
        Expect::Image
    };
    TypeCase { name: name.to_string(), expect, reval, json }
}

#[derive(Serialize)]
struct Plain {
    id: u32,
    name: String,
    score: f64,
    tags: Vec<String>,
    parent: Option<Box<Plain>>,
}

#[derive(Serialize)]
#[serde(rename_all = "camelCase")]
struct Renamed {
    first_name: String,
    #[serde(rename = "type")]
    kind: u8,
    #[serde(skip)]
    #[allow(dead_code)]
    secret: u8,
    #[serde(skip_serializing_if = "Option::is_none")]
    maybe: Option<i32>,
    #[serde(skip_serializing_if = "Vec::is_empty")]
    items: Vec<i32>,
}

#[derive(Serialize)]
struct Inner {
    a: i32,
    b: String,
}

#[derive(Serialize)]
struct Flattened {
    a: i64,
    #[serde(flatten)]
    inner: Inner,
    #[serde(flatten)]
    extra: BTreeMap<String, i32>,
}

#[derive(Serialize)]
#[serde(tag = "type")]
enum Internal {
    Unit,
    Struct { x: i32, y: Option<String> },
    Newtype(Inner),
    Map(BTreeMap<String, bool>),
}

#[derive(Serialize)]
#[serde(tag = "t", content = "c")]
enum Adjacent {
    Unit,
    Newtype(i64),
    Tuple(i8, String),
    Struct { z: f32 },
}

#[derive(Serialize)]
#[serde(untagged)]
enum Untagged {
    Int(i64),
    Text(String),
    Pair(i32, i32),
    Rec { r: Vec<Untagged> },
    Nothing,
}

#[derive(Serialize)]
enum External {
    Unit,
    Newtype(Vec<u8>),
    Tuple(u8, u16, u32),
    Struct { deep: Box<External> },
    #[serde(rename = "renamed-variant")]
    Renamed,
}

/// an enum with struct and tuple variants flattened into a struct (serde feeds such maps key by key)
#[derive(Serialize)]
enum Shape {
    Circle { radius: u32 },
    Pair(i8, i8),
    Unit,
}

#[derive(Serialize)]
struct Tagged {
    id: u8,
    #[serde(flatten)]
    shape: Shape,
    name: &'static str,
}

#[derive(Serialize)]
#[serde(tag = "kind")]
enum Outer {
    Wrap(Wrapped),
}

#[derive(Serialize)]
struct Wrapped {
    inner: Shape,
    n: u8,
}

/// a type that serializes as whatever its Display prints (`Serializer::collect_str`)
struct ShowAs(&'static str);

impl Serialize for ShowAs {
    fn serialize<S: serde::Serializer>(&self, s: S) -> Result<S::Ok, S::Error> {
        s.collect_str(self.0)
    }
}

/// types that hand an iterator to `Serializer::collect_seq` / `collect_map`; the iterators' size hints are inexact
/// (filter, take_while, chars, chained, flat_map), exact, or absent
struct Evens(Vec<i64>);
impl Serialize for Evens {
    fn serialize<S: serde::Serializer>(&self, s: S) -> Result<S::Ok, S::Error> {
        s.collect_seq(self.0.iter().filter(|x| *x % 2 == 0))
    }
}
struct Letters(&'static str);
impl Serialize for Letters {
    fn serialize<S: serde::Serializer>(&self, s: S) -> Result<S::Ok, S::Error> {
        s.collect_seq(self.0.chars())
    }
}
struct Words(&'static str);
impl Serialize for Words {
    fn serialize<S: serde::Serializer>(&self, s: S) -> Result<S::Ok, S::Error> {
        s.collect_seq(self.0.split(' '))
    }
}
struct Until(Vec<u8>, u8);
impl Serialize for Until {
    fn serialize<S: serde::Serializer>(&self, s: S) -> Result<S::Ok, S::Error> {
        s.collect_seq(self.0.iter().take_while(|x| **x != self.1))
    }
}
struct Flat(Vec<Vec<u8>>);
impl Serialize for Flat {
    fn serialize<S: serde::Serializer>(&self, s: S) -> Result<S::Ok, S::Error> {
        s.collect_seq(self.0.iter().flat_map(|v| v.iter()))
    }
}
struct Generated(u32);
impl Serialize for Generated {
    fn serialize<S: serde::Serializer>(&self, s: S) -> Result<S::Ok, S::Error> {
        let mut n = 0;
        s.collect_seq(std::iter::from_fn(|| {
            n += 1;
            (n <= self.0).then_some(n)
        }))
    }
}
struct Positive(Vec<(&'static str, i32)>);
impl Serialize for Positive {
    fn serialize<S: serde::Serializer>(&self, s: S) -> Result<S::Ok, S::Error> {
        s.collect_map(self.0.iter().filter(|(_, v)| *v > 0).map(|(k, v)| (*k, *v)))
    }
}
struct Exact(Vec<u8>);
impl Serialize for Exact {
    fn serialize<S: serde::Serializer>(&self, s: S) -> Result<S::Ok, S::Error> {
        s.collect_seq(self.0.iter().rev().skip(1))
    }
}

#[derive(Serialize)]
enum OddNames {
    #[serde(rename = "")]
    Empty(u8, u8),
    #[serde(rename = " ")]
    Blank { x: u8 },
    #[serde(rename = "")]
    #[allow(dead_code)]
    Never,
}

#[derive(Serialize)]
struct UnitStruct;

#[derive(Serialize)]
struct NewType(u64);

#[derive(Serialize)]
struct TupleStruct(i8, String, Option<()>);

/// user types that merely share their name with one of reval's value kinds
mod lookalikes {
    use serde::Serialize;
    #[derive(Serialize)]
    pub struct Duration(pub i64);
    #[derive(Serialize)]
    pub struct Decimal(pub String);
    #[derive(Serialize)]
    pub struct DateTime(pub String);
    #[derive(Serialize)]
    pub struct Value(pub u8);
    #[derive(Serialize)]
    pub struct Int {
        pub value: f32,
    }
    #[derive(Serialize)]
    pub enum Option {
        None,
        Some(u8),
    }
}

#[derive(Serialize)]
struct Generic<T> {
    value: T,
    list: Vec<T>,
}

#[derive(Serialize)]
struct WithBytes<'a> {
    #[serde(with = "as_bytes")]
    raw: &'a [u8],
}

mod as_bytes {
    pub fn serialize<S: serde::Serializer>(v: &&[u8], s: S) -> Result<S::Ok, S::Error> {
        s.serialize_bytes(v)
    }
}

#[derive(Serialize)]
struct Times {
    when: chrono::DateTime<chrono::Utc>,
    naive: chrono::NaiveDate,
    std_duration: std::time::Duration,
}

pub fn cases() -> Vec<TypeCase> {
    let plain = || Plain {
        id: 7,
        name: "n".into(),
        score: 0.5,
        tags: vec!["a".into(), "b".into()],
        parent: Some(Box::new(Plain { id: u32::MAX, name: String::new(), score: -0.0, tags: vec![], parent: None })),
    };
    let mut hm: HashMap<String, Vec<Option<i16>>> = HashMap::new();
    hm.insert("k1".into(), vec![Some(1), None, Some(i16::MIN)]);
    hm.insert("k0".into(), vec![]);
    let mut int_keys: BTreeMap<i32, &str> = BTreeMap::new();
    int_keys.insert(1, "one");
    let mut char_keys: BTreeMap<char, u8> = BTreeMap::new();
    char_keys.insert('c', 1);
    let mut v = vec![
        case("struct", &plain()),
        case("vec of structs", &vec![plain(), plain()]),
        case("rename_all / rename / skip / skip_serializing_if (none, empty)", &Renamed { first_name: "f".into(), kind: 1, secret: 9, maybe: None, items: vec![] }),
        case("rename_all / skip_serializing_if (some, non-empty)", &Renamed { first_name: "f".into(), kind: 1, secret: 9, maybe: Some(-1), items: vec![1] }),
        case("flatten struct and map", &Flattened { a: 1, inner: Inner { a: 2, b: "x".into() }, extra: [("e".to_string(), 5), ("b".to_string(), 6)].into_iter().collect() }),
        case("internally tagged unit", &Internal::Unit),
        case("internally tagged struct", &Internal::Struct { x: 1, y: None }),
        case("internally tagged newtype of struct", &Internal::Newtype(Inner { a: 1, b: "b".into() })),
        case("internally tagged newtype of map", &Internal::Map([("k".to_string(), true)].into_iter().collect())),
        case("adjacently tagged unit", &Adjacent::Unit),
        case("adjacently tagged newtype", &Adjacent::Newtype(i64::MIN)),
        case("adjacently tagged tuple", &Adjacent::Tuple(-1, "s".into())),
        case("adjacently tagged struct", &Adjacent::Struct { z: 0.25 }),
        case("untagged int", &Untagged::Int(5)),
        case("untagged text", &Untagged::Text("t".into())),
        case("untagged pair", &Untagged::Pair(1, 2)),
        case("untagged recursive", &Untagged::Rec { r: vec![Untagged::Nothing, Untagged::Int(1), Untagged::Rec { r: vec![] }] }),
        case("externally tagged unit", &External::Unit),
        case("externally tagged newtype of bytes-as-seq", &External::Newtype(vec![0, 127, 255])),
        case("externally tagged tuple", &External::Tuple(u8::MAX, u16::MAX, u32::MAX)),
        case("externally tagged nested struct", &External::Struct { deep: Box::new(External::Struct { deep: Box::new(External::Renamed) }) }),
        case("flattened enum: struct variant", &Tagged { id: 7, shape: Shape::Circle { radius: 3 }, name: "c" }),
        case("flattened enum: tuple variant", &Tagged { id: 7, shape: Shape::Pair(-1, 1), name: "p" }),
        case("internally tagged newtype holding an enum", &Outer::Wrap(Wrapped { inner: Shape::Circle { radius: 1 }, n: 2 })),
        case("internally tagged newtype holding a unit variant", &Outer::Wrap(Wrapped { inner: Shape::Unit, n: 2 })),
        case("collect_str: plain text", &ShowAs("plain")),
        case("collect_str: text that reads like a timestamp with an offset", &ShowAs("2015-07-30T05:26:13+02:00")),
        case("collect_str: text that reads like a number", &vec![ShowAs("12"), ShowAs("1.5"), ShowAs("true"), ShowAs("")]),
        case("chrono date-time with a fixed offset", &chrono::DateTime::parse_from_rfc3339("2015-07-30T05:26:13+02:00").unwrap()),
        case("format_args through collect_str", &serde_json::json!({"k": format!("{}", format_args!("{}-{}", 2015, "07"))})),
        case("collect_seq over a filter (upper bound above the count)", &Evens(vec![1, 2, 3, 4, 5, 6, 7])),
        case("collect_seq over a filter that keeps nothing", &Evens(vec![1, 3, 5])),
        case("collect_seq over a filter that keeps all", &Evens(vec![2, 4])),
        case("collect_seq over chars of multi-byte text", &Letters("aé😀z")),
        case("collect_seq over chars of empty text", &Letters("")),
        case("collect_seq over split (no upper bound)", &Words("a bc  d")),
        case("collect_seq over take_while", &Until(vec![1, 2, 3, 4, 5], 3)),
        case("collect_seq over take_while that stops at once", &Until(vec![1, 2], 1)),
        case("collect_seq over flat_map", &Flat(vec![vec![1, 2], vec![], vec![3]])),
        case("collect_seq over from_fn (no hint at all)", &Generated(5)),
        case("collect_seq over an exact-size adaptor", &Exact(vec![1, 2, 3, 4])),
        case("collect_seq inside a struct inside a list", &vec![Some(Evens(vec![1, 2, 3])), None]),
        case("collect_map over a filter", &Positive(vec![("a", 1), ("b", -1), ("c", 0), ("d", 4)])),
        case("collect_map over a filter that keeps nothing", &Positive(vec![("a", -1)])),
        case("variant renamed to the empty string", &OddNames::Empty(1, 2)),
        case("variant renamed to a blank", &OddNames::Blank { x: 1 }),
        case("unit struct", &UnitStruct),
        case("newtype struct", &NewType(u64::MAX)),
        case("tuple struct", &TupleStruct(i8::MIN, "s".into(), Some(()))),
        case("user newtype named Duration", &lookalikes::Duration(1500)),
        case("user newtype named Decimal", &lookalikes::Decimal("007".into())),
        case("user newtype named Decimal (not a number)", &lookalikes::Decimal("x".into())),
        case("user newtype named DateTime", &lookalikes::DateTime("2015-07-30T03:26:13Z".into())),
        case("user newtype named Value", &lookalikes::Value(1)),
        case("user struct named Int", &lookalikes::Int { value: 0.5 }),
        case("user enum named Option: None", &lookalikes::Option::None),
        case("user enum named Option: Some", &lookalikes::Option::Some(3)),
        case("generic of option", &Generic { value: Some(1u8), list: vec![None, Some(2)] }),
        case("generic of tuple", &Generic { value: (1i32, "a", 2.5f32), list: vec![] }),
        case("serialize_bytes field", &WithBytes { raw: &[0, 128, 255] }),
        case("hash map of vec of option", &hm),
        case("map with integer keys", &int_keys),
        case("map with char keys", &char_keys),
        case("btreeset", &[3u8, 1, 2].into_iter().collect::<BTreeSet<_>>()),
        case("vecdeque", &[1i64, -1].into_iter().collect::<VecDeque<_>>()),
        case("array", &[[1u8, 2], [3, 4]]),
        case("empty tuple in vec", &vec![(), ()]),
        case("nested options", &Some(Some(None::<u8>))),
        case("result ok", &Ok::<i32, String>(1)),
        case("result err", &Err::<i32, String>("e".into())),
        case("range", &(1u8..5)),
        case("range inclusive", &(1i32..=5)),
        case("bound", &std::ops::Bound::Included(5u8)),
        case("bound unbounded", &std::ops::Bound::<u8>::Unbounded),
        case("wrapping", &std::num::Wrapping(5u8)),
        case("reverse", &std::cmp::Reverse("r")),
        case("nonzero", &std::num::NonZeroU64::new(u64::MAX).unwrap()),
        case("ipv4", &std::net::Ipv4Addr::new(127, 0, 0, 1)),
        case("ipv6", &std::net::Ipv6Addr::LOCALHOST),
        case("ip addr enum", &std::net::IpAddr::V4(std::net::Ipv4Addr::new(10, 0, 0, 1))),
        case("socket addr", &std::net::SocketAddr::from(([127, 0, 0, 1], 8080))),
        case("std duration", &std::time::Duration::new(5, 7)),
        case("system time at epoch + 1s", &(std::time::UNIX_EPOCH + std::time::Duration::from_secs(1))),
        case("system time before epoch (Serialize fails)", &(std::time::UNIX_EPOCH - std::time::Duration::from_secs(1))),
        case("path", &std::path::Path::new("/tmp/x")),
        case("cow", &std::borrow::Cow::Borrowed("cow")),
        case("rc / arc are behind a feature: box", &Box::new(5u8)),
        case("cell", &std::cell::Cell::new(5u8)),
        case("refcell", &std::cell::RefCell::new(vec![1u8])),
        case("mutex", &std::sync::Mutex::new("m".to_string())),
        case("rwlock", &std::sync::RwLock::new(1i8)),
        case("phantom", &std::marker::PhantomData::<u8>),
        case("char astral", &'😀'),
        case("i128 min", &i128::MIN),
        case("u128 at i128 max", &(i128::MAX as u128)),
        case("u128 max (must fail)", &u128::MAX),
        case("f32", &0.1f32),
        case("f32 max", &f32::MAX),
        case("chrono types", &Times {
            when: chrono::DateTime::<chrono::Utc>::from_timestamp(1438226773, 500).unwrap(),
            naive: chrono::NaiveDate::from_ymd_opt(2024, 2, 29).unwrap(),
            std_duration: std::time::Duration::from_millis(1500),
        }),
        case("json value itself", &serde_json::json!({"a": [1, 2.5, null, {"b": "c"}], "d": true})),
        case("string with quotes", &"a\"b\\c\n"),
        case("empty struct-like map", &BTreeMap::<String, u8>::new()),
    ];
    // a poisoned mutex: its Serialize reports a custom error
    let poisoned = std::sync::Arc::new(std::sync::Mutex::new(1u8));
    let p2 = poisoned.clone();
    let _ = std::thread::spawn(move || {
        let _g = p2.lock().unwrap();
        panic!("poison");
    })
    .join();
    v.push(case("poisoned mutex (Serialize fails)", &*poisoned));
    #[cfg(unix)]
    {
        use std::os::unix::ffi::OsStrExt;
        let bad = std::ffi::OsStr::from_bytes(&[0x66, 0x6f, 0x80, 0x6f]);
        v.push(case("non-utf8 path (Serialize fails)", &std::path::Path::new(bad)));
    }
    v
}
