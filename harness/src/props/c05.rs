//! C05 — conditionals and logic evaluate lazily; everything else once, left to right.
//! Observed history: the exact sequence of invocations of non-cacheable, call-logging user functions.

use super::evalcommon::*;
use crate::core::*;
use crate::data::*;
use crate::gen::{self, Dec};
use crate::model::eval::{self as me, compare, FnSpec};
use reval::expr::Index;
use reval::prelude::*;
use std::collections::BTreeMap;

fn tables() -> BTreeMap<String, FnSpec> {
    let mut fns = BTreeMap::new();
    // lp: logging probe that always succeeds; fp: logging probe that always fails
    fns.insert("lp".to_string(), FnSpec { cacheable: false, fail_on: vec![], fail_first: 0, uncacheable_after: 0 });
    fns.insert("fp".to_string(), FnSpec { cacheable: false, fail_on: vec![], fail_first: u32::MAX, uncacheable_after: 0 });
    // cp: cacheable probe (only its argument's evaluation is of interest here)
    fns.insert("cp".to_string(), FnSpec { cacheable: true, fail_on: vec![], fail_first: 0, uncacheable_after: 0 });
    fns
}

fn mk_case(expr: Expr) -> EvalCase {
    EvalCase {
        expr,
        facts: crate::pool::map(&[("vm", crate::pool::map(&[("a", Value::Int(1))])), ("t", Value::Bool(true))]),
        fns: tables(),
        symbols: BTreeMap::new(),
    }
}

struct G<'a, 'b> {
    d: &'a mut Dec<'b>,
    k: i128,
}

impl G<'_, '_> {
    fn fresh(&mut self) -> Expr {
        self.k += 1;
        Expr::value(self.k)
    }
    fn call_true(&mut self) -> Expr {
        let a = self.fresh();
        Expr::some(Expr::func("lp", a))
    }
    fn call_false(&mut self) -> Expr {
        let a = self.fresh();
        Expr::none(Expr::func("lp", a))
    }
    fn error_leaf(&mut self) -> Expr {
        match self.d.below(3) {
            0 => Expr::div(Expr::value(1), Expr::value(0)),
            1 => {
                self.k += 1;
                Expr::reff(format!("zz{}", self.k))
            }
            _ => {
                let a = self.fresh();
                Expr::func("fp", a)
            }
        }
    }
    /// `lp(v).1`: a logged call whose result is v (Int mostly, sometimes Bool / String / None)
    fn typed_call(&mut self) -> Expr {
        self.k += 1;
        let v = match self.d.below(8) {
            0 => Value::Bool(self.k % 2 == 0),
            1 => Value::String(format!("s{}", self.k)),
            2 => Value::None,
            _ => Value::Int(self.k),
        };
        typed_call_of(v)
    }
    fn leaf(&mut self) -> Expr {
        match self.d.below(10) {
            0 => Expr::value(true),
            1 => Expr::value(false),
            2 | 3 | 4 => self.call_true(),
            5 | 6 => self.call_false(),
            7 => self.error_leaf(),
            8 => Expr::reff("t"),
            _ => Expr::value(7), // a non-boolean where a boolean is expected
        }
    }
    fn none_left(&mut self) -> Expr {
        match self.d.below(8) {
            // left operands that are special in some way but are NOT None: the right operand must still be evaluated
            3 => Expr::Value(Value::Float(f64::NAN)),
            4 => Expr::Vec(vec![Expr::Value(Value::Float(f64::NAN))]),
            5 => Expr::Value(Value::Float(-0.0)),
            6 => Expr::Value(Value::Vec(vec![Value::None])),
            7 => Expr::div(Expr::Value(Value::Float(0.0)), Expr::Value(Value::Float(0.0))),
            0 => Expr::Value(Value::None),
            1 => Expr::index(Expr::reff("vm"), Index::Map("nokey".into())),
            _ => {
                let c = self.bool_expr(1);
                Expr::iif(c, Expr::Value(Value::None), Expr::value(true))
            }
        }
    }
    fn bool_expr(&mut self, depth: u32) -> Expr {
        if depth == 0 || self.d.exhausted() {
            return self.leaf();
        }
        match self.d.below(16) {
            0 => self.leaf(),
            1 | 2 => {
                let a = self.bool_expr(depth - 1);
                let b = self.bool_expr(depth - 1);
                Expr::and(a, b)
            }
            3 | 4 => {
                let a = self.bool_expr(depth - 1);
                let b = self.bool_expr(depth - 1);
                Expr::or(a, b)
            }
            5 | 6 => {
                let c = self.bool_expr(depth - 1);
                let t = self.bool_expr(depth - 1);
                let f = self.bool_expr(depth - 1);
                Expr::iif(c, t, f)
            }
            7 => {
                let l = self.none_left();
                let r = self.bool_expr(depth - 1);
                if self.d.bool() {
                    Expr::eq(l, r)
                } else {
                    Expr::neq(l, r)
                }
            }
            8 => {
                let a = self.bool_expr(depth - 1);
                Expr::not(a)
            }
            9 => {
                let k = *self.d.pick(&["bitand", "bitor", "bitxor", "eq", "neq"]);
                let a = self.bool_expr(depth - 1);
                let b = self.bool_expr(depth - 1);
                mk2(k, a, b)
            }
            10 => {
                // list items, left to right
                let n = 1 + self.d.below(3);
                let items: Vec<Expr> = (0..n).map(|_| self.bool_expr(depth - 1)).collect();
                Expr::some(Expr::Vec(items))
            }
            11 => {
                // map entries in key order, keys generated out of order
                let keys = ["k3", "k1", "k2", "k0"];
                let n = 1 + self.d.below(4);
                let mut m = BTreeMap::new();
                for key in keys.iter().take(n) {
                    m.insert(key.to_string(), self.bool_expr(depth - 1));
                }
                Expr::some(Expr::Map(m))
            }
            12 => {
                // call argument evaluated once, before the call
                let a = self.bool_expr(depth - 1);
                let b = self.bool_expr(depth - 1);
                Expr::some(Expr::func("lp", Expr::Vec(vec![a, b])))
            }
            13 => {
                let a = self.bool_expr(depth - 1);
                let b = self.bool_expr(depth - 1);
                Expr::contains(Expr::Vec(vec![a]), b)
            }
            14 => {
                // strict arithmetic / comparison over call results (type error after both operands ran)
                let k = *self.d.pick(&["add", "sub", "mult", "div", "rem", "gt", "gte", "lt", "lte", "contains"]);
                let a = self.fresh();
                let b = self.fresh();
                Expr::some(mk2(k, Expr::func("lp", a), Expr::func("lp", b)))
            }
            15 if self.d.below(3) == 1 => {
                // a chain of one strict operator over typed call results: a failing combination ends the evaluation
                // before any later operand runs
                let k = *self.d.pick(&BINARY_KINDS[..]);
                let n = 3 + self.d.below(4);
                let left_nested = self.d.below(4) != 3;
                let ops: Vec<Expr> = (0..n).map(|_| self.typed_call()).collect();
                Expr::some(chain(k, ops, left_nested))
            }
            15 if self.d.below(3) == 0 => {
                // an unregistered function: its argument is still evaluated (once), then the call fails
                let a = self.bool_expr(depth - 1);
                Expr::some(Expr::func("nofn", Expr::Vec(vec![a])))
            }
            _ => {
                let a = self.bool_expr(depth - 1);
                Expr::some(Expr::index(Expr::Vec(vec![a]), Index::Vec(0)))
            }
        }
    }
}

fn typed_call_of(v: Value) -> Expr {
    Expr::index(Expr::func("lp", Expr::Value(v)), Index::Vec(1))
}

fn chain(kind: &str, mut ops: Vec<Expr>, left_nested: bool) -> Expr {
    if left_nested {
        let mut it = ops.into_iter();
        let mut e = it.next().unwrap();
        for o in it {
            e = mk2(kind, e, o);
        }
        e
    } else {
        let mut e = ops.pop().unwrap();
        while let Some(o) = ops.pop() {
            e = mk2(kind, o, e);
        }
        e
    }
}

/// Chains of `depth` operands of every binary kind (left- and right-nested) and towers of every unary kind over a
/// logged call: each operand runs exactly once however deep it sits (used by C01 as its completion check).
pub(crate) fn deep_chain_cases(depth: usize) -> Vec<EvalCase> {
    let mut out = vec![];
    for kind in BINARY_KINDS {
        for left_nested in [true, false] {
            let ints: Vec<Expr> = (0..depth).map(|i| typed_call_of(Value::Int(5000 + i as i128))).collect();
            out.push(mk_case(chain(kind, ints, left_nested)));
            let bools: Vec<Expr> = (0..depth).map(|i| typed_call_of(Value::Bool(i % 2 == 0))).collect();
            out.push(mk_case(chain(kind, bools, left_nested)));
            let nones: Vec<Expr> = (0..depth).map(|i| if i == 0 { typed_call_of(Value::Int(1)) } else { Expr::index(Expr::func("lp", Expr::value(6000 + i as i128)), Index::Vec(7)) }).collect();
            out.push(mk_case(chain(kind, nones, left_nested)));
        }
    }
    for kind in UNARY_KINDS {
        let mut e = typed_call_of(Value::Int(1));
        for _ in 0..depth {
            e = mk1(kind, e);
        }
        out.push(mk_case(e));
    }
    // conditionals nested in the condition, lists in lists, calls in calls
    let mut e = typed_call_of(Value::Bool(true));
    for i in 0..depth {
        e = Expr::iif(e, Expr::value(i % 2 == 0), Expr::value(i % 2 == 1));
    }
    out.push(mk_case(e));
    let mut e = typed_call_of(Value::Int(1));
    for i in 0..depth {
        e = if i % 2 == 0 { Expr::Vec(vec![e.clone()]) } else { Expr::index(Expr::Vec(vec![Expr::value(0), e]), Index::Vec(1)) };
    }
    out.push(mk_case(e));
    out
}

pub(crate) fn random_case(bytes: &[u8]) -> EvalCase {
    let mut d = Dec::new(bytes);
    let depth = 1 + d.below(5) as u32;
    let mut g = G { d: &mut d, k: 0 };
    let e = g.bool_expr(depth);
    mk_case(e)
}

fn count_calls(e: &Expr) -> usize {
    let own = matches!(e, Expr::Function(..)) as usize;
    own + children(e).iter().map(|c| count_calls(c)).sum::<usize>()
}

fn has_error_leaf(e: &Expr) -> bool {
    match e {
        Expr::Div(_, b) if matches!(**b, Expr::Value(Value::Int(0))) => true,
        Expr::Reference(n) if n.starts_with("zz") => true,
        Expr::Function(n, _) if n == "fp" => true,
        _ => children(e).iter().any(|c| has_error_leaf(c)),
    }
}

/// A ruleset evaluated as a whole: the invocation history (in order) and every outcome equal the reference's.
pub fn check_across_rules(case: &super::setcommon::SetCase) -> Verdict {
    let built = crate::probe::build(&case.spec, false);
    let mut counts = BTreeMap::new();
    for (round, facts) in case.inputs.iter().enumerate() {
        let (model, model_log) = super::setcommon::model_evaluation(&case.spec, facts, &mut counts);
        built.log.lock().unwrap().clear();
        let out = catch(|| block_on(built.ruleset.evaluate_value(facts)).expect("evaluate_value").into_iter().map(|o| o.value).collect::<Vec<_>>())
            .map_err(|p| Issue::new("lazy:across-rules:panic", format!("evaluate_value panicked: {p}; {}", case.render())))?;
        let log = built.log.lock().unwrap().clone();
        if log != model_log {
            return Err(Issue::new(
                "lazy:across-rules:call-log",
                format!("evaluation #{}: invocation history {:?}, reference (every reached call is made, in rule order) {:?}; {}", round + 1, log, model_log, case.render()),
            ));
        }
        for (i, (v, m)) in out.iter().zip(model.iter()).enumerate() {
            if let Some(d) = compare(v, m) {
                return Err(Issue::new(
                    "lazy:across-rules:result",
                    format!("evaluation #{}, rule {i}: {} but reference {} ({d:?}); {}", round + 1, me::show_actual(v), me::show_model(m), case.render()),
                ));
            }
        }
    }
    Ok(())
}

pub fn check(case: &EvalCase) -> Verdict {
    let o = observe(case);
    let r = match &o.actual {
        Actual::Done(r) => r,
        Actual::Panic(p) => return Err(Issue::new("lazy:panic", format!("panic {p}; case {}", case.render()))),
        Actual::Pending => return Err(Issue::new("lazy:pending", format!("pending; case {}", case.render()))),
    };
    if matches!(o.model, Err(me::MErr::Ambiguous)) {
        // (an unknown function whose argument also fails: which error comes first, and hence how far evaluation got, is open)
        return Ok(());
    }
    if o.log != o.model_log {
        return Err(Issue::new(
            format!("lazy:call-log:{}", root_sig(&case.expr)),
            format!(
                "invocation history differs: observed {:?}, reference (lazy, once, left-to-right) {:?}; case {}",
                o.log, o.model_log, case.render()
            ),
        ));
    }
    // the same evaluation with user functions that suspend before they answer: nothing that comes later in the
    // expression starts while an earlier call is still waiting
    if !o.model_log.is_empty() {
        match catch(|| crate::probe::eval_in_ruleset_suspending(&case.expr, &case.facts, &case.fns, &case.symbols, 2)) {
            Err(p) => return Err(Issue::new("lazy:panic:suspending", format!("panic {p} when the user functions suspend; case {}", case.render()))),
            Ok((r2, log2)) => {
                if log2 != o.model_log || compare(&r2, &o.model).is_some() {
                    return Err(Issue::new(
                        format!("lazy:call-log:suspending:{}", root_sig(&case.expr)),
                        format!(
                            "with user functions that suspend twice before they answer: invocation history {:?} and result {}, reference (lazy, once, left-to-right) {:?} and {}; case {}",
                            log2,
                            me::show_actual(&r2),
                            o.model_log,
                            me::show_model(&o.model),
                            case.render()
                        ),
                    ));
                }
            }
        }
    }
    if let Some(d) = compare(r, &o.model) {
        return Err(Issue::new(
            format!("lazy:result:{d:?}:{}", root_sig(&case.expr)),
            format!(
                "result differs ({d:?}): implementation {} but reference {}; case {}",
                me::show_actual(r),
                me::show_model(&o.model),
                case.render()
            ),
        ));
    }
    Ok(())
}

/// The exhaustive small family: every lazy node x every operand form in each position, and every
/// strict node over (call, call), (error, call), (call, error).
fn family() -> Vec<EvalCase> {
    let mut out = vec![];
    let mut k: i128 = 100;
    let mut fresh = || {
        k += 1;
        Expr::value(k)
    };
    let mut form = |i: usize| -> Expr {
        match i {
            0 => Expr::value(true),
            1 => Expr::value(false),
            2 => Expr::some(Expr::func("lp", fresh())),
            3 => Expr::none(Expr::func("lp", fresh())),
            4 => Expr::div(Expr::value(1), Expr::value(0)),
            5 => Expr::func("fp", fresh()),
            6 => Expr::value(7),
            7 => Expr::Value(Value::None),
            _ => Expr::reff("zz9"),
        }
    };
    const F: usize = 9;
    for a in 0..F {
        for b in 0..F {
            out.push(mk_case(Expr::and(form(a), form(b))));
            out.push(mk_case(Expr::or(form(a), form(b))));
            out.push(mk_case(Expr::eq(form(a), form(b))));
            out.push(mk_case(Expr::neq(form(a), form(b))));
            for c in [2usize, 4, 5, 0] {
                out.push(mk_case(Expr::iif(form(a), form(b), form(c))));
                out.push(mk_case(Expr::iif(form(a), form(c), form(b))));
            }
        }
    }
    for special in [
        Value::Float(f64::NAN),
        Value::Float(-0.0),
        Value::Vec(vec![Value::Float(f64::NAN)]),
        Value::Vec(vec![Value::None]),
        Value::String(String::new()),
        Value::Bool(false),
        Value::Vec(vec![]),
        Value::Int(0),
        Value::None,
    ] {
        for b in [2usize, 4, 5, 8] {
            out.push(mk_case(Expr::eq(Expr::Value(special.clone()), form(b))));
            out.push(mk_case(Expr::neq(Expr::Value(special.clone()), form(b))));
        }
    }
    for kind in BINARY_KINDS {
        if matches!(kind, "and" | "or" | "eq" | "neq") {
            continue;
        }
        for (a, b) in [(2usize, 3usize), (4, 2), (2, 4), (5, 2), (2, 5), (8, 2), (7, 2), (2, 7)] {
            let l = match form(a) {
                Expr::Some(inner) => *inner,
                x => x,
            };
            let r = match form(b) {
                Expr::None(inner) | Expr::Some(inner) => *inner,
                x => x,
            };
            out.push(mk_case(mk2(kind, l, r)));
        }
    }
    for kind in UNARY_KINDS {
        out.push(mk_case(mk1(kind, Expr::func("lp", fresh()))));
        out.push(mk_case(mk1(kind, Expr::func("fp", fresh()))));
    }
    // chains of one operator over typed call results, nested to the left and to the right: operand type patterns in
    // which the first / the second combination fails, and a chain of 14 (each operand runs once, however deep it sits)
    for kind in BINARY_KINDS {
        let mut n = 1000i128;
        let mut int = || {
            n += 1;
            typed_call_of(Value::Int(n))
        };
        let b = |x: bool| typed_call_of(Value::Bool(x));
        for left_nested in [true, false] {
            out.push(mk_case(chain(kind, vec![int(), int(), int()], left_nested)));
            out.push(mk_case(chain(kind, vec![int(), b(true), int()], left_nested)));
            out.push(mk_case(chain(kind, vec![b(true), b(false), int()], left_nested)));
            out.push(mk_case(chain(kind, vec![int(), int(), b(true), int()], left_nested)));
            out.push(mk_case(chain(kind, vec![int(), typed_call_of(Value::None), b(true), int()], left_nested)));
            out.push(mk_case(chain(kind, vec![b(true), b(true), b(true), int(), b(false)], left_nested)));
            out.push(mk_case(chain(kind, (0..14).map(|_| int()).collect(), left_nested)));
            out.push(mk_case(chain(kind, (0..14).map(|i| b(i % 3 == 0)).collect(), left_nested)));
        }
    }
    // lists and maps
    for n in 1..=4usize {
        for bad in 0..=n {
            let items: Vec<Expr> =
                (0..n).map(|i| if i == bad { Expr::func("fp", fresh()) } else { Expr::func("lp", fresh()) }).collect();
            out.push(mk_case(Expr::Vec(items.clone())));
            let keys = ["k3", "k1", "k2", "k0"];
            let m: BTreeMap<String, Expr> = keys.iter().take(n).map(|s| s.to_string()).zip(items).collect();
            out.push(mk_case(Expr::Map(m)));
        }
    }
    // membership in a list literal: every item of the list is evaluated (once, in order) whether or not an earlier item
    // already equals the item looked for; lists of 3 and of 13 items, the match at each position
    for n in [3usize, 13] {
        for hit in 0..n {
            for (needle_first, tail_kind) in [(false, 0u8), (false, 1), (false, 2), (true, 0), (true, 2)] {
                let needle = || Expr::value(77);
                let items: Vec<Expr> = (0..n)
                    .map(|i| {
                        if i == hit {
                            Expr::value(77)
                        } else if i == n - 1 && hit != n - 1 {
                            match tail_kind {
                                0 => Expr::func("lp", Expr::value(95_000 + i as i128)),
                                1 => Expr::div(Expr::value(1), Expr::value(0)),
                                _ => Expr::add(Expr::value(1), Expr::Value(Value::Float(1.0))),
                            }
                        } else {
                            Expr::index(Expr::func("lp", Expr::value(95_000 + i as i128)), Index::Vec(1))
                        }
                    })
                    .collect();
                let e = if needle_first {
                    // `item in [..]` written with the item from the input / from a call
                    Expr::contains(Expr::Vec(items), Expr::index(Expr::func("lp", Expr::value(77)), Index::Vec(1)))
                } else {
                    Expr::contains(Expr::Vec(items), needle())
                };
                out.push(mk_case(e));
            }
        }
    }
    // else-if ladders whose conditions repeat one subject: the subject is evaluated for every condition that is reached
    for len in 2..=4usize {
        for taken in 0..=len {
            let subject = || Expr::index(Expr::func("lp", Expr::value(5)), Index::Vec(1));
            let mut e = Expr::value("else".to_string());
            for k in (0..len).rev() {
                let want = if k == taken { 5 } else { 100 + k as i128 };
                e = Expr::iif(Expr::eq(subject(), Expr::value(want)), Expr::value(k as i128), e);
            }
            out.push(mk_case(e));
        }
    }
    // an operand that fails by itself (unknown symbol, unknown reference) before a call: the call is not reached;
    // for every strict binary kind and for membership in both operand orders
    for kind in BINARY_KINDS {
        if matches!(kind, "and" | "or") {
            continue;
        }
        for bad in [Expr::symbol("nosuchsymbol"), Expr::reff("zz9"), Expr::index(Expr::value(1), Index::Vec(0))] {
            out.push(mk_case(mk2(kind, bad.clone(), Expr::func("lp", Expr::value(96_001)))));
            out.push(mk_case(mk2(kind, Expr::func("lp", Expr::value(96_002)), bad.clone())));
            out.push(mk_case(mk2(kind, bad.clone(), Expr::div(Expr::value(1), Expr::value(0)))));
        }
    }
    // == / != between two list literals: all items of the left list, then all items of the right one, whatever they equal
    for neq in [false, true] {
        for n in [2usize, 3] {
            for variant in 0..4u8 {
                let call = |k: i128| Expr::index(Expr::func("lp", Expr::value(k)), Index::Vec(1));
                let left: Vec<Expr> = (0..n).map(|i| call(97_000 + i as i128)).collect();
                let right: Vec<Expr> = (0..n)
                    .map(|i| match (variant, i) {
                        (0, _) => call(97_000 + i as i128),                 // equal lists
                        (1, _) => call(97_100 + i as i128),                 // unequal from the first pair on
                        (2, i) if i == n - 1 => Expr::div(Expr::value(1), Expr::value(0)), // an error behind an unequal pair
                        (2, _) => call(97_200 + i as i128),
                        (_, i) if i == n - 1 => Expr::func("fp", Expr::value(97_300)),
                        (_, _) => call(97_000 + i as i128),
                    })
                    .collect();
                let e = if neq { Expr::neq(Expr::Vec(left), Expr::Vec(right)) } else { Expr::eq(Expr::Vec(left), Expr::Vec(right)) };
                out.push(mk_case(e));
            }
        }
    }
    // two comparisons of one subject joined by and / or (a range check): both bounds are evaluated as far as laziness allows,
    // whatever the subject is (none, missing, a number)
    for subject in [Expr::index(Expr::reff("vm"), Index::Map("nokey".into())), Expr::index(Expr::reff("vm"), Index::Map("a".into())), Expr::reff("t")] {
        for (k1, k2) in [("gte", "lte"), ("gt", "lt"), ("lte", "gte"), ("gte", "gte")] {
            for joiner in ["and", "or"] {
                for bound in 0..3u8 {
                    let b1 = match bound {
                        0 => Expr::index(Expr::func("lp", Expr::value(98_001)), Index::Vec(1)),
                        1 => Expr::div(Expr::value(1), Expr::value(0)),
                        _ => Expr::func("fp", Expr::value(98_002)),
                    };
                    let b2 = Expr::index(Expr::func("lp", Expr::value(98_003)), Index::Vec(1));
                    out.push(mk_case(mk2(joiner, mk2(k1, subject.clone(), b1), mk2(k2, subject.clone(), b2))));
                }
            }
        }
    }
    // a call that fails on a none argument the way `param.try_into()?` does ends the evaluation like any other failure
    for wrap in 0..3u8 {
        let failing = Expr::func("fp", Expr::Value(Value::None));
        let after = Expr::func("lp", Expr::value(98_010));
        out.push(mk_case(match wrap {
            0 => Expr::Vec(vec![failing, after]),
            1 => Expr::add(failing, after),
            _ => Expr::Vec(vec![Expr::func("fp", Expr::Vec(vec![Expr::value(1), Expr::Value(Value::None)])), after]),
        }));
    }
    // long lists and maps: every item once, in order, up to the failing one
    for n in [33usize, 129, 300] {
        for bad in [n / 2, n - 1, n] {
            let items: Vec<Expr> = (0..n).map(|i| if i == bad { Expr::func("fp", Expr::value(90_000 + i as i128)) } else { Expr::func("lp", Expr::value(90_000 + i as i128)) }).collect();
            out.push(mk_case(Expr::Vec(items.clone())));
            out.push(mk_case(Expr::Map(items.into_iter().enumerate().map(|(i, e)| (format!("k{:03}", (i * 7) % 1000), e)).collect())));
        }
    }
    // the argument of a cacheable function is evaluated at every call site, also at textually identical ones
    let site = || Expr::func("cp", Expr::func("lp", Expr::value(7)));
    out.push(mk_case(Expr::Vec(vec![site(), site()])));
    out.push(mk_case(Expr::eq(site(), site())));
    out.push(mk_case(Expr::add(site(), site())));
    out.push(mk_case(Expr::Vec(vec![site(), Expr::func("cp", Expr::func("lp", Expr::value(8))), site()])));
    // identical non-cacheable operands of == / != are both evaluated
    out.push(mk_case(Expr::eq(Expr::func("lp", Expr::value(7)), Expr::func("lp", Expr::value(7)))));
    out.push(mk_case(Expr::neq(Expr::func("lp", Expr::value(7)), Expr::func("lp", Expr::value(7)))));
    // calls of an unregistered function: the argument is evaluated, then the call fails naming the function
    out.push(mk_case(Expr::func("nofn", Expr::func("lp", fresh()))));
    out.push(mk_case(Expr::Vec(vec![Expr::func("lp", fresh()), Expr::func("nofn", Expr::Vec(vec![Expr::func("lp", fresh()), Expr::func("lp", fresh())])), Expr::func("lp", fresh())])));
    // nested call arguments
    out.push(mk_case(Expr::func("lp", Expr::func("lp", fresh()))));
    out.push(mk_case(Expr::func("lp", Expr::func("fp", fresh()))));
    out.push(mk_case(Expr::func("fp", Expr::func("lp", fresh()))));
    out.push(mk_case(Expr::index(Expr::func("lp", fresh()), Index::Vec(1))));
    out
}

pub fn run(ctx: &Ctx) {
    ctx.set_rule(
        "Generated: (1) the exhaustive small family: and / or / == / != / if with each operand ranging over {true, false, call \
         yielding true, call yielding false, division by zero, failing call, non-boolean, none, unknown reference}, every strict \
         binary/unary kind over (call, call), (error, call), (call, error), left- and right-nested chains of 3-14 operands of every binary kind over typed call results (a failing combination ends the evaluation before later operands run; each operand runs once at any depth), lists and maps (keys out of order) with a failing item at \
         each position, nested call arguments; (2) recipe-decoded random boolean-typed trees to depth 5 over lazy and strict nodes \
         whose leaves are constants, logging calls with distinct arguments, and erroring leaves of three distinguishable classes. \
         Oracle: the observed invocation sequence equals the reference evaluator's (lazy, once, left to right, key order) and the \
         result / first error equals the reference's. Non-trivial: fewer invocations than call sites (something unreached), an \
         erroring leaf that is not reached, or >= 2 invocations whose order is observable.",
    );
    ctx.assume("user functions are observed only through the harness's own logging probes registered in a RuleSet");

    super::regressions::run(ctx, "C05", |j| EvalCase::from_json(j).map(|c| check(&c)));

    let fam = family();
    // calls that are reached again in a later rule of the same evaluation after they failed: a call that is reached is
    // made (a cacheable function once per argument it *answered*; a function that refused is asked again; a
    // non-cacheable one every time), in the order of the rules
    let across: Vec<super::setcommon::SetCase> = {
        let mut out = vec![];
        for cacheable in [false, true] {
            for fail_first in [0u32, 1, 2] {
                for failing_arg in [false, true] {
                    let mut fns = BTreeMap::new();
                    fns.insert("fa".to_string(), FnSpec { cacheable, fail_on: if failing_arg { vec![me::arg_key(&Value::Bool(true))] } else { vec![] }, fail_first, uncacheable_after: 0 });
                    fns.insert("fb".to_string(), FnSpec { cacheable: !cacheable, fail_on: vec![me::arg_key(&Value::Int(3))], fail_first: 0, uncacheable_after: 0 });
                    let call = |f: &str, v: Value| Expr::func(f, Expr::Value(v));
                    let rules: Vec<(String, Expr)> = vec![
                        ("r0".into(), call("fa", Value::Bool(true))),
                        ("r1".into(), Expr::Vec(vec![call("fa", Value::Bool(true)), call("fb", Value::Int(3)), call("fa", Value::Int(5))])),
                        ("r2".into(), Expr::Vec(vec![call("fb", Value::Int(3))])),
                        ("r3".into(), Expr::iif(call("fa", Value::Bool(true)), call("fa", Value::Int(5)), call("fb", Value::Int(4)))),
                        ("r4".into(), Expr::or(Expr::none(call("fb", Value::Int(3))), Expr::value(true))),
                        ("r5".into(), call("fa", Value::Bool(true))),
                    ];
                    for r in 0..rules.len() {
                        let mut rs = rules.clone();
                        rs.rotate_left(r);
                        out.push(super::setcommon::SetCase {
                            spec: crate::probe::SetSpec { rules: rs, fns: fns.clone(), symbols: BTreeMap::new(), suspend: 0 },
                            inputs: vec![Value::None, Value::None],
                        });
                    }
                }
            }
        }
        out
    };
    ctx.enumerate(
        "failed-calls-reached-again",
        across.len() as u64,
        true,
        |i, acc| {
            acc.cell("across-rules", true);
            if i % 17 == 0 {
                acc.sample("across-rules", || across[i as usize].render().chars().take(300).collect());
            }
            check_across_rules(&across[i as usize])
        },
        |i| {
            let mut j = across[i as usize].to_json();
            j["across_rules"] = serde_json::json!(true);
            j
        },
        "across-rules",
    );

    // random trees whose atoms all speak about one subject (see c04::subject_case), with calls among the operands: the
    // invocation history is the lazy, left-to-right one whatever shape the tree has
    let nsub = ctx.tier.pick(150_000u64, 2_000_000u64);
    ctx.random(
        "trees-about-one-subject",
        nsub,
        || gen::recipe(120),
        |bytes, acc| {
            let case = super::c04::subject_case(bytes);
            if let Some(acc) = acc {
                fn has_call(e: &Expr) -> bool {
                    matches!(e, Expr::Function(..)) || children(e).iter().any(|c| has_call(c))
                }
                let calls = has_call(&case.expr);
                acc.case(if calls { "subject:with-calls" } else { "subject:without-calls" }, calls, || case.render());
            }
            check(&case)
        },
        |bytes| super::c04::subject_case(bytes).to_json(),
        "evalcase",
    );

    ctx.enumerate(
        "lazy-family",
        fam.len() as u64,
        true,
        |i, acc| {
            let case = &fam[i as usize];
            acc.cell(&format!("family:{}", root_sig(&case.expr)), true);
            if i % 41 == 0 {
                acc.sample(&format!("family:{}", root_sig(&case.expr)), || case.render());
            }
            check(case)
        },
        |i| fam[i as usize].to_json(),
        "evalcase",
    );

    let n = ctx.tier.pick(500_000u64, 6_000_000u64);
    ctx.random_min(
        "random-lazy-trees",
        n,
        || gen::recipe(200),
        |bytes, acc| {
            let case = random_case(bytes);
            if let Some(acc) = acc {
                let mut env = me::Env::new(&case.facts, &case.symbols, &case.fns);
                let m = me::eval(&case.expr, &mut env);
                let calls = count_calls(&case.expr);
                let unreached_call = calls > env.log.len();
                let unreached_err = has_error_leaf(&case.expr) && m.is_ok();
                let nt = unreached_call || unreached_err || env.log.len() >= 2;
                let class = if unreached_call {
                    "rnd:unreached-call"
                } else if unreached_err {
                    "rnd:unreached-error"
                } else if env.log.len() >= 2 {
                    "rnd:ordered-calls"
                } else {
                    "rnd:trivial"
                };
                acc.case(class, nt, || format!("{} => log {:?}", case.render(), env.log));
            }
            check(&case)
        },
        |bytes| random_case(bytes).to_json(),
        "evalcase",
        Some(&|bytes: &Vec<u8>, issue, is_known| {
            let case = random_case(bytes);
            let (c, i) = minimize(&case, issue, &|c| {
                // keep tables while minimising
                let c2 = EvalCase { fns: tables(), ..c.clone() };
                check(&c2).err().filter(|i| !is_known(i))
            });
            let c = EvalCase { fns: tables(), ..c };
            (c.to_json(), i)
        }),
    );
}

pub fn replay(j: &serde_json::Value) -> Option<Verdict> {
    if j.get("across_rules").is_some() {
        return super::setcommon::SetCase::from_json(j).map(|c| check_across_rules(&c));
    }
    EvalCase::from_json(j).map(|c| check(&c))
}
