//! C08 — literals denote exactly what is written; layout and comments are insignificant.

use crate::core::*;
use crate::data::*;
use crate::gen::{self, Dec};
use crate::model::lex::{self, Tok};
use crate::model::parse::parse_expr;
use crate::model::print::{self, Mode};
use reval::prelude::*;
use serde_json::json;

fn parse_caught(text: &str) -> Result<Result<Expr, String>, Issue> {
    match catch(|| Expr::parse(text)) {
        Ok(r) => Ok(r.map_err(|e| e.to_string())),
        Err(p) => Err(Issue::new("literal:panic", format!("Expr::parse panicked ({p}) on {text:?}"))),
    }
}

/// `text` must parse to exactly the literal `want`, alone and embedded.
fn expect_literal(kind: &str, text: &str, want: &Value) -> Verdict {
    let fail = |ctxt: &str, got: String| {
        Err(Issue::new(
            format!("literal:{kind}:{ctxt}"),
            format!("literal {text:?} should denote {} but ({ctxt}) gives {got}", show_value(want)),
        ))
    };
    match parse_caught(text)? {
        Ok(Expr::Value(v)) if same_value(&v, want, true) => {}
        Ok(other) => return fail("alone", show_expr(&other)),
        Err(e) => return fail("alone", format!("error {e}")),
    }
    let embedded = format!("[ {text} , a ] contains {text}");
    let want_tree = Expr::contains(
        Expr::Vec(vec![Expr::Value(want.clone()), Expr::reff("a")]),
        Expr::Value(want.clone()),
    );
    match parse_caught(&embedded)? {
        Ok(t) if same_expr(&t, &want_tree) => Ok(()),
        Ok(other) => fail("embedded", show_expr(&other)),
        Err(e) => fail("embedded", format!("error {e}")),
    }
}

/// the same literal as the expression of a rule (name and description are C14's business: only the expression is looked at)
fn expect_string_through_rule(text: &str, want: &str) -> Verdict {
    let rule_text = format!("// n\r\n@k: i1;\r\n{text}\r\n// trailing");
    match catch(|| Rule::parse(&rule_text)) {
        Err(p) => Err(Issue::new("literal:panic", format!("Rule::parse panicked ({p}) on {rule_text:?}"))),
        Ok(Err(e)) => Err(Issue::new("literal:string:rule-rejected", format!("rule text {rule_text:?} is rejected: {e}"))),
        Ok(Ok(rule)) => match rule.expr() {
            Expr::Value(Value::String(s)) if s == want => Ok(()),
            other => Err(Issue::new(
                "literal:string:through-rule",
                format!("string literal {text:?} as a rule's expression denotes {} instead of {want:?}", show_expr(other)),
            )),
        },
    }
}

/// the same literal as the value of metadata items of a rule text, `@name` and `@description` among them: every one of
/// them holds the string that is written (a literal does not change with the place it is written in)
fn expect_string_as_metadata(text: &str, want: &str) -> Verdict {
    let rule_text = format!("@name: {text};\n@k: {text};\n@description: {text};\n@list: [{text}, {{k: {text}}}];\n{text}");
    match catch(|| Rule::parse(&rule_text)) {
        Err(p) => Err(Issue::new("literal:panic", format!("Rule::parse panicked ({p}) on {rule_text:?}"))),
        Ok(Err(e)) => Err(Issue::new("literal:string:rule-rejected", format!("rule text {rule_text:?} is rejected: {e}"))),
        Ok(Ok(rule)) => {
            let is = |v: Option<&Value>| matches!(v, Some(Value::String(s)) if s == want);
            let list_ok = match rule.get_metadata("list") {
                Some(Value::Vec(v)) if v.len() == 2 => is(v.first()) && matches!(&v[1], Value::Map(m) if is(m.get("k"))),
                _ => false,
            };
            if rule.name() == want && is(rule.get_metadata("k")) && rule.description() == Some(want) && list_ok && matches!(rule.expr(), Expr::Value(Value::String(s)) if s == want) {
                Ok(())
            } else {
                Err(Issue::new(
                    "literal:string:as-metadata",
                    format!(
                        "string literal {text:?} written as @name, @k, @description, inside @list and as the expression of one rule text: name {:?}, k {:?}, description {:?}, list {:?}, expression {}; each should be {want:?}",
                        rule.name(),
                        rule.get_metadata("k").map(show_value),
                        rule.description(),
                        rule.get_metadata("list").map(show_value),
                        show_expr(rule.expr())
                    ),
                ))
            }
        }
    }
}

/// a literal ends where its closing quote stands, whatever precedes that quote and whatever follows in the text
fn expect_string_among_others(text: &str, want: &str) -> Verdict {
    let full = format!("[{text}, \"z\\\\\", {text}] == {text} // \"not a string\"");
    let lit = |s: &str| Expr::Value(Value::String(s.to_string()));
    let expected = Expr::eq(Expr::Vec(vec![lit(want), lit("z\\"), lit(want)]), lit(want));
    match parse_caught(&full)? {
        Ok(t) if same_expr(&t, &expected) => Ok(()),
        Ok(t) => Err(Issue::new(
            "literal:string:among-others",
            format!("string literal {text:?} next to other literals: {full:?} denotes {} instead of {}", show_expr(&t), show_expr(&expected)),
        )),
        Err(e) => Err(Issue::new("literal:string:among-others", format!("string literal {text:?} next to other literals: {full:?} is rejected: {e}"))),
    }
}

fn expect_rejected(kind: &str, text: &str) -> Verdict {
    match parse_caught(text)? {
        Err(_) => Ok(()),
        Ok(t) => Err(Issue::new(
            format!("literal:{kind}:accepts-out-of-range"),
            format!("literal {text:?} is out of range and must be rejected but parses to {}", show_expr(&t)),
        )),
    }
}

// ---- integers --------------------------------------------------------------------------------

#[derive(Clone, Debug)]
pub struct IntCase {
    v: i128,
    form: u8,
    zeros: u8,
}

fn int_spelling(c: &IntCase) -> Option<String> {
    let z = "0".repeat(c.zeros as usize);
    let base = print::int_text(c.v); // i<v> / i-<v>
    Some(match c.form {
        0 => base,
        1 => {
            if c.v < 0 {
                return None;
            }
            base.replacen('i', "i+", 1)
        }
        2 => {
            // leading zeros
            if c.v < 0 {
                base.replacen("i-", &format!("i-{z}"), 1)
            } else {
                base.replacen('i', &format!("i{z}"), 1)
            }
        }
        3 | 4 => {
            if c.v < 0 {
                return None;
            }
            print::radix_text(c.v, 16, c.form == 4).replacen("0x", &format!("0x{z}"), 1)
        }
        5 => {
            if c.v < 0 {
                return None;
            }
            print::radix_text(c.v, 8, false).replacen("0o", &format!("0o{z}"), 1)
        }
        _ => {
            if c.v < 0 {
                return None;
            }
            print::radix_text(c.v, 2, false).replacen("0b", &format!("0b{z}"), 1)
        }
    })
}

fn check_int(c: &IntCase) -> Verdict {
    match int_spelling(c) {
        Some(t) => expect_literal("int", &t, &Value::Int(c.v)),
        None => Ok(()),
    }
}

fn int_out_of_range_texts() -> Vec<String> {
    vec![
        "i170141183460469231731687303715884105728".into(),
        "i-170141183460469231731687303715884105729".into(),
        "i+170141183460469231731687303715884105728".into(),
        "i999999999999999999999999999999999999999999".into(),
        "0x80000000000000000000000000000000".into(),
        "0xFFFFFFFFFFFFFFFFFFFFFFFFFFFFFFFFF".into(),
        "0o2000000000000000000000000000000000000000000".into(),
        format!("0b1{}", "0".repeat(127)),
        "0o8".into(),
        "0o18".into(),
    ]
}

// ---- floats ----------------------------------------------------------------------------------

fn check_float_bits(bits: u64, exp_form: bool) -> Verdict {
    let f = f64::from_bits(bits);
    if !f.is_finite() {
        return Ok(());
    }
    let t = print::float_text(f, exp_form).unwrap();
    expect_literal("float", &t, &Value::Float(f))
}

/// random decimal strings matching the float token; oracle: std's correctly rounded parser
fn float_string(d: &mut Dec) -> String {
    // one case in eight sits a hair above / exactly on / a hair below the midpoint of two neighbouring doubles, written
    // with 40-120 digits (the nearest double is decided by the very last digit)
    if d.below(8) == 7 {
        let n = ((1u64 << 53) + (d.u64() % (1u64 << 53))) & !1; // an even integer that is a double, its neighbour is n + 2
        let zeros = "0".repeat(20 + d.below(100));
        return match d.below(4) {
            0 => format!("f{}.{}1", n + 1, zeros),
            1 => format!("f{}.{}", n + 1, zeros),
            2 => format!("f{}.{}9", n, "9".repeat(20 + d.below(100))),
            _ => format!("f{}.{}1e-{}", (n + 1) as u128 * 1000, zeros, 3),
        };
    }
    let mut s = String::from("f");
    s.push_str(*d.pick(&["", "-", "+"]));
    let ni = d.below(25);
    for _ in 0..ni {
        s.push((b'0' + d.below(10) as u8) as char);
    }
    let frac = d.bool() || ni == 0;
    if frac {
        s.push('.');
        let nf = 1 + d.below(25);
        for _ in 0..nf {
            s.push((b'0' + d.below(10) as u8) as char);
        }
    }
    if d.bool() {
        s.push(*d.pick(&['e', 'E']));
        s.push_str(*d.pick(&["", "-", "+"]));
        let ne = 1 + d.below(3);
        for _ in 0..ne {
            s.push((b'0' + d.below(10) as u8) as char);
        }
    }
    s
}

fn check_float_string(t: &str) -> Verdict {
    let want: f64 = t[1..].parse().map_err(|_| Issue::new("literal:generator", format!("generator produced non-float {t:?}")))?;
    expect_literal("float", t, &Value::Float(want))
}

// ---- decimals --------------------------------------------------------------------------------

#[derive(Clone, Debug)]
pub struct DecCase {
    mantissa: i128,
    scale: u32,
    extra: String,
    zeros: u8,
}

fn dec_case(d: &mut Dec) -> DecCase {
    let m = match d.below(5) {
        0 => (d.u128() >> 32) as i128,
        1 => ((1i128 << 96) - 1) - d.below(3) as i128,
        2 => d.below(1000) as i128,
        3 => (d.u64() as i128) * (d.u64() as i128 >> 32).max(1),
        _ => 10i128.pow(d.below(29) as u32) + d.below(3) as i128 - 1,
    };
    let m = m.clamp(0, (1i128 << 96) - 1);
    let m = if d.bool() { m } else { -m };
    let scale = match d.below(4) {
        0 => 28,
        1 => 0,
        _ => d.below(29) as u32,
    };
    let extra = if scale == 28 && d.bool() {
        let k = 1 + d.below(8);
        (0..k).map(|_| (b'0' + d.below(10) as u8) as char).collect()
    } else {
        String::new()
    };
    DecCase { mantissa: m, scale, extra, zeros: if d.below(4) == 0 { d.below(6) as u8 } else { 0 } }
}

fn dec_text(c: &DecCase) -> String {
    let mut t = print::decimal_text(c.mantissa, c.scale, false);
    t.push_str(&c.extra);
    if c.zeros > 0 {
        let z = "0".repeat(c.zeros as usize);
        t = if t.starts_with("d-") { t.replacen("d-", &format!("d-{z}"), 1) } else { t.replacen('d', &format!("d{z}"), 1) };
    }
    t
}

fn check_dec(c: &DecCase) -> Verdict {
    let t = dec_text(c);
    if c.extra.is_empty() {
        let want = rust_decimal::Decimal::try_from_i128_with_scale(c.mantissa, c.scale).unwrap();
        return expect_literal("decimal", &t, &Value::Decimal(want));
    }
    // more than 28 fraction digits: the parsed value is within 10^-28 of the written one
    let k = c.extra.len() as u32;
    let written = c.mantissa.unsigned_abs() as i128 * 10i128.pow(k) + c.extra.parse::<i128>().unwrap();
    let written = if c.mantissa < 0 { -written } else { written };
    match parse_caught(&t)? {
        Ok(Expr::Value(Value::Decimal(p))) => {
            let pm = p.mantissa().checked_mul(10i128.pow(28 - p.scale())).and_then(|x| x.checked_mul(10i128.pow(k)));
            // at the very limit of the 96-bit mantissa rounding up at scale 28 does not fit; the type then has to
            // give up one more digit (within 10^-27)
            let tol = if c.mantissa.unsigned_abs() >= (1u128 << 96) - 10 { 10i128.pow(k + 1) } else { 10i128.pow(k) };
            match pm {
                Some(pm) if (pm - written).abs() <= tol => Ok(()),
                _ => Err(Issue::new(
                    "literal:decimal:rounding",
                    format!("literal {t:?} parses to {} which is not within 10^-28 of the written value", show_value(&Value::Decimal(p))),
                )),
            }
        }
        Ok(other) => Err(Issue::new("literal:decimal:alone", format!("literal {t:?} parses to {}", show_expr(&other)))),
        // a mantissa at the very limit may not be roundable into range; rejecting is acceptable
        Err(_) if c.mantissa.unsigned_abs() >= (1u128 << 96) - 10 => Ok(()),
        Err(e) => Err(Issue::new("literal:decimal:rejected", format!("literal {t:?} is rejected: {e}"))),
    }
}

// ---- strings ---------------------------------------------------------------------------------

fn string_case(d: &mut Dec) -> (String, String) {
    // (one string in thirty is long: a block of 1-9 characters repeated 30-285 times)
    let repeat = if d.below(30) == 29 { 30 + d.below(256) } else { 1 };
    let n = if repeat > 1 { 1 + d.below(9) } else { d.below(10) };
    let s: String = (0..n)
        .map(|_| match d.below(6) {
            0 => *d.pick(&['\n', '\r', '\t', '\\', '\'', '"', '\n', '/']),
            1 => char::from_u32((d.u64() % 0x11_0000) as u32).unwrap_or('\u{fffd}'),
            2 => char::from_u32(d.below(0x20) as u32).unwrap(),
            3 => *d.pick(&[
                '/', ' ', '\u{a0}', '\u{2028}', '\u{85}', '😀', 'ß', '\u{301}', '{', '}', 'u', 'n',
                // look-alikes of the delimiters and of the escape character
                '\u{201c}', '\u{201d}', '\u{2018}', '\u{2019}', '\u{ab}', '\u{bb}', '\u{ff02}', '\u{2033}', '`', '\u{ff3c}', '\u{2216}',
            ]),
            _ => (b' ' + d.below(95) as u8) as char,
        })
        .collect();
    let s = s.repeat(repeat);
    // per-character style: raw / short escape / \u{..} with random case and leading zeros
    let mut text = String::from("\"");
    for c in s.chars() {
        let short = match c {
            '\n' => Some("\\n"),
            '\r' => Some("\\r"),
            '\t' => Some("\\t"),
            '\\' => Some("\\\\"),
            '\'' => Some("\\'"),
            '"' => Some("\\\""),
            _ => None,
        };
        let must = c == '"' || c == '\\';
        match (d.below(3), short) {
            (0, _) if !must => text.push(c),
            (1, Some(e)) | (0, Some(e)) => text.push_str(e),
            _ => {
                let hex = if d.bool() { format!("{:x}", c as u32) } else { format!("{:X}", c as u32) };
                // any number of leading zeros denotes the same character (usually 0-2, sometimes up to 12)
                let zeros = "0".repeat(if d.below(6) == 5 { 3 + d.below(10) } else { d.below(3) });
                text.push_str(&format!("\\u{{{zeros}{hex}}}"));
            }
        }
    }
    text.push('"');
    (s, text)
}

// ---- words -----------------------------------------------------------------------------------

fn word_family() -> Vec<String> {
    let mut base: Vec<String> = lex::KEYWORDS.iter().map(|s| s.to_string()).collect();
    base.extend(["true", "false"].iter().map(|s| s.to_string()));
    // reserved-but-not-lexed words and literal-shaped words
    base.extend(["starts", "ends", "key", "val", "i5", "f1", "d2", "f1e5", "f.5", "d.5", "i", "f", "d", "e", "facts"].iter().map(|s| s.to_string()));
    let mut out = std::collections::BTreeSet::new();
    for w in &base {
        out.insert(w.clone());
        for suffix in ["x", "_", "1", "e", "s", "5x"] {
            out.insert(format!("{w}{suffix}"));
        }
        for prefix in ["x", "i", "f", "d", "_"] {
            out.insert(format!("{prefix}{w}"));
        }
        for cut in 1..w.len() {
            if w.is_char_boundary(cut) {
                out.insert(w[..cut].to_string());
            }
        }
        out.insert(w.to_uppercase());
        let mut cs: Vec<char> = w.chars().collect();
        cs[0] = cs[0].to_ascii_uppercase();
        out.insert(cs.into_iter().collect());
    }
    for w in ["int", "inty", "in", "i", "i5", "i5x", "f1e", "f1e5", "f1e5x", "d1x", "truex", "none", "nonex", "i+5", "i-5", "i+", "f+1", "f1.", "f1.e5", "0x", "0xg", "0b2", "0o9", "0x1g",
        // identifiers that look like spellings of non-finite or grouped numerals (they are identifiers)
        "finf", "fNaN", "fnan", "finfinity", "f-inf", "f+NaN", "f-NaN", "dNaN", "dinf", "iinf", "inf", "NaN", "i1_000", "i1_", "i_1", "f1_", "f1_0",
        "d2_5", "d_", "i1_000_000", "f1_0e5", "0x1_0", "i0x10", "f1f", "d1d", "f1e+", "i\u{ff11}", "i\u{661}", "f1.5f", "d1.5.5", "i1i1", "d1e5", "d1e-5", "d1E5", "i1e5", "d.5e3", "d5e", "i12_345_678", "i0_000", "i1_0000",
    ] {
        out.insert(w.to_string());
    }
    out.into_iter().filter(|w| !w.is_empty()).collect()
}

fn check_word(w: &str) -> Verdict {
    // alone, as a call head, and as a field name
    for text in [w.to_string(), format!("{w}(i1)"), format!("[{w}]"), format!("a.{w}")] {
        super::c07::check_text_against(&text, parse_expr(&text))
            .map_err(|i| Issue::new(i.sig.replace("grammar:", "word:"), i.msg))?;
    }
    Ok(())
}

// ---- layout ----------------------------------------------------------------------------------

fn layout_case(bytes: &[u8]) -> (Vec<Tok>, String, String, bool) {
    let mut d = Dec::new(bytes);
    let depth = 1 + d.below(4) as u32;
    let e = gen::gen_image(&mut d, depth);
    let toks = print::tokens(&e, Mode::Rand, Some(&mut d)).unwrap_or_else(|| vec![Tok::Fix("none")]);
    let (l1, f1) = print::layout(&toks, &mut d);
    let (l2, f2) = print::layout(&toks, &mut d);
    (toks, l1, l2, f1 || f2)
}

fn check_layout(toks: &[Tok], l1: &str, l2: &str) -> Verdict {
    let reference = crate::model::parse::parse_tokens(toks);
    let a = parse_caught(l1)?;
    let b = parse_caught(l2)?;
    let fail = |what: &str| {
        Err(Issue::new(
            "layout:significant",
            format!("{what}: layouts {l1:?} and {l2:?} of the same token sequence {:?}", print::plain_text(toks)),
        ))
    };
    match (&a, &b) {
        (Ok(x), Ok(y)) => {
            if !same_expr(x, y) {
                return fail("different trees");
            }
            if let Ok(r) = &reference {
                if !same_expr(x, r) {
                    return fail("tree differs from the reference derivation");
                }
            }
            Ok(())
        }
        (Err(_), Err(_)) => {
            if reference.is_ok() {
                fail("both layouts rejected although the token sequence is derivable")
            } else {
                Ok(())
            }
        }
        _ => fail("one layout accepted, the other rejected"),
    }
}

pub fn run(ctx: &Ctx) {
    ctx.set_rule(
        "Generated, each literal parsed alone and embedded in `[ L , a ] contains L`: Int: all boundary values +-1 and random i128 \
         printed by the harness's own digit routine as i<v>, i+<v>, with leading zeros, and (v >= 0) as 0x (both cases) / 0o / 0b; the \
         values one past either end and over-long radix literals must be rejected. Float: random finite bit patterns printed in \
         shortest round-trip plain and exponent form (bits must match), random digit strings matching the float token (must equal \
         std's correctly rounded parse). Decimal: random (96-bit mantissa, scale 0..28, sign) printed by the harness (mantissa AND \
         scale must match), with up to 8 digits beyond 28 (within 10^-28). String: random Unicode strings, each character raw, \
         short-escaped or \\u{..}-escaped with random case / leading zeros (must equal the original). Words: every keyword, keyword \
         +- one character, every proper prefix, case variants and the collision family (int inty in i i5 i5x f1e f1e5 f1e5x d1x truex \
         nonex ...) alone, as call head, list item and field name: classification must equal the reference lexer/parser's. Layout: two \
         random layouts (spaces, tabs, CR/LF, form feed, NBSP, U+2003, U+0085, // comments, nothing where the reference lexer keeps \
         the tokens apart) of the same token sequence must parse to the same tree. Non-trivial: value at a range boundary, >= 1 \
         escape or non-ASCII character, a word one edit from a keyword, a layout with a comment or non-space separator.",
    );
    ctx.assume("std's f64::from_str is the IEEE-754 correctly rounded reference");
    ctx.assume("decimal literals whose integer part alone exceeds the 96-bit mantissa are checked for totality only (C06)");

    super::regressions::run(ctx, "C08", |j| replay(j));

    // Texts that differ ONLY in whitespace and yet denote different token sequences (a line break ends a comment; whitespace
    // inside a string literal is content), parsed right after each other, first thing in the process: whitespace is
    // insignificant between tokens and nowhere else. Each text is compared with the (stateless) reference parser.
    let fixed_pairs: Vec<Vec<String>> = vec![
        vec!["x // note\n + y".into(), "x // note + y".into(), "x // note\r\n + y".into()],
        vec!["[x, // first\n y]".into(), "[x, // first y]".into()],
        vec!["x contains \"a b\"".into(), "x contains \"a  b\"".into(), "x contains \"a\tb\"".into(), "x contains \"a\nb\"".into()],
        vec!["\" a\"".into(), "\"a \"".into(), "\"a\"".into()],
        vec!["a //\n b".into(), "a // b".into(), "a /\n/ b".into()],
        vec!["i1 + i 2".into(), "i1 + i2".into(), "i 1 + i2".into()],
    ];
    let near = |bytes: &[u8]| -> Vec<String> {
        let (toks, l1, _, _) = layout_case(bytes);
        let mut out = vec![l1.clone()];
        if let Some(p) = l1.find("//") {
            if let Some(q) = l1[p..].find('\n') {
                let mut v = l1.clone();
                v.replace_range(p + q..p + q + 1, " ");
                out.push(v);
            }
        }
        out.push(l1.split_whitespace().collect::<Vec<_>>().join(" "));
        out.push(l1.replace('\n', " "));
        // whitespace inside string literals changed
        let widened: Vec<String> = toks
            .iter()
            .map(|t| match t {
                Tok::Str(s) => s.replace(' ', "  ").replace('\t', " "),
                other => other.text().to_string(),
            })
            .collect();
        out.push(widened.join(" "));
        out.push(toks.iter().map(|t| t.text().to_string()).collect::<Vec<_>>().join(" "));
        out
    };
    let check_group = |group: &[String]| -> Verdict {
        for t in group {
            super::c07::check_text_against(t, parse_expr(t)).map_err(|i| Issue::new(i.sig.replace("grammar:", "whitespace:"), i.msg))?;
        }
        Ok(())
    };
    ctx.list(
        "whitespace-only-differences-fixed",
        &fixed_pairs,
        |g, acc| {
            acc.case("ws:fixed", true, || format!("{g:?}"));
            check_group(g)
        },
        |g| json!({"text_group": g}),
        "group",
    );
    let nn = ctx.tier.pick(6_000u64, 200_000u64);
    ctx.random(
        "whitespace-only-differences",
        nn,
        || gen::recipe(300),
        |bytes, acc| {
            let g = near(bytes);
            if let Some(acc) = acc {
                let distinct: std::collections::BTreeSet<&String> = g.iter().collect();
                acc.case("ws:generated", distinct.len() >= 3, || format!("{g:?}"));
            }
            check_group(&g)
        },
        |bytes| json!({"text_group": near(bytes)}),
        "group",
    );

    // ints
    let mut boundary: Vec<i128> = crate::pool::ints()
        .into_iter()
        .filter_map(|v| if let Value::Int(i) = v { Some(i) } else { None })
        .collect();
    let extra: Vec<i128> = boundary.iter().flat_map(|&b| [b.saturating_add(1), b.saturating_sub(1)]).collect();
    boundary.extend(extra);
    boundary.sort();
    boundary.dedup();
    let bcases: Vec<IntCase> = boundary
        .iter()
        .flat_map(|&v| (0..7u8).map(move |form| IntCase { v, form, zeros: (form as i128 + v.rem_euclid(3)) as u8 % 4 }))
        .collect();
    ctx.enumerate(
        "int-boundaries",
        bcases.len() as u64,
        true,
        |i, acc| {
            let c = &bcases[i as usize];
            acc.cell(&format!("int:form{}", c.form), true);
            if i % 29 == 0 {
                acc.sample("int", || int_spelling(c).unwrap_or_default());
            }
            check_int(c)
        },
        |i| json!({"int": bcases[i as usize].v.to_string(), "form": bcases[i as usize].form, "zeros": bcases[i as usize].zeros}),
        "int",
    );
    let oor = int_out_of_range_texts();
    ctx.enumerate(
        "int-out-of-range",
        oor.len() as u64,
        true,
        |i, acc| {
            acc.cell("int:out-of-range", true);
            acc.sample("int:out-of-range", || oor[i as usize].clone());
            expect_rejected("int", &oor[i as usize])
        },
        |i| json!({"reject": oor[i as usize]}),
        "reject",
    );
    let per = ctx.tier.pick(12_000u64, 400_000u64);
    ctx.random(
        "int-random",
        per,
        || gen::recipe(40),
        |bytes, acc| {
            let mut d = Dec::new(bytes);
            let c = IntCase { v: gen::gen_int(&mut d), form: d.below(7) as u8, zeros: d.below(4) as u8 };
            if let Some(acc) = acc {
                let nt = c.v.unsigned_abs() >= (1u128 << 126) || c.form > 0;
                acc.case(&format!("int:form{}", c.form), nt, || int_spelling(&c).unwrap_or_default());
            }
            check_int(&c)
        },
        |bytes| {
            let mut d = Dec::new(bytes);
            let c = IntCase { v: gen::gen_int(&mut d), form: d.below(7) as u8, zeros: d.below(4) as u8 };
            json!({"int": c.v.to_string(), "form": c.form, "zeros": c.zeros})
        },
        "int",
    );

    // floats
    ctx.random(
        "float-bits",
        per,
        || gen::recipe(12),
        |bytes, acc| {
            let mut d = Dec::new(bytes);
            let bits = match d.below(4) {
                0 => gen::gen_float(&mut d).to_bits(),
                _ => d.u64(),
            };
            let exp = d.bool();
            if let Some(acc) = acc {
                let f = f64::from_bits(bits);
                let nt = f.is_finite() && (f.abs() > 1e300 || (f != 0.0 && f.abs() < 1e-300) || f.to_bits() == (-0.0f64).to_bits());
                acc.case(if exp { "float:exp" } else { "float:plain" }, nt || f.is_finite(), || {
                    print::float_text(f, exp).unwrap_or_default().chars().take(60).collect()
                });
            }
            check_float_bits(bits, exp)
        },
        |bytes| {
            let mut d = Dec::new(bytes);
            let bits = match d.below(4) {
                0 => gen::gen_float(&mut d).to_bits(),
                _ => d.u64(),
            };
            json!({"float_bits": format!("{bits:016x}"), "exp": d.bool()})
        },
        "float",
    );
    ctx.random(
        "float-strings",
        per,
        || gen::recipe(70),
        |bytes, acc| {
            let t = float_string(&mut Dec::new(bytes));
            if let Some(acc) = acc {
                acc.case("float:string", true, || t.clone());
            }
            check_float_string(&t)
        },
        |bytes| json!({"float_text": float_string(&mut Dec::new(bytes))}),
        "float",
    );

    // decimals
    ctx.random(
        "decimals",
        per,
        || gen::recipe(60),
        |bytes, acc| {
            let c = dec_case(&mut Dec::new(bytes));
            if let Some(acc) = acc {
                let nt = c.scale == 28 || c.mantissa.unsigned_abs() >= (1u128 << 95) || !c.extra.is_empty();
                acc.case(if c.extra.is_empty() { "decimal:exact" } else { "decimal:beyond-28" }, nt, || dec_text(&c));
            }
            check_dec(&c)
        },
        |bytes| {
            let c = dec_case(&mut Dec::new(bytes));
            json!({"dec_mantissa": c.mantissa.to_string(), "scale": c.scale, "extra": c.extra, "zeros": c.zeros})
        },
        "decimal",
    );

    // strings
    ctx.random(
        "strings",
        per,
        || gen::recipe(120),
        |bytes, acc| {
            let (s, text) = string_case(&mut Dec::new(bytes));
            if let Some(acc) = acc {
                let nt = text.contains('\\') || !s.is_ascii();
                acc.case("string", nt, || text.clone());
            }
            expect_literal("string", &text, &Value::String(s.clone()))?;
            expect_string_among_others(&text, &s)?;
            if !text.contains('\n') && !text.contains('\r') {
                expect_string_as_metadata(&text, &s)?;
            }
            expect_string_through_rule(&text, &s)
        },
        |bytes| {
            let (s, text) = string_case(&mut Dec::new(bytes));
            json!({"string": s, "string_text": text})
        },
        "string",
    );

    // words
    let words = word_family();
    ctx.extra("word_family_size", json!(words.len()));
    ctx.enumerate(
        "words",
        words.len() as u64,
        true,
        |i, acc| {
            let w = &words[i as usize];
            acc.cell(if lex::is_reserved_spelling(w) { "word:not-identifier" } else { "word:identifier" }, true);
            if i % 37 == 0 {
                acc.sample("word", || w.clone());
            }
            check_word(w)
        },
        |i| json!({"word": words[i as usize]}),
        "word",
    );

    // layout, exhaustive core: every combination of 7 separators in every gap of five short token sequences
    // (including "no separator": maximal munch decides, and the reference lexer says what the text then denotes)
    let seqs: Vec<Vec<&str>> = vec![
        vec!["a", "+", "-", "i1", "-", "i2"],
        vec!["f", "(", "[", "i1", ",", "]", ")"],
        vec!["if", "a", "then", "b", "else", "c"],
        vec!["a", ".", "b", ".", "0", ".", "f1"],
        vec!["!", "a", "contains", "\"s\"", "/", "/", "x"],
        vec!["i", "1", "in", "ty", "==", "=", "0x1", "f"],
    ];
    let seps = [" ", "", "\n", "\t", "// c\n", "\u{a0}", "// c\r"];
    let mut combos: Vec<(usize, u64)> = vec![];
    for (si, sq) in seqs.iter().enumerate() {
        let gaps = sq.len() as u32 - 1;
        let total = (seps.len() as u64).pow(gaps);
        // sequences with more than 6 gaps are strided to stay within a fixed budget
        let stride = (total / ctx.tier.pick(30_000u64, 1_000_000u64)).max(1);
        let mut i = ctx.seed % stride;
        while i < total {
            combos.push((si, i));
            i += stride;
        }
    }
    let build = |si: usize, mut code: u64| -> String {
        let sq = &seqs[si];
        let mut t = String::from(sq[0]);
        for w in &sq[1..] {
            t.push_str(seps[(code % seps.len() as u64) as usize]);
            code /= seps.len() as u64;
            t.push_str(w);
        }
        t
    };
    ctx.enumerate(
        "layout-combinations",
        combos.len() as u64,
        false,
        |i, acc| {
            let (si, code) = combos[i as usize];
            let t = build(si, code);
            let glued = t.len() < seqs[si].iter().map(|w| w.len()).sum::<usize>() + seqs[si].len() - 1;
            acc.cell(if glued { "combo:some-gap-empty" } else { "combo:all-separated" }, true);
            if i % 9973 == 0 {
                acc.sample("combo", || format!("{t:?}"));
            }
            super::c07::check_text_against(&t, parse_expr(&t)).map_err(|i| Issue::new(i.sig.replace("grammar:", "layout:"), i.msg))
        },
        |i| {
            let (si, code) = combos[i as usize];
            json!({"source_text": build(si, code)})
        },
        "text",
    );

    // texts of the robustness generators (glued tokens, mutations, Unicode separators): tokenisation and tree must be the
    // reference lexer's / parser's
    let nt = ctx.tier.pick(40_000u64, 800_000u64);
    ctx.random(
        "generated-texts-vs-reference-lexer",
        nt,
        || gen::recipe(300),
        |bytes, acc| {
            let (t, class, _) = super::c06::random_text(bytes);
            if let Some(acc) = acc {
                let ok = parse_expr(&t).is_ok();
                acc.case(&format!("text:{class}:{}", if ok { "accepted" } else { "rejected" }), !t.is_ascii() || t.contains("//") || ok, || t.clone());
            }
            super::c07::check_text_against(&t, parse_expr(&t)).map_err(|i| Issue::new(i.sig.replace("grammar:", "lexical:"), i.msg))
        },
        |bytes| json!({"source_text": super::c06::random_text(bytes).0}),
        "text",
    );

    // layout
    let nl = ctx.tier.pick(30_000u64, 600_000u64);
    ctx.random(
        "layouts",
        nl,
        || gen::recipe(300),
        |bytes, acc| {
            let (toks, l1, l2, fancy) = layout_case(bytes);
            if let Some(acc) = acc {
                acc.case(if fancy { "layout:fancy" } else { "layout:plain" }, fancy, || format!("{l1:?} vs {l2:?}"));
            }
            check_layout(&toks, &l1, &l2)
        },
        |bytes| {
            let (toks, l1, l2, _) = layout_case(bytes);
            json!({"tokens": toks.iter().map(|t| t.text().to_string()).collect::<Vec<_>>(), "layout1": l1, "layout2": l2})
        },
        "layout",
    );
}

pub fn replay(j: &serde_json::Value) -> Option<Verdict> {
    if let Some(v) = j.get("int").and_then(|x| x.as_str()) {
        let c = IntCase { v: v.parse().ok()?, form: j.get("form")?.as_u64()? as u8, zeros: j.get("zeros")?.as_u64()? as u8 };
        return Some(check_int(&c));
    }
    if let Some(t) = j.get("reject").and_then(|x| x.as_str()) {
        return Some(expect_rejected("int", t));
    }
    if let Some(b) = j.get("float_bits").and_then(|x| x.as_str()) {
        return Some(check_float_bits(u64::from_str_radix(b, 16).ok()?, j.get("exp")?.as_bool()?));
    }
    if let Some(t) = j.get("float_text").and_then(|x| x.as_str()) {
        return Some(check_float_string(t));
    }
    if let Some(m) = j.get("dec_mantissa").and_then(|x| x.as_str()) {
        let c = DecCase {
            mantissa: m.parse().ok()?,
            scale: j.get("scale")?.as_u64()? as u32,
            extra: j.get("extra")?.as_str()?.to_string(),
            zeros: j.get("zeros")?.as_u64()? as u8,
        };
        return Some(check_dec(&c));
    }
    if let Some(t) = j.get("string_text").and_then(|x| x.as_str()) {
        let want = j.get("string")?.as_str()?.to_string();
        return Some(
            expect_literal("string", t, &Value::String(want.clone()))
                .and_then(|_| if !t.contains('\n') && !t.contains('\r') { expect_string_as_metadata(t, &want) } else { Ok(()) })
                .and_then(|_| expect_string_through_rule(t, &want)),
        );
    }
    if let Some(w) = j.get("word").and_then(|x| x.as_str()) {
        return Some(check_word(w));
    }
    if let Some(t) = j.get("source_text").and_then(|x| x.as_str()) {
        return Some(super::c07::check_text_against(t, parse_expr(t)));
    }
    if let Some(g) = j.get("text_group").and_then(|x| x.as_array()) {
        for t in g {
            let t = t.as_str()?;
            if let Err(i) = super::c07::check_text_against(t, parse_expr(t)) {
                return Some(Err(i));
            }
        }
        return Some(Ok(()));
    }
    if let Some(l1) = j.get("layout1").and_then(|x| x.as_str()) {
        let l2 = j.get("layout2")?.as_str()?;
        let mut toks = vec![];
        for t in j.get("tokens")?.as_array()? {
            let mut l = lex::lex(t.as_str()?).ok()?;
            if l.len() != 1 {
                return None;
            }
            toks.push(l.remove(0));
        }
        return Some(check_layout(&toks, l1, l2));
    }
    None
}
