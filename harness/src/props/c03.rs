//! C03 — operators never coerce operands between types.
//! Oracle: a small support table written directly from the property / DESIGN.md §3.3, independent of
//! the reference evaluator's code path.

use super::evalcommon::*;
use crate::core::*;
use crate::data::*;
use crate::gen::{self, Dec, Ty};
use crate::model::eval::{self as me, MErr};
use crate::pool;
use reval::expr::Index;
use reval::prelude::*;

#[derive(Clone, Copy, PartialEq, Eq, Debug)]
enum T {
    Str,
    Int,
    Float,
    Dec,
    Bool,
    Dt,
    Du,
    Vec,
    Map,
    None,
}

fn ty(v: &Value) -> T {
    match v {
        Value::String(_) => T::Str,
        Value::Int(_) => T::Int,
        Value::Float(_) => T::Float,
        Value::Decimal(_) => T::Dec,
        Value::Bool(_) => T::Bool,
        Value::DateTime(_) => T::Dt,
        Value::Duration(_) => T::Du,
        Value::Vec(_) => T::Vec,
        Value::Map(_) => T::Map,
        Value::None => T::None,
    }
}

/// Allowed result types of a supported unary cell (None = cell unsupported).
fn unary_cell(kind: &str, a: T) -> Option<Vec<T>> {
    use T::*;
    let r = match (kind, a) {
        ("not", Bool) => vec![Bool],
        ("neg", Int | Float | Dec) => vec![a],
        ("is_some" | "is_none", _) => vec![Bool],
        ("int", Int | Float | Dec | Str) => vec![Int],
        ("float", Int | Float | Dec | Str) => vec![Float],
        ("dec", Int | Float | Dec | Str) => vec![Dec],
        ("datetime", Str | Int | Dt) => vec![Dt],
        ("duration", Int | Du) => vec![Du],
        ("uppercase" | "lowercase" | "trim", Str) => vec![Str],
        ("floor" | "round" | "fract", Float | Dec) => vec![a],
        ("year" | "month", Dt) => vec![Int],
        ("week", Int) => vec![Du],
        ("week", Du) => vec![Int],
        ("day" | "hour" | "minute" | "second", Int) => vec![Du],
        ("day" | "hour" | "minute" | "second", Dt | Du) => vec![Int],
        _ => return Option::None,
    };
    Some(r)
}

fn binary_cell(kind: &str, a: T, b: T) -> Option<Vec<T>> {
    use T::*;
    let r = match (kind, a, b) {
        ("add" | "sub" | "mult" | "div" | "rem", Int, Int) => vec![Int],
        ("add" | "sub" | "mult" | "div" | "rem", Float, Float) => vec![Float],
        ("add" | "sub" | "mult" | "div" | "rem", Dec, Dec) => vec![Dec],
        ("add" | "sub", Dt, Du) => vec![Dt],
        ("sub", Dt, Dt) => vec![Du],
        ("sub", Du, Du) => vec![Du],
        ("gt" | "gte" | "lt" | "lte", Int, Int)
        | ("gt" | "gte" | "lt" | "lte", Float, Float)
        | ("gt" | "gte" | "lt" | "lte", Dec, Dec)
        | ("gt" | "gte" | "lt" | "lte", Dt, Dt)
        | ("gt" | "gte" | "lt" | "lte", Du, Du) => vec![Bool],
        ("bitand" | "bitor" | "bitxor", Int, Int) => vec![Int],
        ("bitand" | "bitor" | "bitxor", Bool, Bool) => vec![Bool],
        ("contains", Map, Str) | ("contains", Vec, _) | ("contains", Str, Str) | ("contains", Int, Int) => vec![Bool],
        _ => return Option::None,
    };
    Some(r)
}

fn is_type_error(r: &Result<Value, reval::Error>) -> bool {
    matches!(r, Err(reval::Error::InvalidType))
}

/// Judge a depth-1 cell with non-None literal operands.
fn judge_cell(case: &EvalCase, r: &Result<Value, reval::Error>) -> Verdict {
    let (kind, kids) = node(&case.expr);
    let vals: Vec<&Value> = kids
        .iter()
        .map(|k| match k {
            Expr::Value(v) => v,
            _ => unreachable!("C03 cells have literal operands"),
        })
        .collect();
    let fail = |what: &str| {
        Err(Issue::new(
            format!("coerce:{kind}({})", operand_types(&case.expr)),
            format!("{what}; implementation returned {}; case {}", me::show_actual(r), case.render()),
        ))
    };
    match kind {
        "eq" | "neq" => {
            let (a, b) = (ty(vals[0]), ty(vals[1]));
            if a != b {
                let want = Value::Bool(kind == "neq");
                match r {
                    Ok(v) if same_value(v, &want, true) => Ok(()),
                    _ => fail("equality between values of different types must be false (inequality true), never an error or a coerced comparison"),
                }
            } else {
                match r {
                    Ok(Value::Bool(_)) => Ok(()),
                    _ => fail("equality of same-typed values must yield a Bool"),
                }
            }
        }
        "and" | "or" => {
            let a = ty(vals[0]);
            let b = ty(vals[1]);
            if a != T::Bool {
                return if is_type_error(r) { Ok(()) } else { fail("a non-boolean left operand of and/or must be a type error") };
            }
            let left = matches!(vals[0], Value::Bool(true));
            let decided = (kind == "and" && !left) || (kind == "or" && left);
            if decided {
                match r {
                    Ok(Value::Bool(x)) if *x == left => Ok(()),
                    _ => fail("a deciding left operand must give the result without looking at the right operand"),
                }
            } else if b != T::Bool {
                if is_type_error(r) {
                    Ok(())
                } else {
                    fail("a non-boolean right operand of and/or that is reached must be a type error")
                }
            } else {
                match r {
                    Ok(Value::Bool(_)) => Ok(()),
                    _ => fail("and/or of two booleans must yield a Bool"),
                }
            }
        }
        "if" => {
            if ty(vals[0]) != T::Bool {
                if is_type_error(r) {
                    Ok(())
                } else {
                    fail("a non-boolean if-condition must be a type error")
                }
            } else {
                Ok(())
            }
        }
        _ => {
            let cell = if vals.len() == 1 {
                unary_cell(kind, ty(vals[0]))
            } else {
                binary_cell(kind, ty(vals[0]), ty(vals[1]))
            };
            match cell {
                Option::None => {
                    if is_type_error(r) {
                        Ok(())
                    } else {
                        fail("operand types this operator does not support must give a type error, not a value or another error")
                    }
                }
                Some(allowed) => match r {
                    Err(reval::Error::InvalidType) => fail("a supported operand type combination must not be a type error"),
                    Err(_) => Ok(()),
                    Ok(v) => {
                        if allowed.contains(&ty(v)) {
                            Ok(())
                        } else {
                            fail("result type differs from the operator's defined result type (only casts change a value's type)")
                        }
                    }
                },
            }
        }
    }
}

fn run_case(case: &EvalCase) -> Result<Result<Value, reval::Error>, Issue> {
    match observe(case).actual {
        Actual::Done(r) => Ok(r),
        Actual::Panic(p) => Err(Issue::new("coerce:panic", format!("panic {p}; case {}", case.render()))),
        Actual::Pending => Err(Issue::new("coerce:pending", format!("pending; case {}", case.render()))),
    }
}

pub fn check_cell(case: &EvalCase) -> Verdict {
    let r = run_case(case)?;
    judge_cell(case, &r)
}

/// Typed tree with one wrongly-typed literal buried inside; oracle = reference evaluator.
fn buried_case(bytes: &[u8]) -> EvalCase {
    let mut d = Dec::new(bytes);
    let cfg = gen::ExprCfg { typed_weight: 8, fn_names: vec!["nofn".into()], sym_names: vec!["nosym".into()] };
    let want = *d.pick(&[Ty::Int, Ty::Float, Ty::Dec, Ty::Bool, Ty::Str, Ty::DateTime, Ty::Duration]);
    let depth = 2 + d.below(3) as u32;
    let e = gen::gen_expr(&mut d, want, depth, &cfg);
    // replace one literal leaf by a coinciding value of another type
    let leaves = count_literals(&e);
    let target = if leaves == 0 { 0 } else { d.below(leaves) };
    let co = pool::coinciding();
    let repl = d.pick(&co).clone();
    let mut k = 0;
    let e = replace_literal(&e, target, &repl, &mut k);
    let facts = gen::gen_facts(&mut d);
    EvalCase::plain(e, facts)
}

fn count_literals(e: &Expr) -> usize {
    match e {
        Expr::Value(_) => 1,
        _ => children(e).iter().map(|c| count_literals(c)).sum(),
    }
}

fn replace_literal(e: &Expr, target: usize, repl: &Value, k: &mut usize) -> Expr {
    match e {
        Expr::Value(_) => {
            let out = if *k == target { Expr::Value(repl.clone()) } else { e.clone() };
            *k += 1;
            out
        }
        _ => {
            let kids: Vec<Expr> = children(e).iter().map(|c| replace_literal(c, target, repl, k)).collect();
            rebuild(e, kids)
        }
    }
}

pub(crate) fn check_buried(case: &EvalCase) -> Verdict {
    let o = observe(case);
    super::c02::judge(case, &o.actual, &o.model)
        .map_err(|i| Issue::new(i.sig.replace("table:", "coerce-tree:"), i.msg))
}

pub fn run(ctx: &Ctx) {
    ctx.set_rule(
        "Generated: every unary/binary node kind x every ordered pair of a 23-value pool covering the 9 non-None types, always \
         including the values that coincide after coercion (i1 f1 d1 \"1\" true [i1]; i0 f0 d0 \"\" false [] {}), plus if/and/or with \
         every value as condition/operand (exhaustive); every index step (text key / position, built through the Index variants and through every From impl, with digit-looking texts) over maps with digit keys, lists, strings and the scalar pool (exhaustive); and random fully typed trees in which one literal is replaced by a coinciding \
         value of another type. Oracle: an independent support table (unsupported type tuple => InvalidType; == / != across types => \
         false / true; supported tuple => never InvalidType and result type as defined; only casts change type); buried cases are \
         compared with the reference evaluator. Non-trivial: operand types differ or a non-Bool sits in a Bool position (cells), the \
         reference result is a type error (trees).",
    );
    ctx.assume("support table in harness/src/props/c03.rs is the list of type combinations each operator explicitly supports");

    super::regressions::run(ctx, "C03", |j| {
        let c = EvalCase::from_json(j)?;
        Some(if j.get("buried").and_then(|b| b.as_bool()).unwrap_or(false) { check_buried(&c) } else { check_cell(&c) })
    });

    let mut p = pool::coinciding();
    p.extend(pool::reduced().into_iter().filter(|v| !matches!(v, Value::None)));
    let n = p.len() as u64;
    let u = UNARY_KINDS.len() as u64 * n;
    let b = BINARY_KINDS.len() as u64 * n * n;
    let total = u + b + n;
    let cell = |i: u64| -> EvalCase {
        let v = |k: u64| Expr::Value(p[k as usize].clone());
        if i < u {
            EvalCase::plain(mk1(UNARY_KINDS[(i / n) as usize], v(i % n)), Value::None)
        } else if i < u + b {
            let j = i - u;
            let r = j % (n * n);
            EvalCase::plain(mk2(BINARY_KINDS[(j / (n * n)) as usize], v(r / n), v(r % n)), Value::None)
        } else {
            EvalCase::plain(Expr::iif(v(i - u - b), Expr::value(1), Expr::value(2)), Value::None)
        }
    };
    // starvation guard: every heterogeneous ordered type pair must occur for every binary kind
    let mut pairs = std::collections::BTreeSet::new();
    for a in &p {
        for b in &p {
            if ty(a) != ty(b) {
                pairs.insert((type_idx(a), type_idx(b)));
            }
        }
    }
    if pairs.len() != 72 {
        eprintln!("C03 generator starved: {} of 72 heterogeneous type pairs", pairs.len());
        std::process::exit(2);
    }
    ctx.extra("heterogeneous_type_pairs_per_binary_kind", serde_json::json!(pairs.len()));
    ctx.enumerate(
        "type-pair-cells",
        total,
        true,
        |i, acc| {
            let case = cell(i);
            let (_, kids) = node(&case.expr);
            let nt = match kids.len() {
                2 => {
                    let (a, b) = (kids[0], kids[1]);
                    match (a, b) {
                        (Expr::Value(x), Expr::Value(y)) => {
                            ty(x) != ty(y) || (matches!(root_sig(&case.expr).as_str(), "and" | "or") && ty(x) != T::Bool)
                        }
                        _ => false,
                    }
                }
                _ => match kids[0] {
                    Expr::Value(x) => unary_cell(node(&case.expr).0, ty(x)).is_none() || root_sig(&case.expr) == "if",
                    _ => false,
                },
            };
            acc.cell(&format!("cell:{}", root_sig(&case.expr)), nt);
            if nt && i % 211 == 0 {
                acc.sample(&format!("cell:{}", root_sig(&case.expr)), || case.render());
            }
            check_cell(&case)
        },
        |i| cell(i).to_json(),
        "cell",
    );

    let ic = index_cells();
    ctx.enumerate(
        "index-cells",
        ic.len() as u64,
        true,
        |i, acc| {
            let c = &ic[i as usize];
            let nt = !matches!((&c.container, c.is_text()), (Value::Map(_), true) | (Value::Vec(_), false)) || (c.is_text() && c.text.parse::<usize>().is_ok());
            acc.cell(&format!("cell:index:{}", ["map-variant", "vec-variant", "from-str", "from-string", "from-usize"][c.via as usize]), nt);
            if nt && i % 37 == 0 {
                acc.sample("cell:index", || c.to_json()["text"].as_str().unwrap_or("").to_string());
            }
            check_index_cell(c)
        },
        |i| ic[i as usize].to_json(),
        "indexcell",
    );

    // a non-boolean condition is a type error on every rung of an else-if ladder, in a then-branch and in a nested condition
    let ladder: Vec<EvalCase> = {
        let mut out = vec![];
        for v in &p {
            let c = || Expr::Value(v.clone());
            let i = |x: i128| Expr::value(x);
            // (literal true / false branches do not make the condition's own type irrelevant)
            out.push(EvalCase::plain(Expr::iif(c(), Expr::value(true), Expr::value(false)), Value::None));
            out.push(EvalCase::plain(Expr::iif(c(), Expr::value(false), Expr::value(true)), Value::None));
            out.push(EvalCase::plain(Expr::eq(Expr::iif(c(), Expr::value(true), Expr::value(false)), c()), Value::None));
            out.push(EvalCase::plain(Expr::Vec(vec![Expr::iif(c(), Expr::value(true), Expr::value(false))]), Value::None));
            out.push(EvalCase::plain(Expr::iif(Expr::value(false), i(1), Expr::iif(c(), i(2), i(3))), Value::None));
            out.push(EvalCase::plain(Expr::iif(Expr::value(false), i(1), Expr::iif(Expr::value(false), i(2), Expr::iif(c(), i(3), i(4)))), Value::None));
            out.push(EvalCase::plain(Expr::iif(Expr::value(true), Expr::iif(c(), i(2), i(3)), i(1)), Value::None));
            out.push(EvalCase::plain(Expr::iif(Expr::iif(Expr::value(true), c(), Expr::value(true)), i(1), i(2)), Value::None));
            out.push(EvalCase::plain(Expr::and(Expr::value(true), Expr::iif(Expr::value(false), Expr::value(true), c())), Value::None));
        }
        out
    };
    ctx.enumerate(
        "conditions-on-later-rungs",
        ladder.len() as u64,
        true,
        |i, acc| {
            let case = &ladder[i as usize];
            acc.cell("ladder", true);
            if i % 19 == 0 {
                acc.sample("ladder", || case.render());
            }
            check_buried(case)
        },
        |i| {
            let mut j = ladder[i as usize].to_json();
            j["buried"] = serde_json::json!(true);
            j
        },
        "buried",
    );

    // an ill-typed element anywhere in a list literal is a type error, also when the list is only searched and an earlier
    // element already matches (lists of 2-40 elements, the match and the ill-typed element at every relative position)
    let late: Vec<EvalCase> = {
        let i = |x: i128| Expr::value(x);
        let ill: Vec<Expr> = vec![
            Expr::add(i(1), Expr::Value(Value::Float(1.0))),
            Expr::div(i(1), Expr::Value(pool::dec(1, 0))),
            Expr::iif(Expr::value("1".to_string()), i(1), i(2)),
            Expr::and(i(1), Expr::value(true)),
            Expr::not(i(1)),
            Expr::mult(Expr::value("1".to_string()), i(2)),
            Expr::gt(i(1), Expr::Value(Value::Float(0.0))),
        ];
        let mut out = vec![];
        for n in [2usize, 3, 11, 12, 13, 40] {
            for (k, bad) in ill.iter().enumerate() {
                for (hit, badpos) in [(0usize, n - 1), (0, 1), (n - 2, n - 1), (n - 1, 0), (n / 2, n / 2 + 1)] {
                    if hit == badpos || hit >= n || badpos >= n {
                        continue;
                    }
                    let items: Vec<Expr> = (0..n).map(|p| if p == hit { i(7) } else if p == badpos { bad.clone() } else { i(100 + p as i128) }).collect();
                    let list = Expr::Vec(items);
                    let needle = if k % 2 == 0 { i(7) } else { Expr::reff("seven") };
                    out.push(EvalCase::plain(Expr::contains(list.clone(), needle), pool::map(&[("seven", Value::Int(7))])));
                    out.push(EvalCase::plain(Expr::index(list, Index::Vec(hit)), Value::None));
                }
            }
        }
        out
    };
    ctx.enumerate(
        "ill-typed-element-after-a-match",
        late.len() as u64,
        true,
        |i, acc| {
            let case = &late[i as usize];
            acc.cell("list:ill-typed-element", true);
            if i % 41 == 0 {
                acc.sample("list:ill-typed-element", || case.render());
            }
            check_buried(case)
        },
        |i| {
            let mut j = late[i as usize].to_json();
            j["buried"] = serde_json::json!(true);
            j
        },
        "buried",
    );

    // one text put through several conversions inside one evaluation: each conversion yields its own type every time
    // (`int(t) + dec(t)` stays a type error however often `t` has been converted before)
    let recast: Vec<EvalCase> = {
        let texts = [
            "12", "1700000000000000", "0000000000000012", "-000000000000012", "+1700000000000000", "170000000000000000000000", "1234567890.123456",
            "12345678901234.5", "0.0000000000000001", "1e00000000000002", "99999999999999999999999999999999999999", "1700000000000000 ", "not a number at all",
            "2015-07-30T03:26:13Z", "170141183460469231731687303715884105727", "١٧٠٠٠٠٠٠٠٠",
        ];
        let casts: [fn(Expr) -> Expr; 3] = [Expr::int, Expr::float, Expr::dec];
        let mut out = vec![];
        for t in texts {
            for spelled in 0..3 {
                let operand = || match spelled {
                    0 => Expr::value(t.to_string()),
                    1 => Expr::reff("t"),
                    _ => Expr::index(Expr::reff("o"), Index::Map("t".into())),
                };
                let facts = pool::map(&[("t", Value::String(t.into())), ("o", pool::map(&[("t", Value::String(t.into()))]))]);
                for c1 in casts {
                    for c2 in casts {
                        let a = || c1(operand());
                        let b = || c2(operand());
                        for e in [
                            Expr::Vec(vec![a(), b(), a()]),
                            Expr::add(a(), b()),
                            Expr::eq(a(), b()),
                            Expr::lt(b(), a()),
                            Expr::iif(Expr::eq(a(), a()), b(), Expr::value(0)),
                            Expr::contains(Expr::Vec(vec![a()]), b()),
                        ] {
                            out.push(EvalCase::plain(e, facts.clone()));
                        }
                    }
                }
            }
        }
        out
    };
    ctx.enumerate(
        "several-conversions-of-one-text",
        recast.len() as u64,
        true,
        |i, acc| {
            let case = &recast[i as usize];
            acc.cell(&format!("recast:{}", root_sig(&case.expr)), true);
            if i % 211 == 0 {
                acc.sample("recast", || case.render());
            }
            check_buried(case)
        },
        |i| {
            let mut j = recast[i as usize].to_json();
            j["buried"] = serde_json::json!(true);
            j
        },
        "buried",
    );

    // depth 2 over the coinciding family: every outer kind over every inner cell (e.g. !!i1 must stay a type error)
    let c2 = Cells2::new(vec![
        Value::Int(1),
        Value::Float(1.0),
        crate::pool::dec(1, 0),
        Value::String("1".into()),
        Value::Bool(true),
        Value::Vec(vec![Value::Int(1)]),
        crate::pool::map(&[]),
        crate::pool::dt(1_700_000_090, 0),
        crate::pool::du(90, 0),
    ]);
    ctx.enumerate(
        "coinciding-depth2",
        c2.count(),
        true,
        |i, acc| {
            let case = c2.cell(i);
            let o = observe(&case);
            acc.cell(&format!("d2:{}", root_sig(&case.expr)), matches!(o.model, Err(MErr::InvalidType)));
            if i % 9973 == 0 {
                acc.sample("d2", || case.render());
            }
            super::c02::judge(&case, &o.actual, &o.model).map_err(|i| Issue::new(i.sig.replace("table:", "coerce-tree:"), i.msg))
        },
        |i| {
            let mut j = c2.cell(i).to_json();
            j["buried"] = serde_json::json!(true);
            j
        },
        "buried",
    );

    let nrand = ctx.tier.pick(600_000u64, 6_000_000u64);
    ctx.random_min(
        "buried-mismatch-trees",
        nrand,
        || gen::recipe(300),
        |bytes, acc| {
            let case = buried_case(bytes);
            let o = observe(&case);
            if let Some(acc) = acc {
                let te = matches!(o.model, Err(MErr::InvalidType));
                acc.case(if te { "tree:type-error" } else { "tree:other" }, te, || case.render());
            }
            super::c02::judge(&case, &o.actual, &o.model)
                .map_err(|i| Issue::new(i.sig.replace("table:", "coerce-tree:"), i.msg))
        },
        |bytes| {
            let mut j = buried_case(bytes).to_json();
            j["buried"] = serde_json::json!(true);
            j
        },
        "buried",
        Some(&|bytes: &Vec<u8>, issue, is_known| {
            let case = buried_case(bytes);
            let (c, i) = minimize(&case, issue, &|c| check_buried(c).err().filter(|i| !is_known(i)));
            let mut j = c.to_json();
            j["buried"] = serde_json::json!(true);
            (j, i)
        }),
    );
}

// ---- index cells: a text key is never a position and a position never a text key -------------------

/// (container, how the index is built, text or position)
#[derive(Clone, Debug)]
struct IndexCell {
    container: Value,
    /// 0 Index::Map(text), 1 Index::Vec(pos), 2 Index::from(&str), 3 Index::from(String), 4 Index::from(usize)
    via: u8,
    text: String,
    pos: usize,
}

const INDEX_TEXTS: [&str; 9] = ["0", "1", "10", "01", "+1", "a", "", "-0", "18446744073709551616"];
const INDEX_POSITIONS: [usize; 4] = [0, 1, 10, 33];

fn index_containers() -> Vec<Value> {
    let digits = pool::map(&[
        ("0", Value::Int(70)),
        ("1", Value::Int(71)),
        ("10", Value::Int(72)),
        ("01", Value::Int(73)),
        ("+1", Value::Int(74)),
        ("a", Value::Int(75)),
        ("", Value::Int(76)),
    ]);
    let mut v = vec![
        digits,
        pool::map(&[("a", Value::Int(75))]),
        pool::map(&[]),
        Value::Vec((0..12).map(|i| Value::Int(100 + i)).collect()),
        Value::Vec(vec![]),
        Value::String("0123456789ab".into()),
    ];
    v.extend(pool::coinciding());
    v
}

fn index_cells() -> Vec<IndexCell> {
    let mut out = vec![];
    for c in index_containers() {
        for t in INDEX_TEXTS {
            for via in [0u8, 2, 3] {
                out.push(IndexCell { container: c.clone(), via, text: t.to_string(), pos: 0 });
            }
        }
        for p in INDEX_POSITIONS {
            for via in [1u8, 4] {
                out.push(IndexCell { container: c.clone(), via, text: String::new(), pos: p });
            }
        }
    }
    out
}

impl IndexCell {
    fn is_text(&self) -> bool {
        matches!(self.via, 0 | 2 | 3)
    }
    fn expr(&self, through_facts: bool) -> Expr {
        let idx = match self.via {
            0 => Index::Map(self.text.clone()),
            1 => Index::Vec(self.pos),
            2 => Index::from(self.text.as_str()),
            3 => Index::from(self.text.clone()),
            _ => Index::from(self.pos),
        };
        let base = if through_facts { Expr::reff("facts") } else { Expr::Value(self.container.clone()) };
        Expr::index(base, idx)
    }
    fn to_json(&self) -> serde_json::Value {
        serde_json::json!({"index_cell": {"container": value_to_json(&self.container), "via": self.via, "text": self.text, "pos": self.pos},
            "text": format!("{:?} via {} applied to {}", if self.is_text() { self.text.clone() } else { self.pos.to_string() },
                ["Index::Map", "Index::Vec", "Index::from(&str)", "Index::from(String)", "Index::from(usize)"][self.via as usize], show_value(&self.container))})
    }
    fn from_json(j: &serde_json::Value) -> Option<Self> {
        let c = j.get("index_cell")?;
        Some(IndexCell {
            container: value_from_json(c.get("container")?)?,
            via: c.get("via")?.as_u64()? as u8,
            text: c.get("text")?.as_str()?.to_string(),
            pos: c.get("pos")?.as_u64()? as usize,
        })
    }
}

fn check_index_cell(c: &IndexCell) -> Verdict {
    // the support table: text key on a map, position on a list; nothing else (the container is never None here)
    let want: Option<Value> = match (&c.container, c.is_text()) {
        (Value::Map(m), true) => Some(m.get(&c.text).cloned().unwrap_or(Value::None)),
        (Value::Vec(v), false) => Some(v.get(c.pos).cloned().unwrap_or(Value::None)),
        _ => None,
    };
    // (third form: the step applied to a symbol, as the collection operand of a membership test)
    {
        let idx = match c.expr(false) {
            Expr::Index(_, i) => i,
            _ => unreachable!(),
        };
        let e = Expr::contains(Expr::index(Expr::symbol("sc"), idx), Expr::value(7_000_001));
        let case = EvalCase { expr: e, facts: Value::None, fns: Default::default(), symbols: [("sc".to_string(), c.container.clone())].into_iter().collect() };
        let r = run_case(&case)?;
        // a step that is a type error stays one; a step that resolves gives whatever membership in the result is (not judged here)
        if want.is_none() && !matches!(r, Err(reval::Error::InvalidType)) {
            return Err(Issue::new(
                format!("coerce:index({},{}):under-contains", type_name(&c.container), if c.is_text() { "text" } else { "position" }),
                format!("a step of the wrong kind is a type error wherever it stands: expected a type error, implementation returned {}; case {} with symbol sc = {}", me::show_actual(&r), case.render(), show_value(&c.container)),
            ));
        }
    }
    for through_facts in [false, true] {
        let case = EvalCase::plain(c.expr(through_facts), if through_facts { c.container.clone() } else { Value::None });
        let r = run_case(&case)?;
        let ok = match (&want, &r) {
            (Some(v), Ok(x)) => same_value(v, x, true),
            (None, Err(reval::Error::InvalidType)) => true,
            _ => false,
        };
        if !ok {
            return Err(Issue::new(
                format!("coerce:index({},{})", type_name(&c.container), if c.is_text() { "text" } else { "position" }),
                format!(
                    "a text key addresses map entries only and a position list items only, whatever the text looks like: expected {}, implementation returned {}; case {}",
                    match &want {
                        Some(v) => show_value(v),
                        None => "a type error".into(),
                    },
                    me::show_actual(&r),
                    c.to_json()["text"]
                ),
            ));
        }
    }
    Ok(())
}

pub fn replay(j: &serde_json::Value) -> Option<Verdict> {
    if j.get("index_cell").is_some() {
        return IndexCell::from_json(j).map(|c| check_index_cell(&c));
    }
    let c = EvalCase::from_json(j)?;
    Some(if j.get("buried").and_then(|b| b.as_bool()).unwrap_or(false) { check_buried(&c) } else { check_cell(&c) })
}

/// Entry point of the `set_diff` fuzz target.
pub(crate) fn fuzz_bytes(bytes: &[u8]) -> Verdict {
    check_buried(&buried_case(bytes))
}
