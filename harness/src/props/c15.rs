//! C15 — a ruleset never holds duplicate or ill-formed rule and function names.
//! Stateful (model-based): histories of builder calls against a model of the builder.

use crate::core::*;
use crate::data::*;
use crate::gen::{self, Dec};
use crate::probe::intern;
use async_trait::async_trait;
use reval::prelude::*;
use serde_json::json;
use std::collections::{BTreeMap, BTreeSet};
use unicode_xid::UnicodeXID;

/// the language's reserved words (own copy, from the property / docs)
const RESERVED: [&str; 38] = [
    "and", "or", "if", "then", "else", "is_some", "is_none", "some", "int", "float", "dec", "true", "false", "none",
    "contains", "in", "to_upper", "to_lower", "uppercase", "lowercase", "starts", "ends", "trim", "round", "floor", "fract",
    "date_time", "datetime", "duration", "year", "month", "week", "day", "hour", "minute", "second", "key", "val",
];

/// Some(valid?) by the independent `unicode-ident` tables; None when the name contains a character on
/// which `unicode-ident` and the crate's `unicode-xid` disagree (Unicode-version skew): excluded.
fn well_formed(name: &str) -> Option<bool> {
    let mut cs = name.chars();
    let first = match cs.next() {
        Some(c) => c,
        None => return Some(false),
    };
    for c in name.chars() {
        if unicode_ident::is_xid_start(c) != c.is_xid_start() || unicode_ident::is_xid_continue(c) != c.is_xid_continue() {
            return None;
        }
    }
    Some((first == '_' || unicode_ident::is_xid_start(first)) && cs.all(unicode_ident::is_xid_continue))
}

struct Tagged {
    name: &'static str,
    serial: i128,
}

#[async_trait]
impl UserFunction for Tagged {
    async fn call(&self, _param: Value) -> FunctionResult {
        Ok(Value::Vec(vec![Value::String(self.name.to_string()), Value::Int(self.serial)]))
    }
    fn name(&self) -> &'static str {
        self.name
    }
    // (what a function answers here has no bearing on whether its name is free)
    fn cacheable(&self) -> bool {
        self.serial % 2 == 0
    }
}

#[derive(Clone, Debug)]
enum Op {
    Rule(String),
    Rules(Vec<String>),
    Function(String),
    Functions(Vec<String>),
    Symbol(String, i128),
    Symbols(Vec<(String, i128)>),
}

#[derive(Debug, PartialEq, Clone)]
enum Refusal {
    DuplicateRule(String),
    DuplicateFunction(String),
    InvalidFunction(String),
}

#[derive(Default, Clone)]
struct Model {
    rules: Vec<(String, i128)>,
    fns: BTreeMap<String, i128>,
    symbols: BTreeMap<String, i128>,
}

enum Predict {
    Accept(Model),
    Refuse(Refusal),
    /// name with Unicode-version skew: no prediction
    Unknown,
}

fn fn_verdict(m: &Model, name: &str) -> Result<Option<Refusal>, ()> {
    if RESERVED.contains(&name) {
        return Ok(Some(Refusal::InvalidFunction(name.to_string())));
    }
    match well_formed(name) {
        None => Err(()),
        Some(false) => Ok(Some(Refusal::InvalidFunction(name.to_string()))),
        Some(true) => {
            if m.fns.contains_key(name) {
                Ok(Some(Refusal::DuplicateFunction(name.to_string())))
            } else {
                Ok(None)
            }
        }
    }
}

fn predict(m: &Model, op: &Op, serial: i128) -> Predict {
    let mut n = m.clone();
    match op {
        Op::Rule(name) => {
            if n.rules.iter().any(|(r, _)| r == name) {
                return Predict::Refuse(Refusal::DuplicateRule(name.clone()));
            }
            n.rules.push((name.clone(), serial));
        }
        Op::Rules(names) => {
            for (i, name) in names.iter().enumerate() {
                if n.rules.iter().any(|(r, _)| r == name) {
                    return Predict::Refuse(Refusal::DuplicateRule(name.clone()));
                }
                n.rules.push((name.clone(), serial * 100 + i as i128));
            }
        }
        Op::Function(name) => match fn_verdict(&n, name) {
            Err(()) => return Predict::Unknown,
            Ok(Some(r)) => return Predict::Refuse(r),
            Ok(None) => {
                n.fns.insert(name.clone(), serial);
            }
        },
        Op::Functions(names) => {
            for (i, name) in names.iter().enumerate() {
                match fn_verdict(&n, name) {
                    Err(()) => return Predict::Unknown,
                    Ok(Some(r)) => return Predict::Refuse(r),
                    Ok(None) => {
                        n.fns.insert(name.clone(), serial * 100 + i as i128);
                    }
                }
            }
        }
        Op::Symbol(name, v) => {
            n.symbols.insert(name.clone(), *v);
        }
        Op::Symbols(items) => {
            for (name, v) in items {
                n.symbols.insert(name.clone(), *v);
            }
        }
    }
    Predict::Accept(n)
}

fn rule(name: &str, serial: i128) -> Rule {
    Rule::new(name.to_string(), BTreeMap::new(), Expr::value(format!("rule#{name}#{serial}")))
}

fn apply(b: Builder, op: &Op, serial: i128) -> Result<Builder, reval::Error> {
    match op {
        Op::Rule(name) => b.with_rule(rule(name, serial)),
        Op::Rules(names) => b.with_rules(names.iter().enumerate().map(|(i, n)| rule(n, serial * 100 + i as i128)).collect::<Vec<_>>()),
        Op::Function(name) => b.with_function(Tagged { name: intern(name), serial }),
        Op::Functions(names) => b.with_functions(
            names
                .iter()
                .enumerate()
                .map(|(i, n)| Box::new(Tagged { name: intern(n), serial: serial * 100 + i as i128 }) as Box<dyn UserFunction + Send + Sync>)
                .collect::<Vec<_>>(),
        ),
        Op::Symbol(name, v) => Ok(b.with_symbol(name, sym_value(*v))),
        Op::Symbols(items) => b.with_symbols(symbols_table(items, serial)),
    }
}

/// A `Symbols` table built through one of its three public ways (From, insert one by one, append in two parts); the
/// table itself must answer `get` for exactly its names, with the most recent value of each.
/// The value registered for the model's number v: mostly Int(v); some numbers stand for values that are equal under ==
/// yet distinguishable (0.0 / -0.0, d1.0 / d1.00), so that "most recently registered" is observable for such twins too.
fn sym_value(v: i128) -> Value {
    match v % 10 {
        0 => Value::Float(0.0),
        1 => Value::Float(-0.0),
        2 => crate::pool::dec(10, 1),
        3 => crate::pool::dec(100, 2),
        _ => Value::Int(v),
    }
}

fn symbols_table(items: &[(String, i128)], serial: i128) -> Symbols {
    let pairs = |xs: &[(String, i128)]| xs.iter().map(|(n, v)| (n.clone(), sym_value(*v))).collect::<Vec<_>>();
    match serial % 3 {
        0 => Symbols::from(pairs(items)),
        1 => {
            let mut s = Symbols::default();
            for (n, v) in items {
                s.insert(n, sym_value(*v));
            }
            s
        }
        _ => {
            let mut s = Symbols::default();
            let mid = items.len() / 2;
            s.append(pairs(&items[..mid]));
            s.append(pairs(&items[mid..]));
            s
        }
    }
}

fn check_symbols_table(items: &[(String, i128)], serial: i128) -> Verdict {
    let t = symbols_table(items, serial);
    let mut want: BTreeMap<&str, i128> = BTreeMap::new();
    for (n, v) in items {
        want.insert(n.as_str(), *v);
    }
    for name in SYM_NAMES.iter().copied().chain(items.iter().map(|x| x.0.as_str())) {
        let ok = match (want.get(name), t.get(name)) {
            (Some(v), Ok(x)) => same_value(x, &sym_value(*v), true),
            (None, Err(reval::Error::InvalidSymbol(n))) => n == name,
            _ => false,
        };
        if !ok {
            return Err(Issue::new(
                "builder:symbols-table",
                format!("a Symbols table built (way {}) from {items:?} answers get({name:?}) with {:?}, expected {:?}", serial % 3, t.get(name), want.get(name)),
            ));
        }
    }
    Ok(())
}

fn refusal_of(e: &reval::Error) -> Option<Refusal> {
    match e {
        reval::Error::DuplicateRuleName(n) => Some(Refusal::DuplicateRule(n.clone())),
        reval::Error::DuplicateFunctionName(n) => Some(Refusal::DuplicateFunction(n.clone())),
        reval::Error::InvalidFunctionName(n) => Some(Refusal::InvalidFunction(n.clone())),
        _ => None,
    }
}

fn check_history(ops: &[Op]) -> Verdict {
    let show = || format!("{ops:?}");
    let mut model = Model::default();
    let mut accepted: Vec<(Op, i128)> = vec![];
    let mut mentioned_fns: BTreeSet<String> = BTreeSet::new();
    let mut mentioned_syms: BTreeSet<String> = BTreeSet::new();
    let mut builder = Some(ruleset());
    let mut unknown = false;
    for (i, op) in ops.iter().enumerate() {
        let serial = i as i128 + 1;
        match op {
            Op::Function(n) => {
                mentioned_fns.insert(n.clone());
            }
            Op::Functions(ns) => mentioned_fns.extend(ns.iter().cloned()),
            Op::Symbol(n, _) => {
                mentioned_syms.insert(n.clone());
            }
            Op::Symbols(items) => {
                mentioned_syms.extend(items.iter().map(|x| x.0.clone()));
                check_symbols_table(items, serial)?;
            }
            _ => {}
        }
        let b = builder.take().unwrap();
        let got = match catch(|| apply(b, op, serial)) {
            Ok(r) => r,
            Err(p) => return Err(Issue::new("builder:panic", format!("builder call {op:?} panicked: {p}; history {}", show()))),
        };
        match (predict(&model, op, serial), got) {
            (Predict::Unknown, _) => {
                unknown = true;
                break;
            }
            (Predict::Accept(m), Ok(b)) => {
                model = m;
                accepted.push((op.clone(), serial));
                builder = Some(b);
            }
            (Predict::Refuse(want), Err(e)) => {
                if refusal_of(&e).as_ref() != Some(&want) {
                    return Err(Issue::new(
                        "builder:wrong-refusal",
                        format!("call {i} {op:?} must be refused with {want:?} but the error is {e}; history {}", show()),
                    ));
                }
                // the refused call consumed the builder: rebuild the accepted prefix
                let mut b = ruleset();
                for (aop, s) in &accepted {
                    b = apply(b, aop, *s).map_err(|e| {
                        Issue::new("builder:not-deterministic", format!("replaying accepted call {aop:?} fails: {e}; history {}", show()))
                    })?;
                }
                builder = Some(b);
            }
            (Predict::Accept(_), Err(e)) => {
                return Err(Issue::new(
                    format!("builder:refuses-valid:{}", op_kind(op)),
                    format!("call {i} {op:?} must succeed but was refused: {e}; history {}", show()),
                ))
            }
            (Predict::Refuse(want), Ok(_)) => {
                return Err(Issue::new(
                    format!("builder:accepts-invalid:{}", op_kind(op)),
                    format!("call {i} {op:?} must be refused with {want:?} but succeeded; history {}", show()),
                ))
            }
        }
    }
    if unknown {
        return Ok(());
    }
    // probe the built ruleset
    let mut b = builder.take().unwrap();
    let mut probes: Vec<(String, Expr)> = vec![];
    for f in &mentioned_fns {
        probes.push((format!("\u{1}fn:{f}"), Expr::func(f.clone(), Expr::value(1))));
    }
    for s in &mentioned_syms {
        probes.push((format!("\u{1}sym:{s}"), Expr::symbol(s)));
    }
    probes.push(("\u{1}fn:never-registered".into(), Expr::func("never_registered", Expr::value(1))));
    for (n, e) in &probes {
        b = b
            .with_rule(Rule::new(n.clone(), BTreeMap::new(), e.clone()))
            .map_err(|e| Issue::new("builder:probe-rule-refused", format!("probe rule refused: {e}; history {}", show())))?;
    }
    let rs = b.build();
    let out = catch(|| {
        block_on(rs.evaluate_value(&Value::None))
            .expect("evaluate_value")
            .into_iter()
            .map(|o| (o.rule.name().to_string(), o.value))
            .collect::<Vec<_>>()
    })
    .map_err(|p| Issue::new("builder:panic", format!("evaluating the built ruleset panicked: {p}; history {}", show())))?;
    let nrules = model.rules.len();
    if out.len() != nrules + probes.len() {
        return Err(Issue::new(
            "builder:rule-count",
            format!("built ruleset has {} rules, expected {} accepted + {} probes; history {}", out.len(), nrules, probes.len(), show()),
        ));
    }
    for (i, (name, serial)) in model.rules.iter().enumerate() {
        let want = Value::String(format!("rule#{name}#{serial}"));
        let ok = out[i].0 == *name && matches!(&out[i].1, Ok(v) if same_value(v, &want, true));
        if !ok {
            return Err(Issue::new(
                "builder:rules-differ",
                format!("rule {i} of the built ruleset is {:?} -> {:?}, expected {name:?} -> {}; history {}", out[i].0, out[i].1.as_ref().map(show_value), show_value(&want), show()),
            ));
        }
    }
    for (j, (pname, _)) in probes.iter().enumerate() {
        let (_, got) = &out[nrules + j];
        let subject = &pname[4..];
        let ok = if pname.starts_with("\u{1}fn:") {
            let key = if subject == "never-registered" { "never_registered" } else { subject };
            match model.fns.get(key) {
                Some(serial) => matches!(got, Ok(v) if same_value(v, &Value::Vec(vec![Value::String(key.to_string()), Value::Int(*serial)]), true)),
                None => matches!(got, Err(reval::Error::UnknownUserFunction(n)) if n == key),
            }
        } else {
            let key = &pname[5..];
            match model.symbols.get(key) {
                Some(v) => matches!(got, Ok(x) if same_value(x, &sym_value(*v), true)),
                None => matches!(got, Err(reval::Error::InvalidSymbol(n)) if n == key),
            }
        };
        if !ok {
            return Err(Issue::new(
                if pname.starts_with("\u{1}fn:") { "builder:functions-differ" } else { "builder:symbols-differ" },
                format!(
                    "probe {:?} of the built ruleset gives {:?}; model functions {:?} symbols {:?}; history {}",
                    &pname[1..],
                    got.as_ref().map(show_value).map_err(|e| e.to_string()),
                    model.fns,
                    model.symbols,
                    show()
                ),
            ));
        }
    }
    Ok(())
}

fn op_kind(op: &Op) -> &'static str {
    match op {
        Op::Rule(_) => "with_rule",
        Op::Rules(_) => "with_rules",
        Op::Function(_) => "with_function",
        Op::Functions(_) => "with_functions",
        Op::Symbol(..) => "with_symbol",
        Op::Symbols(_) => "with_symbols",
    }
}

// (rule names and function names are separate name spaces: the pools overlap on purpose)
const RULE_NAMES: [&str; 7] = ["r1", "R1", "r 1", "", "f1", "_f", "s"];
const FN_NAMES: [&str; 12] = ["f1", "F1", "_f", "if", "key", "f-1", "é", "f1", "r1", "s", "facts", "name"];
// (symbol names are arbitrary strings to the builder: also spellings with the `:` sigil, blanks and the empty name)
const SYM_NAMES: [&str; 12] = ["s", "S", "s2", "key", "val", "if", ":s", "s:", " s", "", "::s", ":"];

fn gen_history(bytes: &[u8]) -> Vec<Op> {
    let mut d = Dec::new(bytes);
    let n = 1 + d.below(12);
    (0..n)
        .map(|_| match d.below(8) {
            0 | 1 => Op::Rule(d.pick(&RULE_NAMES).to_string()),
            2 => Op::Rules((0..d.below(4)).map(|_| d.pick(&RULE_NAMES).to_string()).collect()),
            3 | 4 => Op::Function(d.pick(&FN_NAMES).to_string()),
            5 => Op::Functions((0..d.below(4)).map(|_| d.pick(&FN_NAMES).to_string()).collect()),
            6 => Op::Symbol(d.pick(&SYM_NAMES).to_string(), d.below(100) as i128),
            _ => Op::Symbols((0..d.below(4)).map(|_| (d.pick(&SYM_NAMES).to_string(), d.below(100) as i128)).collect()),
        })
        .collect()
}

fn sweep_names() -> Vec<String> {
    let mut v: BTreeSet<String> = RESERVED.iter().map(|s| s.to_string()).collect();
    v.extend(crate::model::lex::KEYWORDS.iter().map(|s| s.to_string()));
    for s in [
        "a", "abc", "a1", "a_b", "A", "Z9", "_", "_a", "_1", "__", "_ a", "_-", "_(", "_.", "_ ", "_\u{0}", "_é", "a b", "a-b",
        "a.b", "a(", "", " ", "1a", "1", "é", "aé", "a\u{301}", "\u{301}a", "i5", "f1", "d2", "i", "f", "d", "facts", "IF", "If",
        "true_", "nonex", "in_", "中文", "a中", "😀", "a😀", "_😀", "a\u{200b}", "\u{feff}a", "a\n", "\ta", "ⅷ", "ª", "a·b", "a\u{b7}",
        "℮", "_℮", "ﬁ", "K", "ǅ", "a\u{e0100}",
    ] {
        v.insert(s.to_string());
    }
    for r in RESERVED {
        v.insert(format!("{r}_"));
        v.insert(format!("_{r}"));
        v.insert(r.to_uppercase());
    }
    v.into_iter().collect()
}

fn random_name(d: &mut Dec) -> String {
    let n = 1 + d.below(4);
    (0..n)
        .map(|_| match d.below(6) {
            0 => '_',
            1 => (b'a' + d.below(26) as u8) as char,
            2 => (b'0' + d.below(10) as u8) as char,
            3 => *d.pick(&[' ', '-', '(', '.', '\u{301}', '\u{b7}', '\u{200c}', '\u{200d}', '$', '\'']),
            4 => char::from_u32((d.u64() % 0x3000) as u32).unwrap_or('x'),
            _ => char::from_u32((d.u64() % 0x11_0000) as u32).unwrap_or('y'),
        })
        .collect()
}

fn ops_to_json(ops: &[Op]) -> serde_json::Value {
    json!(ops
        .iter()
        .map(|op| match op {
            Op::Rule(n) => json!(["rule", n]),
            Op::Rules(ns) => json!(["rules", ns]),
            Op::Function(n) => json!(["function", n]),
            Op::Functions(ns) => json!(["functions", ns]),
            Op::Symbol(n, v) => json!(["symbol", n, v.to_string()]),
            Op::Symbols(items) => json!(["symbols", items.iter().map(|(n, v)| json!([n, v.to_string()])).collect::<Vec<_>>()]),
        })
        .collect::<Vec<_>>())
}

fn ops_from_json(j: &serde_json::Value) -> Option<Vec<Op>> {
    let strs = |x: &serde_json::Value| -> Option<Vec<String>> { x.as_array()?.iter().map(|s| s.as_str().map(String::from)).collect() };
    j.as_array()?
        .iter()
        .map(|o| {
            let tag = o.get(0)?.as_str()?;
            Some(match tag {
                "rule" => Op::Rule(o.get(1)?.as_str()?.to_string()),
                "rules" => Op::Rules(strs(o.get(1)?)?),
                "function" => Op::Function(o.get(1)?.as_str()?.to_string()),
                "functions" => Op::Functions(strs(o.get(1)?)?),
                "symbol" => Op::Symbol(o.get(1)?.as_str()?.to_string(), o.get(2)?.as_str()?.parse().ok()?),
                "symbols" => Op::Symbols(
                    o.get(1)?
                        .as_array()?
                        .iter()
                        .map(|p| Some((p.get(0)?.as_str()?.to_string(), p.get(1)?.as_str()?.parse().ok()?)))
                        .collect::<Option<Vec<_>>>()?,
                ),
                _ => return None,
            })
        })
        .collect()
}

pub fn run(ctx: &Ctx) {
    ctx.set_rule(
        "Generated: (0) long histories: 31-130 distinct rule / function / symbol names accepted on one builder through single and batch calls, then each one of them again; (1) a name sweep: every reserved word (own copy of the 38-word list), every grammar keyword, reserved words with \
         a prefix/suffix/upper-cased, ASCII identifiers, `_`, `_a`, `_1`, `_ a`, `_-`, `_(`, `a b`, `a-b`, empty, `1a`, names that lex \
         as literals, non-ASCII identifiers, combining marks, emoji, zero-width characters (exhaustive list), and random Unicode names \
         of length 1-4, each as a single with_function call; (2) histories of 1-12 builder calls (with_rule, with_rules, \
         with_function, with_functions, with_symbol, with_symbols) over pools of 4 rule names, 7 function names (valid, invalid, \
         reserved, near-duplicates differing in case) and 3 symbol names, with repeats. Model: ordered rule names, function set, \
         symbol map; after a predicted refusal the accepted prefix is rebuilt (a refused call consumes the builder). Oracle: Ok/Err \
         of every call equals the model's prediction and a refusal carries the offending name; well-formedness = (`_` or XID_Start) \
         XID_Continue* by the independent unicode-ident tables (characters on which unicode-ident and unicode-xid disagree are \
         excluded and counted); the built ruleset evaluates exactly the accepted rules in order, every accepted function answers \
         under its own name with its own tag, every refused or never-registered name gives the unknown-function error naming it, and \
         every symbol yields the most recently registered value. Non-trivial: a history with a refusal followed by an accepted call, \
         or a name outside [A-Za-z_][A-Za-z0-9_]*.",
    );
    ctx.assume("identifier = ('_' | XID_Start) XID_Continue* (Unicode identifier definition), decided with unicode-ident");

    super::regressions::run(ctx, "C15", |j| replay(j));

    let names = sweep_names();
    let skew = std::sync::atomic::AtomicU64::new(0);
    ctx.enumerate(
        "name-sweep",
        names.len() as u64,
        true,
        |i, acc| {
            let n = &names[i as usize];
            if well_formed(n).is_none() {
                skew.fetch_add(1, std::sync::atomic::Ordering::Relaxed);
            }
            let class = if RESERVED.contains(&n.as_str()) {
                "name:reserved"
            } else {
                match well_formed(n) {
                    Some(true) => "name:well-formed",
                    Some(false) => "name:ill-formed",
                    None => "name:unicode-skew-excluded",
                }
            };
            acc.cell(class, true);
            if i % 13 == 0 {
                acc.sample(class, || format!("{n:?}"));
            }
            check_history(&[Op::Function(n.clone())])
        },
        |i| ops_to_json(&[Op::Function(names[i as usize].clone())]),
        "history",
    );

    let nr = ctx.tier.pick(500_000u64, 5_000_000u64);
    ctx.random(
        "random-names",
        nr,
        || gen::recipe(40),
        |bytes, acc| {
            let n = random_name(&mut Dec::new(bytes));
            if let Some(acc) = acc {
                let class = match well_formed(&n) {
                    Some(true) => "rname:well-formed",
                    Some(false) => "rname:ill-formed",
                    None => "rname:unicode-skew-excluded",
                };
                let plain = n.chars().all(|c| c.is_ascii_alphanumeric() || c == '_');
                acc.case(class, !plain, || format!("{n:?}"));
            }
            check_history(&[Op::Function(n.clone()), Op::Function(n)])
        },
        |bytes| {
            let n = random_name(&mut Dec::new(bytes));
            ops_to_json(&[Op::Function(n.clone()), Op::Function(n)])
        },
        "history",
    );
    ctx.extra("names_excluded_for_unicode_version_skew_in_sweep", json!(skew.load(std::sync::atomic::Ordering::Relaxed)));

    // long histories: N distinct names accepted on one builder (through single and batch calls), then any one of them again
    let mut long: Vec<Vec<Op>> = vec![];
    for n in [31usize, 32, 33, 34, 65, 130] {
        let rule_name = |k: usize| format!("rule {k}");
        let fn_name = |k: usize| format!("fn{k}");
        let mut base_rules: Vec<Op> = vec![];
        let mut base_fns: Vec<Op> = vec![];
        let mut k = 0;
        while k < n {
            // single, single, batch of 3, single, batch of 2, ...
            let batch = [1usize, 1, 3, 1, 2][k % 5].min(n - k);
            if batch == 1 {
                base_rules.push(Op::Rule(rule_name(k)));
                base_fns.push(Op::Function(fn_name(k)));
            } else {
                base_rules.push(Op::Rules((k..k + batch).map(rule_name).collect()));
                base_fns.push(Op::Functions((k..k + batch).map(fn_name).collect()));
            }
            k += batch;
        }
        for again in 0..n {
            for batch in [false, true] {
                let mut h = base_rules.clone();
                h.push(if batch { Op::Rules(vec![format!("fresh {n}"), rule_name(again)]) } else { Op::Rule(rule_name(again)) });
                h.push(Op::Rule(format!("after {n}")));
                long.push(h);
            }
            if again % 3 == 0 {
                let mut h = base_fns.clone();
                h.push(Op::Function(fn_name(again)));
                h.push(Op::Functions(vec![format!("fresh{n}"), fn_name(again)]));
                long.push(h);
            }
        }
        // symbols: N names, every one registered again later with another value
        let mut h: Vec<Op> = (0..n).map(|k| Op::Symbol(format!("sym{k}"), k as i128)).collect();
        h.push(Op::Symbols((0..n).step_by(2).map(|k| (format!("sym{k}"), 1000 + k as i128)).collect()));
        h.extend((0..n).step_by(3).map(|k| Op::Symbol(format!("sym{k}"), 2000 + k as i128)));
        long.push(h);
    }
    // symbols of every kind of value (maps and lists among them) defined earlier with another value through every way
    // a builder takes symbols: the value registered last is the one a rule sees, whole
    let redefined = super::c12::redefined_symbol_cases();
    ctx.enumerate(
        "redefined-symbol-values",
        redefined.len() as u64,
        true,
        |i, acc| {
            let (earlier, case) = &redefined[i as usize];
            acc.cell(&format!("redefined-symbols:way{}", earlier[0].0), true);
            if i % 61 == 0 {
                acc.sample("redefined-symbols", || format!("earlier s = {}, then {}", show_value(&earlier[0].2), case.render()).chars().take(300).collect());
            }
            super::c12::check_redefined(earlier, case).map_err(|i| Issue::new(i.sig.replace("history:", "names:"), i.msg))
        },
        |i| serde_json::json!({"redefined_symbols": i}),
        "redefined-symbols",
    );

    ctx.enumerate(
        "metadata-called-name",
        14,
        true,
        |i, acc| {
            acc.cell("name-metadata", true);
            acc.sample("name-metadata", || "Rule::new(\"a\", {name: \"b\"}, ..) then Rule::new(\"b\", {}, ..) and similar sequences".to_string());
            check_name_metadata(i as usize)
        },
        |i| serde_json::json!({"name_metadata": i}),
        "name-metadata",
    );

    ctx.enumerate(
        "long-histories",
        long.len() as u64,
        true,
        |i, acc| {
            acc.cell("hist:long", true);
            if i % 97 == 0 {
                acc.sample("hist:long", || format!("{} calls, last two: {:?}", long[i as usize].len(), &long[i as usize][long[i as usize].len() - 2..]));
            }
            check_history(&long[i as usize])
        },
        |i| ops_to_json(&long[i as usize]),
        "history",
    );

    let nh = ctx.tier.pick(700_000u64, 7_000_000u64);
    ctx.random(
        "builder-histories",
        nh,
        || gen::recipe(120),
        |bytes, acc| {
            let ops = gen_history(bytes);
            if let Some(acc) = acc {
                // classify with the model alone
                let mut m = Model::default();
                let mut refused_then_accepted = false;
                let mut refused = false;
                for (i, op) in ops.iter().enumerate() {
                    match predict(&m, op, i as i128 + 1) {
                        Predict::Accept(n) => {
                            m = n;
                            if refused {
                                refused_then_accepted = true;
                            }
                        }
                        Predict::Refuse(_) => refused = true,
                        Predict::Unknown => {}
                    }
                }
                let class = if refused_then_accepted { "hist:refusal-then-accept" } else if refused { "hist:refusal" } else { "hist:all-accepted" };
                acc.case(class, refused_then_accepted, || format!("{ops:?}"));
            }
            check_history(&ops)
        },
        |bytes| ops_to_json(&gen_history(bytes)),
        "history",
    );
}

/// Rules built in code whose *metadata* has entries called `name` / `description` / like another rule: a rule's name is
/// the one it was constructed with; metadata never takes part in the duplicate check nor in what outcomes report.
fn check_name_metadata(k: usize) -> Verdict {
    let meta = |pairs: &[(&str, Value)]| pairs.iter().map(|(k, v)| (k.to_string(), v.clone())).collect::<BTreeMap<String, Value>>();
    let st = |s: &str| Value::String(s.to_string());
    // (constructed name, metadata) in the order they are added; expected: accepted iff the constructed name is new
    let seqs: Vec<Vec<(&str, BTreeMap<String, Value>)>> = vec![
        vec![("a", meta(&[("name", st("b"))])), ("b", meta(&[]))],
        vec![("b", meta(&[])), ("a", meta(&[("name", st("b"))]))],
        vec![("r1", meta(&[("name", st("x"))])), ("r1", meta(&[("name", st("y"))]))],
        vec![("r1", meta(&[("name", st("x"))])), ("r2", meta(&[("name", st("x"))]))],
        vec![("a", meta(&[("name", Value::Int(1)), ("description", st("a"))])), ("1", meta(&[("name", st("a"))])), ("a", meta(&[]))],
        vec![("", meta(&[("name", st(""))])), ("", meta(&[]))],
        vec![("a", meta(&[("Name", st("b")), ("rule", st("b")), ("id", st("b"))])), ("b", meta(&[("name", st("a"))])), ("c", meta(&[("name", st("c"))]))],
    ];
    let seq = &seqs[k % seqs.len()];
    let batch = k / seqs.len() == 1;
    let fail = |what: String| Err(Issue::new("names:name-metadata", format!("rules {:?} added {}: {what}", seq.iter().map(|(n, m)| format!("Rule::new({n:?}, {m:?})")).collect::<Vec<_>>(), if batch { "through with_rules" } else { "one by one" })));
    let mk = |n: &str, m: &BTreeMap<String, Value>| Rule::new(n, m.clone(), Expr::value(n.to_string()));
    for (n, m) in seq {
        let r = mk(n, m);
        if r.name() != *n {
            return fail(format!("Rule::new({n:?}, ..).name() is {:?}", r.name()));
        }
    }
    let mut seen: Vec<&str> = vec![];
    let mut accepted: Vec<&str> = vec![];
    let built = if batch {
        let expect_ok = seq.iter().enumerate().all(|(i, (n, _))| !seq[..i].iter().any(|(p, _)| p == n));
        match catch(|| ruleset().with_rules(seq.iter().map(|(n, m)| mk(n, m)).collect::<Vec<_>>())) {
            Err(p) => return fail(format!("with_rules panicked: {p}")),
            Ok(Ok(b)) if expect_ok => {
                accepted = seq.iter().map(|(n, _)| *n).collect();
                b.build()
            }
            Ok(Err(_)) if !expect_ok => return Ok(()),
            Ok(other) => return fail(format!("with_rules {} although the constructed names are {}", if other.is_ok() { "accepted them" } else { "refused them" }, if expect_ok { "distinct" } else { "not distinct" })),
        }
    } else {
        let mut b = ruleset();
        for (n, m) in seq {
            let dup = seen.contains(n);
            match catch(move || b.with_rule(mk(n, m))) {
                Err(p) => return fail(format!("with_rule panicked: {p}")),
                Ok(Ok(nb)) if !dup => {
                    b = nb;
                    accepted.push(n);
                }
                Ok(Err(e)) if dup => {
                    // a refused rule consumes the builder: start again with what was accepted
                    let _ = e;
                    b = ruleset();
                    for a in &accepted {
                        let (an, am) = seq.iter().find(|(x, _)| x == a).expect("accepted before");
                        b = b.with_rule(mk(an, am)).expect("accepted before");
                    }
                }
                Ok(other) => return fail(format!("the rule constructed as {n:?} was {} although {}", if other.is_ok() { "accepted" } else { "refused" }, if dup { "a rule of that name was added before" } else { "no rule of that name was added before" })),
            }
            seen.push(n);
        }
        b.build()
    };
    let out = catch(|| block_on(built.evaluate_value(&Value::None)).expect("evaluate_value").into_iter().map(|o| (o.rule.name().to_string(), o.value)).collect::<Vec<_>>())
        .map_err(|p| Issue::new("names:name-metadata", format!("evaluate_value panicked: {p}")))?;
    let names: Vec<String> = out.iter().map(|(n, _)| n.clone()).collect();
    let values_ok = out.iter().zip(&accepted).all(|((_, v), a)| matches!(v, Ok(Value::String(s)) if s == a));
    if names != accepted.iter().map(|s| s.to_string()).collect::<Vec<_>>() || !values_ok {
        return fail(format!("the outcomes are reported for {names:?} with values {:?}, the accepted rules are {accepted:?}", out.iter().map(|(_, v)| v.as_ref().map(show_value).map_err(|e| e.to_string())).collect::<Vec<_>>()));
    }
    Ok(())
}

pub fn replay(j: &serde_json::Value) -> Option<Verdict> {
    if let Some(k) = j.get("name_metadata").and_then(|k| k.as_u64()) {
        return Some(check_name_metadata(k as usize));
    }
    if let Some(i) = j.get("redefined_symbols").and_then(|i| i.as_u64()) {
        return super::c12::redefined_symbol_cases().get(i as usize).map(|(e, c)| super::c12::check_redefined(e, c).map_err(|i| Issue::new(i.sig.replace("history:", "names:"), i.msg)));
    }
    ops_from_json(j).map(|ops| check_history(&ops))
}

/// Entry point of the `set_diff` fuzz target.
pub(crate) fn fuzz_bytes(bytes: &[u8]) -> Verdict {
    check_history(&gen_history(bytes))
}
