//! C06 — parsing any text returns a tree or a parse error, never a panic.

use crate::core::*;
use crate::core::QUIET_ALL;
use crate::gen::{self, Dec};
use crate::model::lex::{self, Tok};
use crate::model::parse::{parse_expr, PErr};
use crate::model::print::{self, Mode};
use reval::prelude::*;
use serde_json::json;

pub fn check_text(text: &str) -> Verdict {
    check_text_opt(text, true)
}

pub fn check_text_opt(text: &str, with_rule: bool) -> Verdict {
    let loc = |p: &str| p.rsplit(" @ ").next().unwrap_or("?").to_string();
    let r1 = match catch(|| Expr::parse(text)) {
        Ok(r) => r,
        Err(p) => {
            return Err(Issue::new(
                format!("parse:panic:expr:{}", loc(&p)),
                format!("Expr::parse panicked ({p}) on {text:?}"),
            ))
        }
    };
    if with_rule {
    if let Err(p) = catch(|| Rule::parse(text)) {
        return Err(Issue::new(format!("parse:panic:rule:{}", loc(&p)), format!("Rule::parse panicked ({p}) on {text:?}")));
    }
    let named = format!("// n\n@k: [i1];\n{text}");
    if let Err(p) = catch(|| Rule::parse(&named)) {
        return Err(Issue::new(
            format!("parse:panic:rule:{}", loc(&p)),
            format!("Rule::parse panicked ({p}) on {named:?}"),
        ));
    }
    }
    if let Err(PErr::Literal(_)) = parse_expr(text) {
        if let Ok(e) = r1 {
            return Err(Issue::new(
                "parse:accepts-bad-literal",
                format!(
                    "{text:?} contains a literal that denotes no value (out of range / bad escape) but parses to {}",
                    crate::data::show_expr(&e)
                ),
            ));
        }
    }
    Ok(())
}

/// the full token alphabet: every fixed spelling plus representatives (good and bad) of every pattern class
pub fn full_alphabet() -> Vec<String> {
    let mut v: Vec<String> = lex::fixed_spellings().iter().map(|s| s.to_string()).collect();
    for s in [
        "\"s\"",
        "\"\\q\"",
        "\"\\u{110000}\"",
        "i1",
        "i-170141183460469231731687303715884105729",
        "0xff",
        "0x80000000000000000000000000000000",
        "0o17",
        "0o8",
        "0b101",
        "f1.5e3",
        "f1e999",
        "d1.50",
        "d79228162514264337593543950336",
        "a",
        "0",
        "99999999999999999999999",
    ] {
        v.push(s.to_string());
    }
    v
}

fn rdigits(d: &mut Dec, max: usize) -> String {
    let n = 1 + d.below(max);
    digits(d, n)
}

fn digits(d: &mut Dec, n: usize) -> String {
    (0..n).map(|i| if i == 0 { (b'1' + d.below(9) as u8) as char } else { (b'0' + d.below(10) as u8) as char }).collect()
}

/// numerals of 1–60 digits in every numeric position
fn numeral_text(d: &mut Dec) -> String {
    let n = 1 + d.below(60);
    let sign = *d.pick(&["", "-", "+"]);
    let body = match d.below(6) {
        0 => digits(d, n),
        1 => "9".repeat(n),
        2 => format!("{}{}", "0".repeat(d.below(40)), digits(d, n)),
        3 => "170141183460469231731687303715884105727".to_string(),
        4 => "170141183460469231731687303715884105728".to_string(),
        _ => "79228162514264337593543950335".to_string(),
    };
    let lit = match d.below(12) {
        0 => format!("i{sign}{body}"),
        1 => format!("0x{}", if d.bool() { "f".repeat(n) } else { body.clone() }),
        2 => format!("0o{}", if d.bool() { "7".repeat(n) } else { body.clone() }),
        3 => format!("0b{}", "1".repeat(n * 3)),
        4 => format!("d{sign}{body}"),
        5 => format!("d{sign}{body}.{}", rdigits(d, 40)),
        6 => format!("d{sign}.{}", rdigits(d, 60)),
        7 => format!("f{sign}{body}"),
        8 => {
            let m = rdigits(d, 5);
            let es = *d.pick(&["", "-", "+"]);
            let ex = rdigits(d, 8);
            format!("f{sign}{m}e{es}{ex}")
        }
        9 => format!("a.{body}"),
        10 => format!("[i1, i2].{body}.{}", rdigits(d, 30)),
        _ => {
            let fr = rdigits(d, 400);
            let ex = rdigits(d, 4);
            format!("f{sign}{body}.{fr}e{ex}")
        }
    };
    match d.below(5) {
        0 => lit,
        1 => format!("{lit} + {lit}"),
        2 => format!("[{lit}, {{k: {lit}}}]"),
        3 => format!("if {lit} == i1 then {lit} else f({lit})"),
        _ => format!("-{lit}"),
    }
}

fn escape_text(d: &mut Dec) -> String {
    let mut s = String::from("\"");
    let n = 1 + d.below(5);
    for _ in 0..n {
        match d.below(10) {
            0 => {
                // every \c for c in ASCII
                s.push('\\');
                s.push((d.below(127 - 32) as u8 + 32) as char);
            }
            1 | 2 => {
                let nh = d.below(11);
                s.push_str("\\u{");
                for _ in 0..nh {
                    s.push(*d.pick(&['0', '1', '9', 'a', 'F', 'd', 'D', '8']));
                }
                if d.below(8) != 0 {
                    s.push('}');
                }
            }
            3 => s.push_str(*d.pick(&["\\u{d800}", "\\u{DFFF}", "\\u{110000}", "\\u{10FFFF}", "\\u{ffffffff}", "\\u{100000000}", "\\u{}", "\\u", "\\u{+41}", "\\u{ 41}", "\\u{g}"])),
            4 => s.push('\\'),
            // a backslash before a character of two, three or four bytes
            7 => {
                s.push('\\');
                s.push(*d.pick(&['é', 'Ü', '語', '😀', '\u{a0}', '\u{301}', 'ß']));
            }
            5 => s.push_str("\\\n"),
            6 => s.push(*d.pick(&['\u{0}', '\u{7f}', '\u{85}', '\u{2028}', '\u{feff}', '😀', '\r', '\n'])),
            _ => s.push((b'a' + d.below(26) as u8) as char),
        }
    }
    if d.below(10) != 0 {
        s.push('"');
    }
    match d.below(3) {
        0 => s,
        1 => format!("{s} == {s}"),
        _ => format!("f([{s}])"),
    }
}

fn unicode_text(d: &mut Dec) -> String {
    let n = d.below(12);
    (0..n)
        .map(|_| match d.below(6) {
            0 => char::from_u32(d.below(128) as u32).unwrap(),
            1 => char::from_u32((d.u64() % 0x11_0000) as u32).unwrap_or('\u{fffd}'),
            2 => *d.pick(&['"', '\\', '/', '\n', '\r', '\u{a0}', '\u{200b}', '\u{85}', '@', ';', '#', '$', '~', '`', '\'', '?']),
            3 => *d.pick(&['(', ')', '[', ']', '{', '}', ',', ':', '.', '!', '-']),
            4 => *d.pick(&['i', 'f', 'd', '0', '1', 'x', 'o', 'b', 'e', '_']),
            _ => *d.pick(&[' ', 'a', 'Z', 'é', 'ß', '中']),
        })
        .collect()
}

/// print_rand of a random image tree, then 1–3 mutations at token or character level
fn mutated_text(d: &mut Dec) -> (String, bool) {
    let depth = 1 + d.below(5) as u32;
    let e = gen::gen_image(d, depth);
    let toks = print::tokens(&e, Mode::Rand, Some(d)).unwrap_or_else(|| vec![Tok::Fix("none")]);
    let mut words: Vec<String> = toks.iter().map(|t| t.text().to_string()).collect();
    let nm = d.below(4);
    let alpha = full_alphabet();
    for _ in 0..nm {
        if words.is_empty() {
            break;
        }
        let i = d.below(words.len().min(65536));
        match d.below(5) {
            0 => {
                words.remove(i);
            }
            1 => {
                let w = words[i].clone();
                words.insert(i, w);
            }
            2 => words[i] = d.pick(&alpha).clone(),
            3 => words.truncate(i),
            _ => {
                let j = d.below(words.len().min(65536));
                words.swap(i, j);
            }
        }
    }
    let mut text = words.join(if d.below(4) == 0 { "" } else { " " });
    let nc = d.below(3);
    for _ in 0..nc {
        let cs: Vec<char> = text.chars().collect();
        if cs.is_empty() {
            break;
        }
        let i = d.below(cs.len().min(65536));
        let mut cs = cs;
        match d.below(3) {
            0 => {
                cs.remove(i);
            }
            1 => {
                let c = cs[i];
                cs.insert(i, c);
            }
            _ => cs[i] = *d.pick(&['"', '\\', '(', ')', '.', '9', 'e', ' ', '\n', '/', '@', ';', '\u{a0}']),
        }
        text = cs.into_iter().collect();
    }
    (text, nm + nc > 0)
}

/// long tokens (strings, identifiers, numerals) with multi-byte characters at arbitrary byte offsets, in legal and in
/// illegal positions (error messages that quote or shorten the offending token must stay on character boundaries)
fn long_token_text(d: &mut Dec) -> String {
    let n = 1 + d.below(90);
    let body: String = (0..n)
        .map(|_| match d.below(6) {
            0 => *d.pick(&['é', 'ß', '€', '中', '😀', '\u{a0}', '\u{301}']),
            _ => (b'a' + d.below(26) as u8) as char,
        })
        .collect();
    let tok = match d.below(5) {
        0 | 1 => format!("\"{body}\""),
        2 => format!("a{}", body.chars().filter(|c| c.is_ascii()).collect::<String>()),
        3 => format!("i{}", "7".repeat(n)),
        _ => format!("\"{body}"),
    };
    match d.below(8) {
        0 => tok,
        1 => format!("i1 {tok}"),
        2 => format!("{tok} {tok}"),
        3 => format!("[i1 {tok}]"),
        4 => format!("a.{tok}"),
        5 => format!("if {tok} then"),
        6 => format!("@{tok}: i1; i2"),
        _ => format!("{tok} contains contains {tok}"),
    }
}

/// `@key: <unary prefixes><boundary literal>;` in every metadata position (top level, list, map, @name)
fn metadata_value_text(d: &mut Dec) -> String {
    let lit = *d.pick(&[
        "i-170141183460469231731687303715884105728",
        "i170141183460469231731687303715884105727",
        "d79228162514264337593543950335",
        "d-79228162514264337593543950335",
        "f1e999",
        "f-0",
        "i0",
        "\"s\"",
        "none",
        "true",
    ]);
    let pre = *d.pick(&["", "-", "--", "- -", "!", "-!", "!-", "- - -"]);
    let v = format!("{pre}{lit}");
    let key = *d.pick(&["k", "name", "description", "priority"]);
    let item = match d.below(4) {
        0 => format!("@{key}: {v};"),
        1 => format!("@{key}: [{v}, i1];"),
        2 => format!("@{key}: {{a: {v}}};"),
        _ => format!("@{key}: [[{{a: [{v}]}}]];"),
    };
    let nl = *d.pick(&["\n", "\r\n", " "]);
    format!("// n{nl}{item}{nl}{v}")
}

/// several CR LF terminated lines with non-ASCII text, then a syntax error (error positions are computed from the text)
fn crlf_error_text(d: &mut Dec) -> String {
    let nlines = 1 + d.below(6);
    let nl = *d.pick(&["\r\n", "\r\n", "\n", "\r"]);
    let mut t = String::new();
    for _ in 0..nlines {
        let words = 1 + d.below(4);
        t.push_str("//");
        for _ in 0..words {
            t.push(' ');
            t.push_str(*d.pick(&["rule", "café", "ünï", "€", "日本語", "x", "naïve", "😀"]));
        }
        t.push_str(nl);
    }
    t.push_str(*d.pick(&["amount >* i10", "a + ", "i1 i2", "[a,, b]", "if a then", "a . . b", "\"é\" \"é\"", "a é b", "a + b"]));
    t
}

/// comment lines indented before and after the `//` marker with ASCII and multi-byte white space, then an expression
fn comment_block_text(d: &mut Dec) -> String {
    let nlines = 1 + d.below(6);
    let mut t = String::new();
    for i in 0..nlines {
        t.push_str(*d.pick(&["", "", " ", "\t", "\u{a0}", "   "]));
        t.push_str("//");
        t.push_str(*d.pick(&["", " ", "  ", "\t", "\u{a0}", "\u{3000}", "\u{2003} ", " \u{2028}", "\u{85}", "\u{a0}\u{a0} ", " \u{3000}", "/"]));
        t.push_str(*d.pick(&["line", "", "é", "@name: \"x\";", "😀 tail  "]));
        t.push_str(&i.to_string());
        t.push_str(*d.pick(&["\n", "\n", "\r\n", "\r"]));
    }
    t.push_str(*d.pick(&["a + b", "i1", "@k: i1; a", "a +", "\"s\"", ""]));
    t
}

// ---- parsing while the thread is exiting ------------------------------------------------------------------------

struct ExitParser {
    tx: std::cell::RefCell<Option<std::sync::mpsc::Sender<(String, &'static str)>>>,
}

const EXIT_TEXTS: [&str; 8] = ["a + b", "i1", "a +", "// n\na", "\"x\\q\"", "@k: i1; a", "i999999999999999999999999999999999999999999", ""];

impl Drop for ExitParser {
    fn drop(&mut self) {
        if let Some(tx) = self.tx.borrow_mut().take() {
            for text in EXIT_TEXTS {
                if std::panic::catch_unwind(|| std::mem::forget(Expr::parse(text))).is_err() {
                    let _ = tx.send((text.to_string(), "Expr::parse"));
                }
                if std::panic::catch_unwind(|| std::mem::forget(Rule::parse(text))).is_err() {
                    let _ = tx.send((text.to_string(), "Rule::parse"));
                }
            }
        }
    }
}

thread_local! {
    static EXIT_PARSER: ExitParser = const { ExitParser { tx: std::cell::RefCell::new(None) } };
}

/// A thread whose thread-local destructor parses while the thread exits (the last parses of a thread's life).
/// `parsed_before`: the thread parsed something earlier; `guard_first`: the destructor was registered before that parse.
fn check_parse_at_thread_exit(parsed_before: bool, guard_first: bool) -> Verdict {
    let (tx, rx) = std::sync::mpsc::channel();
    QUIET_ALL.fetch_add(1, std::sync::atomic::Ordering::SeqCst);
    let joined = std::thread::spawn(move || {
        if guard_first {
            EXIT_PARSER.with(|e| *e.tx.borrow_mut() = Some(tx.clone()));
        }
        if parsed_before {
            let _ = Expr::parse("a + i1");
            let _ = Rule::parse("// n\na");
        }
        if !guard_first {
            EXIT_PARSER.with(|e| *e.tx.borrow_mut() = Some(tx.clone()));
        }
    })
    .join();
    QUIET_ALL.fetch_sub(1, std::sync::atomic::Ordering::SeqCst);
    let panicked: Vec<(String, &'static str)> = rx.try_iter().collect();
    if joined.is_err() {
        return Err(Issue::new("parse:panic:at-thread-exit", "the exiting thread panicked outside the boundary"));
    }
    match panicked.first() {
        None => Ok(()),
        Some((text, which)) => Err(Issue::new(
            "parse:panic:at-thread-exit",
            format!(
                "{which} panicked on {text:?} ({} of {} parses panicked) when called from a thread-local destructor while the thread exits (thread parsed before: {parsed_before}, destructor registered first: {guard_first})",
                panicked.len(),
                EXIT_TEXTS.len() * 2
            ),
        )),
    }
}

// ---- very large flat texts, each parsed in a child process -----------------------------------------------------------

const FLAT: [&str; 9] = [
    "flat-error-line", "flat-string-error", "flat-crlf-comments-error", "flat-list", "flat-list-error", "flat-unicode-escapes",
    "flat-bad-escape-at-end", "flat-map", "escapes",
];
const FLAT_SIZES: [usize; 6] = [1_000, 4_000, 16_500, 66_000, 140_000, 300_000];

const FLAT_CASES: u64 = 9 * 6 * 4 * 2;

/// (construct, size, parse as rule, small stack, child built with the dev profile)
fn flat_case(i: u64) -> (&'static str, usize, bool, bool, bool) {
    let c = FLAT[(i % 9) as usize];
    let r = i / 9;
    let size = FLAT_SIZES[(r % 6) as usize];
    let r = r / 6;
    (c, size, r & 1 == 1, r & 2 == 2, r & 4 == 4)
}

fn check_flat(i: u64) -> Verdict {
    use super::c19::{deep_bin_dev, run_child, run_child_bin, ChildResult};
    let (c, size, as_rule, small, dev) = flat_case(i);
    let op = if as_rule { "parse-rule" } else { "parse" };
    let stack = if small { 2usize << 20 } else { 8 << 20 };
    let outcome = if dev {
        match deep_bin_dev() {
            Some(bin) => run_child_bin(&bin, c, size, op, stack),
            // (not built: ./check builds it for C06; a bare `rvv C06 quick` without it explores the release profile only)
            None => return Ok(()),
        }
    } else {
        run_child(c, size, op, stack)
    };
    let profile = if dev { ":dev-profile" } else { "" };
    match outcome {
        ChildResult::Completed | ChildResult::SetupRefused => Ok(()),
        ChildResult::Panicked => Err(Issue::new(
            format!("parse:panic:large-input:{c}{profile}"),
            format!("{op} of the `{c}` text of size {size} (thread stack {} MiB{}) panicked in a child process", stack >> 20, if dev { ", dev profile" } else { "" }),
        )),
        ChildResult::Crashed(sig) => Err(Issue::new(
            format!("parse:abort:large-input:{c}:{}{profile}", if small { "worker2M" } else { "main8M" }),
            format!("size={size} {op} of the flat (not nested) `{c}` text of size {size} (thread stack {} MiB{}) killed the child process with signal {sig}: neither a tree nor a parse error", stack >> 20, if dev { ", dev profile" } else { "" }),
        )),
        // watchdog / spawn problems are not verdicts
        ChildResult::Watchdog | ChildResult::Other(_) => Ok(()),
    }
}

fn rule_wrap(d: &mut Dec, text: String) -> String {
    match d.below(6) {
        0 => format!("// name\n{text}"),
        1 => format!("@name: \"n\";\n@k: {text};\n{text}"),
        2 => format!("// a\n  // b\r\n@x: [{text}]; @y: {{k: {text}}};\n{text} // trailing"),
        3 => format!("@name: {text}; {text}"),
        4 => format!("{text}\n//\n//"),
        _ => text,
    }
}

pub fn random_text(bytes: &[u8]) -> (String, &'static str, bool) {
    let mut d = Dec::new(bytes);
    let (t, class, nt) = match d.below(12) {
        11 => (comment_block_text(&mut d), "comment-block", true),
        8 => (long_token_text(&mut d), "long-token", true),
        9 => (metadata_value_text(&mut d), "metadata-value", true),
        10 => (crlf_error_text(&mut d), "crlf-error", true),
        0 | 1 => {
            let (t, m) = mutated_text(&mut d);
            (t, "mutated", m)
        }
        2 | 3 => (numeral_text(&mut d), "numeral", true),
        4 | 5 => (escape_text(&mut d), "escape", true),
        6 => (unicode_text(&mut d), "unicode", true),
        _ => {
            let (a, _) = mutated_text(&mut d);
            let b = numeral_text(&mut d);
            let cut = d.below(a.chars().count().max(1).min(65536));
            let head: String = a.chars().take(cut).collect();
            (format!("{head}{b}"), "splice", true)
        }
    };
    let t = if d.below(3) == 0 { rule_wrap(&mut d, t) } else { t };
    (t, class, nt)
}

pub fn run(ctx: &Ctx) {
    ctx.set_rule(
        "Generated texts, each given to Expr::parse, Rule::parse and Rule::parse of the text behind a comment+metadata prefix, under a \
         panic-catching boundary: (a) every token sequence up to length 3 (thorough: plus a strided sample of length 4) over the FULL \
         token alphabet (all 61 fixed spellings + good and bad representatives of every pattern class), joined with and without \
         spaces; (b) random-parenthesised renderings of random parser-image trees with 1-3 token/character mutations (delete, \
         duplicate, replace, truncate, swap); (c) numerals of 1-60 digits (and the exact 128-bit / 96-bit limits +-1) in every numeric \
         position: i, 0x, 0o, 0b, d (with/without point, > 28 fraction digits), f with huge exponents / 400 fraction digits, list \
         indices; (d) every escape form: \\c for all ASCII c, \\u{..} with 0-10 hex digits, surrogates, > 0x10FFFF, unterminated, \
         trailing backslash, backslash-newline; (e) strings of arbitrary Unicode scalars incl. control characters; (f) the above \
         wrapped as rule texts; (g) blocks of comment lines indented before / after the marker with ASCII and multi-byte white space; (h) parses issued from a thread-local destructor while the thread exits; (i) flat texts of 4 kB - 2 MB (one long line ending in a syntax error, a long string literal, thousands of escapes, CR LF comment blocks, long lists / maps), each parsed in a child process on 8 MiB and 2 MiB stacks, by a release build and by a dev-profile build of the child (no optimisation: every self-call is a real call): the child must exit normally. Oracle: Ok or Err, never a panic; a literal the reference conversion routines classify as denoting no \
         value must be rejected. Non-trivial: the text contains an out-of-range numeral, an escape, a non-ASCII/control character or \
         was mutated from a valid text.",
    );

    super::regressions::run(ctx, "C06", replay);

    // every keyword and every reserved word in every position a word can take (most are syntax errors; none may panic)
    let mut words: Vec<String> = lex::KEYWORDS.iter().map(|w| w.to_string()).collect();
    words.extend(["key", "val", "starts", "ends", "true", "false", "facts", "a", "i1", "f1", "d1", "inf", "NaN", "_", "é"].iter().map(|w| w.to_string()));
    words.sort();
    words.dedup();
    let frames: [&str; 12] = ["{w}", "{w}(i1)", "{w} (x.y)", "x.{w}", ":{w}", ":{w}.{w}", "{{{w}: i1}}", "[{w}, {w}]", "@{w}: i1; a", "@k: {w}; a", "{w}.{w}({w})", "if {w} then {w} else {w}"];
    let nw = words.len() as u64;
    ctx.enumerate(
        "words-in-every-position",
        nw * frames.len() as u64,
        true,
        |i, acc| {
            let text = frames[(i / nw) as usize].replace("{w}", &words[(i % nw) as usize]).replace("{{", "{").replace("}}", "}");
            acc.cell("word-position", true);
            if i % 53 == 0 {
                acc.sample("word-position", || text.clone());
            }
            check_text(&text)?;
            check_text(&format!("// n\n{text}"))
        },
        |i| json!({"text": frames[(i / nw) as usize].replace("{w}", &words[(i % nw) as usize]).replace("{{", "{").replace("}}", "}")}),
        "text",
    );

    // texts of 4 kB to 2 MB that are long rather than deep, each in a child process (an abort cannot be caught in-process)
    ctx.enumerate(
        "large-flat-texts",
        FLAT_CASES,
        true,
        |i, acc| {
            let (c, size, _, _, _) = flat_case(i);
            acc.cell(&format!("flat:{c}"), size >= 16_500);
            if i % 31 == 0 {
                acc.sample("flat", || format!("{:?}", flat_case(i)));
            }
            // a listed known finding records the largest size that is safe (`safe<=N`): a crash at or below it is a new violation
            check_flat(i).map_err(|issue| {
                let safe = ctx
                    .known
                    .lookup("C06", &issue.sig)
                    .and_then(|(_, _, text)| text.split_whitespace().find_map(|w| w.strip_prefix("safe<=").and_then(|x| x.parse::<usize>().ok())));
                match safe {
                    Some(n) if flat_case(i).1 <= n => Issue::new(format!("{}:at-or-below-recorded-safe-size", issue.sig), format!("{} (recorded safe size of the known finding: {n})", issue.msg)),
                    _ => issue,
                }
            })
        },
        |i| json!({"flat_case": i, "debug": format!("{:?}", flat_case(i))}),
        "flat",
    );

    // the very last parses of a thread's life: from a thread-local destructor, with and without earlier parses on that thread
    ctx.enumerate(
        "parse-at-thread-exit",
        4 * 8,
        true,
        |i, acc| {
            acc.cell("thread-exit", true);
            if i < 4 {
                acc.sample("thread-exit", || format!("parsed before: {}, destructor registered first: {}", i & 1 == 1, i & 2 == 2));
            }
            check_parse_at_thread_exit(i & 1 == 1, i & 2 == 2)
        },
        |i| json!({"thread_exit": [i & 1 == 1, i & 2 == 2]}),
        "thread-exit",
    );

    let alpha = full_alphabet();
    let n = alpha.len() as u64;
    ctx.extra("full_alphabet_size", json!(n));
    let max_len = 3u32;
    let total: u64 = (1..=max_len).map(|l| n.pow(l)).sum();
    let seq = |mut i: u64| -> Vec<&String> {
        let mut len = 1;
        let mut block = n;
        while len < max_len && i >= block {
            i -= block;
            block *= n;
            len += 1;
        }
        let mut out = vec![&alpha[0]; len as usize];
        for k in (0..len as usize).rev() {
            out[k] = &alpha[(i % n) as usize];
            i /= n;
        }
        out
    };
    let text_of = |i: u64| -> String {
        let s = seq(i);
        // odd indices glued without spaces (exercises maximal munch), even with spaces
        let sep = if i % 2 == 1 { "" } else { " " };
        s.iter().map(|x| x.as_str()).collect::<Vec<_>>().join(sep)
    };
    ctx.enumerate(
        "full-alphabet-sequences",
        total,
        true,
        |i, acc| {
            let t = text_of(i);
            let bad_literal = matches!(parse_expr(&t), Err(PErr::Literal(_)));
            acc.cell(if bad_literal { "seq:bad-literal" } else { "seq" }, bad_literal || !t.is_ascii());
            if bad_literal && i % 313 == 0 {
                acc.sample("seq:bad-literal", || t.clone());
            }
            // every sequence through Expr::parse; every third also through Rule::parse (plain and prefixed)
            check_text_opt(&t, i % 3 == 0)
        },
        |i| json!({"text": text_of(i)}),
        "text",
    );
    if ctx.tier == Tier::Thorough {
        let total4 = n.pow(4);
        let stride = 23u64;
        ctx.enumerate(
            "full-alphabet-len4-sample",
            total4 / stride,
            false,
            |i, acc| {
                let idx = i * stride + ctx.seed % stride;
                let mut x = idx;
                let mut parts = vec![];
                for _ in 0..4 {
                    parts.push(alpha[(x % n) as usize].as_str());
                    x /= n;
                }
                let t = parts.join(" ");
                acc.cell("seq4", false);
                check_text(&t)
            },
            |i| {
                let idx = i * stride + ctx.seed % stride;
                let mut x = idx;
                let mut parts = vec![];
                for _ in 0..4 {
                    parts.push(alpha[(x % n) as usize].as_str());
                    x /= n;
                }
                json!({"text": parts.join(" ")})
            },
            "text",
        );
    }

    let nrand = ctx.tier.pick(120_000u64, 2_000_000u64);
    ctx.random(
        "generated-texts",
        nrand,
        || gen::recipe(300),
        |bytes, acc| {
            let (t, class, nt) = random_text(bytes);
            if let Some(acc) = acc {
                let verdict = match parse_expr(&t) {
                    Ok(_) => "ref-accepts",
                    Err(PErr::Literal(_)) => "ref-bad-literal",
                    Err(PErr::Lex) => "ref-lex-error",
                    Err(PErr::Unspecified) => "ref-unspecified",
                    Err(PErr::Syntax(_)) => "ref-syntax-error",
                };
                acc.case(&format!("{class}:{verdict}"), nt, || t.clone());
            }
            check_text(&t)
        },
        |bytes| json!({"text": random_text(bytes).0}),
        "text",
    );
}

pub fn replay(j: &serde_json::Value) -> Option<Verdict> {
    if let Some(i) = j.get("flat_case").and_then(|x| x.as_u64()) {
        return (i < FLAT_CASES).then(|| check_flat(i));
    }
    if let Some(a) = j.get("thread_exit").and_then(|a| a.as_array()) {
        return Some(check_parse_at_thread_exit(a.first()?.as_bool()?, a.get(1)?.as_bool()?));
    }
    j.get("text").and_then(|t| t.as_str()).map(check_text)
}
