//! C09 — a ruleset yields one outcome per rule, in order, each isolated from the others.

use super::setcommon::*;
use crate::core::*;
use crate::data::*;
use crate::gen::{self, Dec};
use crate::model::eval::{self as me, compare_with};
use crate::probe::{self, SetSpec};
use crate::sval::{self, Image, SVal};
use reval::expr::Index;
use reval::prelude::*;
use serde_json::json;
use std::collections::BTreeMap;

/// run `evaluate_value` and detach the outcomes from the ruleset borrow
fn run_value(built: &probe::Built, facts: &Value) -> Result<Vec<(Rule, Result<Value, reval::Error>)>, String> {
    catch(|| {
        let out = block_on(built.ruleset.evaluate_value(facts)).expect("evaluate_value itself never fails");
        out.into_iter().map(|o| (o.rule.clone(), o.value)).collect::<Vec<_>>()
    })
}

pub fn check(case: &SetCase) -> Verdict {
    let spec = &case.spec;
    let built = probe::build(spec, false);
    let mut counts = BTreeMap::new();
    for facts in &case.inputs {
        let (model, _) = model_evaluation(spec, facts, &mut counts);
        let alone = model_alone(spec, facts);
        let out = match run_value(&built, facts) {
            Ok(o) => o,
            Err(p) => return Err(Issue::new("ruleset:panic", format!("evaluate_value panicked: {p}; {}", case.render()))),
        };
        if out.len() != spec.rules.len() {
            return Err(Issue::new(
                "ruleset:outcome-count",
                format!("{} outcomes for {} rules; {}", out.len(), spec.rules.len(), case.render()),
            ));
        }
        for (i, ((rule, value), (name, expr))) in out.iter().zip(spec.rules.iter()).enumerate() {
            // (NaN literals make Rule's derived PartialEq irreflexive: compare structurally)
            if rule.name() != name || !same_expr(rule.expr(), expr) || rule.iter_metadata().next().is_some() {
                return Err(Issue::new(
                    "ruleset:outcome-rule",
                    format!("outcome {i} carries rule {:?} but rule {i} is {name:?}; {}", rule.name(), case.render()),
                ));
            }
            // same result as the rule on its own (only asserted where the model itself is order-independent)
            if me::show_model(&model[i]) == me::show_model(&alone[i]) {
                // values echoed by user functions are compared exactly (decimal scale included), computed ones by value
                fn has_call(e: &Expr) -> bool {
                    matches!(e, Expr::Function(..)) || children(e).iter().any(|c| has_call(c))
                }
                if let Some(d) = compare_with(value, &model[i], has_call(expr)) {
                    return Err(Issue::new(
                        format!("ruleset:outcome-value:{d:?}"),
                        format!(
                            "outcome {i} ({name}) is {} but the rule on its own gives {}; {}",
                            me::show_actual(value),
                            me::show_model(&model[i]),
                            case.render()
                        ),
                    ));
                }
            }
        }
    }
    Ok(())
}

/// `evaluate(&T)` ≡ `evaluate_value(&serialize(T))`, failing as a whole iff serialization fails
pub fn check_serializable(spec: &SetSpec, t: &SVal) -> Verdict {
    let built = probe::build(spec, false);
    let via_t = catch(|| {
        block_on(built.ruleset.evaluate(t)).map(|o| o.into_iter().map(|o| (o.rule.name().to_string(), o.value)).collect::<Vec<_>>())
    });
    let via_t = match via_t {
        Ok(x) => x,
        Err(p) => return Err(Issue::new("ruleset:evaluate-panic", format!("RuleSet::evaluate panicked: {p}; input {t:?}"))),
    };
    let image = sval::model_image(t);
    // a ruleset without rules serializes its input all the same: the call as a whole fails iff serialization does
    let empty = catch(|| block_on(ruleset().build().evaluate(t)).map(|o| o.len()))
        .map_err(|p| Issue::new("ruleset:evaluate-panic", format!("RuleSet::evaluate of a ruleset without rules panicked: {p}; input {t:?}")))?;
    match (&image, &empty) {
        (Image::Error, Ok(_)) => {
            return Err(Issue::new(
                "ruleset:evaluate-ignores-serialization-failure",
                format!("input {t:?} cannot be serialized but RuleSet::evaluate of a ruleset without rules succeeded"),
            ))
        }
        (Image::Val(_), Err(e)) => {
            return Err(Issue::new("ruleset:evaluate-fails-as-a-whole", format!("input {t:?} is serializable but a ruleset without rules failed: {e}")))
        }
        (Image::Val(_), Ok(n)) if *n != 0 => return Err(Issue::new("ruleset:evaluate-differs", format!("a ruleset without rules returned {n} outcomes"))),
        _ => {}
    }
    match (&image, &via_t) {
        (Image::Error, Ok(_)) => Err(Issue::new(
            "ruleset:evaluate-ignores-serialization-failure",
            format!("input {t:?} cannot be serialized but RuleSet::evaluate succeeded"),
        )),
        (Image::Error, Err(_)) | (Image::KeyDependent, Err(_)) => Ok(()),
        (Image::Val(_), Err(e)) => Err(Issue::new(
            "ruleset:evaluate-fails-as-a-whole",
            format!("input {t:?} is serializable but RuleSet::evaluate failed as a whole: {e}"),
        )),
        (_, Ok(outs)) => {
            use serde::Serialize;
            let v = match t.serialize(reval::value::ser::ValueSerializer) {
                Ok(v) => v,
                Err(_) => return Ok(()),
            };
            let built2 = probe::build(spec, false);
            let direct = run_value(&built2, &v).map_err(|p| Issue::new("ruleset:panic", p))?;
            if outs.len() != direct.len() {
                return Err(Issue::new("ruleset:evaluate-differs", format!("different number of outcomes for {t:?}")));
            }
            for ((n1, a), (r2, b)) in outs.iter().zip(direct.iter()) {
                let same = match (a, b) {
                    (Ok(x), Ok(y)) => same_value(x, y, true),
                    (Err(x), Err(y)) => me::err_class(x) == me::err_class(y),
                    _ => false,
                };
                if n1 != r2.name() || !same {
                    return Err(Issue::new(
                        "ruleset:evaluate-differs",
                        format!(
                            "evaluate(&T) gives {} for rule {n1} but evaluate_value(&serialize(T)) gives {}; input {t:?}",
                            me::show_actual(a),
                            me::show_actual(b)
                        ),
                    ));
                }
            }
            Ok(())
        }
    }
}

const UNSORTED: [&str; 9] = ["m", "c", "x", "a", "Q", "b", "z", "K", "d"];

fn fixed_spec(kinds: &[usize]) -> SetSpec {
    SetSpec {
        // names deliberately not in lexicographic order: outcome order must be the order added, not a sorted one
        rules: kinds.iter().enumerate().map(|(i, k)| (format!("{}-rule", UNSORTED[i % UNSORTED.len()]), rule_of_kind(*k, i as i128 + 1))).collect(),
        fns: standard_fns(),
        symbols: standard_symbols(),
        suspend: 0,
    }
}

/// n rules of all kinds (failing ones in between), names not in lexicographic order
fn large_case(n: usize, stride: usize) -> SetCase {
    SetCase {
        spec: SetSpec {
            rules: (0..n).map(|i| (format!("{}-rule-{i}", UNSORTED[i % UNSORTED.len()]), rule_of_kind((i * stride + i / RULE_KINDS) % RULE_KINDS, i as i128 + 1))).collect(),
            fns: standard_fns(),
            symbols: standard_symbols(),
            suspend: 0,
        },
        inputs: vec![crate::pool::map(&[("vi", Value::Int(5)), ("id", Value::Int(1))]), crate::pool::map(&[("vi", Value::Int(6)), ("id", Value::Int(2))])],
    }
}

pub(crate) fn random_case(bytes: &[u8]) -> SetCase {
    let mut d = Dec::new(bytes);
    let n = d.below(9);
    let fns = gen_fns(&mut d, false);
    let cfg = gen::ExprCfg {
        fn_names: vec!["fa".into(), "fb".into(), "fc".into(), "nofn".into()],
        sym_names: vec!["sa".into(), "sb".into(), "nosym".into()],
        typed_weight: 6,
    };
    let mut rules = vec![];
    for i in 0..n {
        let e = match d.below(4) {
            0 => rule_of_kind(d.below(RULE_KINDS), i as i128),
            1 => gen_call_expr(&mut d, 2, false),
            _ => {
                let want = *d.pick(&gen::CONCRETE);
                gen::gen_expr(&mut d, want, 4, &cfg)
            }
        };
        // duplicate names are refused by the builder: names are distinct by construction
        rules.push((format!("{}{i}", UNSORTED[(i * 3 + n) % UNSORTED.len()]), e));
    }
    let mut fns_all = standard_fns();
    fns_all.extend(fns);
    // one to three different inputs, evaluated one after the other by the same ruleset instance
    let ninputs = 1 + d.below(3);
    let inputs: Vec<Value> = (0..ninputs)
        .map(|k| match d.below(4) {
            0 => gen::gen_value(&mut d, 2),
            _ => typed_facts(&mut d, k as i128 + 1),
        })
        .collect();
    SetCase { spec: SetSpec { rules, fns: fns_all, symbols: standard_symbols(), suspend: 0 }, inputs }
}

/// Rulesets in which a field and a symbol share their name (and hold different collections), and a cacheable function
/// is called with each of them, with paths into them and with literals; every rotation of the rule list.
pub fn argument_spelling_cases() -> Vec<SetCase> {
    let mut fns = BTreeMap::new();
    fns.insert("fa".to_string(), me::FnSpec { cacheable: true, fail_on: vec![], fail_first: 0, uncacheable_after: 0 });
    fns.insert("fc".to_string(), me::FnSpec { cacheable: true, fail_on: vec![], fail_first: 0, uncacheable_after: 0 });
    let m = |a: i128, b: i128| crate::pool::map(&[("a", Value::Int(a)), ("b", Value::Vec(vec![Value::Int(b)]))]);
    let mut symbols = BTreeMap::new();
    symbols.insert("limits".to_string(), m(10, 11));
    symbols.insert("list".to_string(), Value::Vec(vec![Value::Int(1), Value::Int(2)]));
    symbols.insert("limits.b".to_string(), Value::Vec(vec![Value::Int(77)]));
    symbols.insert("n".to_string(), Value::Int(5));
    let input = crate::pool::map(&[
        ("limits", m(99, 98)),
        ("list", Value::Vec(vec![Value::Int(3)])),
        ("limits.b", Value::Vec(vec![Value::Int(66)])),
        ("n", Value::Int(6)),
        ("id", Value::Int(1)),
        ("o", crate::pool::map(&[("limits", m(55, 54)), ("0", Value::Vec(vec![Value::Int(8)]))])),
        ("l", Value::Vec(vec![Value::Vec(vec![Value::Int(9)])])),
    ]);
    let idx = |e: Expr, k: &str| Expr::index(e, Index::Map(k.into()));
    let args: Vec<(&str, Expr)> = vec![
        ("field", Expr::reff("limits")),
        ("symbol", Expr::symbol("limits")),
        ("field-list", Expr::reff("list")),
        ("symbol-list", Expr::symbol("list")),
        ("field-path", idx(Expr::reff("limits"), "b")),
        ("symbol-path", idx(Expr::symbol("limits"), "b")),
        ("dotted-field", Expr::reff("limits.b")),
        ("dotted-symbol", Expr::symbol("limits.b")),
        ("nested-field", idx(Expr::reff("o"), "limits")),
        ("text-key-0", idx(Expr::reff("o"), "0")),
        ("position-0", Expr::index(Expr::reff("l"), Index::Vec(0))),
        ("scalar-field", Expr::reff("n")),
        ("scalar-symbol", Expr::symbol("n")),
        ("literal", Expr::Map([("a".to_string(), Expr::value(10)), ("b".to_string(), Expr::Vec(vec![Expr::value(11)]))].into_iter().collect())),
    ];
    let mut rules: Vec<(String, Expr)> = vec![];
    for f in ["fa", "fc"] {
        for (n, a) in &args {
            rules.push((format!("{f}-{n}"), Expr::func(f, a.clone())));
        }
        rules.push((format!("{f}-all"), Expr::Vec(args.iter().map(|(_, a)| Expr::func(f, a.clone())).collect())));
        rules.push((format!("{f}-all-reversed"), Expr::Vec(args.iter().rev().map(|(_, a)| Expr::func(f, a.clone())).collect())));
    }
    (0..rules.len())
        .map(|r| {
            let mut rs = rules.clone();
            rs.rotate_left(r);
            if r % 3 == 2 {
                rs.reverse();
            }
            SetCase { spec: SetSpec { rules: rs, fns: fns.clone(), symbols: symbols.clone(), suspend: 0 }, inputs: vec![input.clone(), input.clone()] }
        })
        .collect()
}

pub fn run(ctx: &Ctx) {
    ctx.set_rule(
        "Generated: (1) every ruleset of 0-4 rules drawn from 15 rule kinds (one succeeding, one calling cacheable and non-cacheable \
         probes and a symbol, and one failing with each error class: type mismatch, division by zero, invalid cast, out of bounds, \
         unknown reference, invalid symbol, unknown function, user-function failure, and four out-of-range results: Int +, dec(2^96), DateTime + Duration, int(f1e300)), i.e. every subset and \
         position of failing rules (exhaustive), and rulesets of 31-1000 rules of those kinds; (2) random rulesets of 0-8 rules mixing those kinds, call-heavy rules and random \
         typed trees, with random function tables (failure sets), on one to three different inputs of every shape evaluated consecutively by the same ruleset instance; (3) serde inputs T (all data-model kinds, \
         incl. ones whose Serialize fails) for evaluate(&T). Oracle: exactly one outcome per rule, in order, carrying that rule \
         (name and full equality), with the value the reference evaluator gives for that rule on its own; evaluate(&T) == \
         evaluate_value(&serialize(T)) and fails as a whole iff serialization does. Non-trivial: >= 2 rules with a failing rule that \
         is not last.",
    );
    ctx.assume("user functions are the harness's deterministic probes (stateless failure sets), so a rule on its own and in sequence must agree");

    super::regressions::run(ctx, "C09", |j| replay(j));

    // (1) exhaustive small rulesets
    let k = RULE_KINDS as u64;
    let total: u64 = (0..=4u32).map(|n| k.pow(n)).sum();
    let decode = |mut i: u64| -> Vec<usize> {
        let mut n = 0u32;
        let mut block = 1u64;
        while i >= block {
            i -= block;
            n += 1;
            block = k.pow(n);
        }
        let mut v = vec![0usize; n as usize];
        for p in (0..n as usize).rev() {
            v[p] = (i % k) as usize;
            i /= k;
        }
        v
    };
    let facts = crate::pool::map(&[("vi", Value::Int(5)), ("id", Value::Int(1))]);
    ctx.enumerate(
        "small-rulesets",
        total,
        true,
        |i, acc| {
            let kinds = decode(i);
            let nt = kinds.len() >= 2 && kinds[..kinds.len() - 1].iter().any(|k| (1..=13).contains(k) || *k == 15);
            acc.cell(&format!("small:{}rules", kinds.len()), nt);
            let case = SetCase { spec: fixed_spec(&kinds), inputs: vec![facts.clone()] };
            if nt && i % 977 == 0 {
                acc.sample("small", || case.render());
            }
            check(&case)
        },
        |i| SetCase { spec: fixed_spec(&decode(i)), inputs: vec![facts.clone()] }.to_json(),
        "setcase",
    );

    // (1a) rules that differ only in a literal's sign of zero / decimal scale, stateless zero-sized user functions called
    // with one argument, symbols whose names are reserved words or no identifiers at all
    let twins: Vec<SetCase> = {
        let f = |x: f64| Expr::Value(Value::Float(x));
        let mut fns = standard_fns();
        fns.insert("za".to_string(), me::FnSpec { cacheable: true, fail_on: vec![], fail_first: 0, uncacheable_after: 0 });
        fns.insert("zb".to_string(), me::FnSpec { cacheable: true, fail_on: vec![], fail_first: 0, uncacheable_after: 0 });
        let mut symbols = standard_symbols();
        symbols.insert("val".to_string(), Value::Int(41));
        symbols.insert("key".to_string(), Value::Int(42));
        symbols.insert("unit price".to_string(), Value::Int(43));
        symbols.insert("if".to_string(), Value::Int(44));
        let rules: Vec<(&str, Expr)> = vec![
            ("m-pos", Expr::div(f(1.0), f(0.0))),
            ("c-neg", Expr::div(f(1.0), f(-0.0))),
            ("x-echo1", Expr::func("fa", Expr::Value(crate::pool::dec(10, 1)))),
            ("a-echo2", Expr::func("fa", Expr::Value(crate::pool::dec(100, 2)))),
            ("Q-list", Expr::Vec(vec![f(0.0), Expr::reff("vi")])),
            ("b-list", Expr::Vec(vec![f(-0.0), Expr::reff("vi")])),
            ("z-za", Expr::func("za", Expr::reff("vi"))),
            ("K-zb", Expr::func("zb", Expr::reff("vi"))),
            ("d-za", Expr::func("za", Expr::reff("vi"))),
            ("e-syms", Expr::Vec(vec![Expr::symbol("val"), Expr::symbol("key"), Expr::symbol("unit price"), Expr::symbol("if")])),
            ("f-same", Expr::div(f(1.0), f(0.0))),
            // rule names are no name space of the language: a reference named like an earlier (or later) rule is still unknown
            ("adult", Expr::gt(Expr::reff("vi"), Expr::value(1))),
            ("needs_guardian", Expr::not(Expr::reff("adult"))),
            ("uses_later", Expr::iif(Expr::reff("f_same"), Expr::value(1), Expr::value(0))),
            ("sym_named_like_rule", Expr::symbol("adult")),
        ];
        let input = crate::pool::map(&[("vi", Value::Int(5)), ("id", Value::Int(1))]);
        // every rotation of the rule list (which rule comes first must not matter)
        (0..rules.len())
            .map(|r| {
                let mut rs: Vec<(String, Expr)> = rules.iter().map(|(n, e)| (n.to_string(), e.clone())).collect();
                rs.rotate_left(r);
                SetCase { spec: SetSpec { rules: rs, fns: fns.clone(), symbols: symbols.clone(), suspend: 0 }, inputs: vec![input.clone(), input.clone()] }
            })
            .collect()
    };
    ctx.enumerate(
        "twin-rules",
        twins.len() as u64,
        true,
        |i, acc| {
            acc.cell("twin-rules", true);
            if i == 0 {
                acc.sample("twin-rules", || twins[0].render());
            }
            check(&twins[i as usize])
        },
        |i| twins[i as usize].to_json(),
        "setcase",
    );

    // (1a') one cacheable function asked about an input field, a symbol of the same name, paths into both and literals
    // of the same values, in separate rules and inside one rule: every rule's outcome is what it is on its own
    let spellings = argument_spelling_cases();
    ctx.enumerate(
        "one-function-many-argument-spellings",
        spellings.len() as u64,
        true,
        |i, acc| {
            acc.cell("argument-spellings", true);
            if i == 0 {
                acc.sample("argument-spellings", || spellings[0].render());
            }
            check(&spellings[i as usize])
        },
        |i| spellings[i as usize].to_json(),
        "setcase",
    );

    // (1a'') symbols that were defined with another value before the rules were added and redefined afterwards: a rule's
    // outcome is its expression evaluated with the symbols of the built ruleset
    let redefined = super::c12::redefined_symbol_cases();
    ctx.enumerate(
        "symbols-redefined-after-the-rules",
        redefined.len() as u64,
        true,
        |i, acc| {
            let (earlier, case) = &redefined[i as usize];
            acc.cell(&format!("redefined-symbols:way{}", earlier[0].0), true);
            if i % 61 == 0 {
                acc.sample("redefined-symbols", || format!("earlier s = {}, then {}", show_value(&earlier[0].2), case.render()).chars().take(300).collect());
            }
            super::c12::check_redefined(earlier, case).map_err(|i| Issue::new(i.sig.replace("history:", "ruleset:"), i.msg))
        },
        |i| json!({"redefined_symbols": i}),
        "redefined-symbols",
    );

    // (1b) large rulesets: the same for 31 ... 1000 rules
    let large: Vec<SetCase> = [31usize, 32, 33, 64, 65, 128, 129, 257, 1000].iter().flat_map(|&n| [1usize, 7, 11].into_iter().map(move |s| large_case(n, s))).collect();
    ctx.enumerate(
        "large-rulesets",
        large.len() as u64,
        true,
        |i, acc| {
            acc.cell("large", true);
            acc.sample("large", || format!("{} rules", large[i as usize].spec.rules.len()));
            check(&large[i as usize])
        },
        |i| large[i as usize].to_json(),
        "setcase",
    );

    // (2) random rulesets
    let n = ctx.tier.pick(250_000u64, 2_500_000u64);
    ctx.random(
        "random-rulesets",
        n,
        || gen::recipe(600),
        |bytes, acc| {
            let case = random_case(bytes);
            if let Some(acc) = acc {
                let mut counts = BTreeMap::new();
                let (m, _) = model_evaluation(&case.spec, &case.inputs[0], &mut counts);
                let nfail = m.iter().filter(|r| r.is_err()).count();
                let nt = m.len() >= 2 && m[..m.len() - 1].iter().any(|r| r.is_err());
                let class = format!("rnd:{}rules:{}", m.len().min(8), if nfail == 0 { "all-ok" } else if nfail == m.len() { "all-fail" } else { "mixed" });
                acc.case(&class, nt, || case.render());
            }
            check(&case)
        },
        |bytes| random_case(bytes).to_json(),
        "setcase",
    );

    // (3) serializable inputs
    let n3 = ctx.tier.pick(150_000u64, 1_500_000u64);
    ctx.random(
        "serializable-inputs",
        n3,
        || gen::recipe(300),
        |bytes, acc| {
            let mut d = Dec::new(bytes);
            let t = sval::gen_sval(&mut d, 3);
            let nk = 1 + d.below(3);
            let kinds: Vec<usize> = (0..nk).map(|_| d.below(RULE_KINDS)).collect();
            let mut spec = fixed_spec(&kinds);
            spec.rules.push(("whole".into(), Expr::reff("facts")));
            if let Some(acc) = acc {
                let class = match sval::model_image(&t) {
                    Image::Val(_) => "ser:ok",
                    Image::Error => "ser:fails",
                    Image::KeyDependent => "ser:key-dependent",
                };
                acc.case(class, true, || format!("{t:?}"));
            }
            check_serializable(&spec, &t)
        },
        |bytes| json!({"ser_bytes": bytes}),
        "serializable",
    );
}

pub fn replay(j: &serde_json::Value) -> Option<Verdict> {
    if let Some(i) = j.get("redefined_symbols").and_then(|i| i.as_u64()) {
        return super::c12::redefined_symbol_cases().get(i as usize).map(|(e, c)| super::c12::check_redefined(e, c).map_err(|i| Issue::new(i.sig.replace("history:", "ruleset:"), i.msg)));
    }
    if let Some(b) = j.get("ser_bytes").and_then(|b| b.as_array()) {
        let bytes: Vec<u8> = b.iter().filter_map(|x| x.as_u64().map(|x| x as u8)).collect();
        let mut d = Dec::new(&bytes);
        let t = sval::gen_sval(&mut d, 3);
        let nk = 1 + d.below(3);
        let kinds: Vec<usize> = (0..nk).map(|_| d.below(RULE_KINDS)).collect();
        let mut spec = fixed_spec(&kinds);
        spec.rules.push(("whole".into(), Expr::reff("facts")));
        return Some(check_serializable(&spec, &t));
    }
    SetCase::from_json(j).map(|c| check(&c))
}

/// Entry point of the `set_diff` fuzz target: selector 0 = random ruleset, 1 = serializable input.
pub(crate) fn fuzz_bytes(sel: u8, bytes: &[u8]) -> Verdict {
    if sel % 2 == 0 {
        check(&random_case(bytes))
    } else {
        let j = json!({ "ser_bytes": bytes });
        replay(&j).unwrap_or(Ok(()))
    }
}
