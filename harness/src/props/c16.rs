//! C16 — printing a parsed expression gives text that parses back to the same expression.

use crate::core::*;
use crate::data::*;
use crate::gen::{self, Dec};
use crate::model::eval as me;
use reval::prelude::*;
use serde_json::json;

fn has_nonfinite(e: &Expr) -> bool {
    match e {
        Expr::Value(Value::Float(f)) => !f.is_finite(),
        _ => children(e).iter().any(|c| has_nonfinite(c)),
    }
}

fn sanitize(e: &Expr) -> Expr {
    match e {
        Expr::Value(Value::Float(f)) if !f.is_finite() => Expr::Value(Value::Float(if *f > 0.0 { 1.5 } else { -1.5 })),
        _ => {
            let kids: Vec<Expr> = children(e).iter().map(|c| sanitize(c)).collect();
            rebuild(e, kids)
        }
    }
}

/// Ok(()) / Err(description of how the rendering failed to parse back)
fn roundtrip(e: &Expr) -> Result<(), String> {
    let text = match catch(|| e.to_string()) {
        Ok(t) => t,
        Err(p) => return Err(format!("to_string panicked: {p}")),
    };
    // what the parser was given before has no bearing on the round trip: between printing and parsing back, the same
    // thread parses a text that is rejected (chosen by the length of the rendering; every third case goes without)
    const REJECTED: [&str; 12] = [
        "\"C:\\temp\\qux\"", "\"abc", "\"x\\u{110000}\"", "\"ab\\u{zz}\"", "i1 +", "\"tail\\", "[\"a\", \"b\\q\"]", "d1.2.x y", "name == \"al\\ice\"",
        "{k: \"v\\x41\"}", "\"\u{e9}t\u{e9}\\", "f(\"abc\\u{}\")",
    ];
    if text.len() % 3 != 2 {
        let rejected = REJECTED[(text.len() / 3) % REJECTED.len()];
        // (whether it is rejected, and how, is C06's and C07's business)
        let _ = catch(|| if text.len() % 2 == 0 { Expr::parse(rejected).is_ok() } else { Rule::parse(rejected).is_ok() });
    }
    match catch(|| Expr::parse(&text)) {
        Err(p) => Err(format!("rendering {text:?} makes Expr::parse panic: {p}")),
        Ok(Err(err)) => Err(format!("rendering {text:?} is not valid syntax: {err}")),
        Ok(Ok(back)) => {
            if same_expr(&back, e) {
                roundtrip_as_rule(e, &text)
            } else {
                Err(format!("rendering {text:?} parses back to {}", show_expr(&back)))
            }
        }
    }
}

/// The rendering is valid rule syntax: as the expression of a rule text it parses back to the same tree as well.
/// (Not applied when a string literal contains a line that starts with `//`: known finding D12 of C14.)
fn roundtrip_as_rule(e: &Expr, text: &str) -> Result<(), String> {
    if text.lines().skip(1).any(|l| l.trim_start().starts_with("//")) || text.trim_start().starts_with("//") {
        return Ok(());
    }
    let rule_text = format!("// r\n{text}");
    match catch(|| Rule::parse(&rule_text)) {
        Err(p) => Err(format!("rendering {text:?} as the expression of a rule makes Rule::parse panic: {p}")),
        Ok(Err(err)) => Err(format!("rendering {text:?} is not valid as the expression of a rule: {err}")),
        Ok(Ok(rule)) => {
            if same_expr(rule.expr(), e) {
                Ok(())
            } else {
                Err(format!("rendering {text:?} as the expression of a rule parses back to {}", show_expr(rule.expr())))
            }
        }
    }
}

/// which feature of the (minimal) failing tree is responsible — used as signature
fn feature(e: &Expr) -> &'static str {
    fn any(e: &Expr, f: &dyn Fn(&Expr) -> bool) -> bool {
        f(e) || children(e).iter().any(|c| any(c, f))
    }
    let is_bit = |x: &Expr| matches!(x, Expr::BitAnd(..) | Expr::BitOr(..) | Expr::BitXor(..));
    let is_unary = |x: &Expr| matches!(x, Expr::Neg(_) | Expr::Not(_));
    if any(e, &|x| matches!(x, Expr::Value(Value::String(s)) if s.contains('"') || s.contains('\\'))) {
        "string-escape"
    } else if any(e, &|x| match x {
        Expr::Index(a, _) => matches!(**a, Expr::Value(Value::Float(_)) | Expr::Value(Value::Decimal(_))),
        _ => false,
    }) {
        "number-literal-under-index"
    } else if any(e, &|x| match x {
        Expr::Index(a, _) => is_bit(a) || is_unary(a),
        Expr::Contains(a, b) => is_bit(a) || is_bit(b) || is_unary(a) || is_unary(b),
        _ => false,
    }) {
        "operator-under-contains-or-index"
    } else if any(e, &|x| match x {
        Expr::BitAnd(_, r) | Expr::BitOr(_, r) | Expr::BitXor(_, r) => is_bit(r),
        _ => false,
    }) {
        "nested-bitwise"
    } else {
        "other"
    }
}

pub fn check(e: &Expr) -> Verdict {
    match roundtrip(e) {
        Ok(()) => Ok(()),
        Err(why) => {
            if has_nonfinite(e) {
                let s = sanitize(e);
                return match roundtrip(&s) {
                    Ok(()) => Err(Issue::new(
                        "display:nonfinite-float-literal",
                        format!("a non-finite float literal has no spelling that parses back: tree {}: {why}", show_expr(e)),
                    )),
                    Err(why2) => Err(Issue::new(
                        format!("display:{}", feature(&s)),
                        format!("tree {} (non-finite floats replaced): {why2}", show_expr(&s)),
                    )),
                };
            }
            Err(Issue::new(format!("display:{}", feature(e)), format!("tree {}: {why}", show_expr(e))))
        }
    }
}

/// consequence: an expression and its rendering evaluate identically
fn check_eval(e: &Expr, facts: &Value) -> Verdict {
    let text = e.to_string();
    let back = match crate::core::parse_guarded(&text) {
        Some(Ok(b)) => b,
        _ => return Ok(()), // reported by `check`
    };
    let a = catch(|| block_on_bounded(e.evaluate(facts), 4));
    let b = catch(|| block_on_bounded(back.evaluate(facts), 4));
    let same = match (&a, &b) {
        (Ok(Some(Ok(x))), Ok(Some(Ok(y)))) => same_value(x, y, true),
        (Ok(Some(Err(x))), Ok(Some(Err(y)))) => me::err_class(x) == me::err_class(y),
        (Err(_), Err(_)) => true,
        _ => false,
    };
    if same {
        Ok(())
    } else {
        let sh = |r: &Result<Option<Result<Value, reval::Error>>, String>| match r {
            Ok(Some(x)) => me::show_actual(x),
            Ok(None) => "pending".into(),
            Err(p) => format!("panic {p}"),
        };
        Err(Issue::new(
            "display:evaluates-differently",
            format!("{} evaluates to {} but its rendering {text:?} to {}", show_expr(e), sh(&a), sh(&b)),
        ))
    }
}

fn literal_leaves() -> Vec<Expr> {
    let v = |x: Value| Expr::Value(x);
    vec![
        v(Value::String("a\"b".into())),
        v(Value::String("a\\b".into())),
        v(Value::String("line\n\ttab\r".into())),
        v(Value::String("cr\r\nlf\r\n".into())),
        v(Value::String("a\\\nb \\\r\nc\\".into())),
        Expr::Map([("limit".to_string(), Expr::symbol("limit")), ("a".to_string(), Expr::reff("a")), ("b".to_string(), Expr::reff("a"))].into_iter().collect()),
        Expr::Map([("limit".to_string(), Expr::symbol("limit"))].into_iter().collect()),
        Expr::Map([("a".to_string(), Expr::reff("a"))].into_iter().collect()),
        v(Value::String("\u{feff}bom\u{200b}zw\u{200d}\u{2060}\u{ad}".into())),
        v(Value::String("\u{201c}quoted\u{201d} \u{2028}\u{2029}\u{85}".into())),
        v(Value::String("é😀\u{0}".into())),
        v(Value::String(String::new())),
        v(Value::Int(i128::MAX)),
        v(Value::Int(i128::MIN)),
        v(Value::Int(-5)),
        v(Value::Float(5.0)),
        v(Value::Float(-0.0)),
        v(Value::Float(f64::MAX)),
        v(Value::Float(5e-324)),
        v(Value::Float(1.5e-7)),
        v(Value::Float(f64::INFINITY)),
        v(Value::Float(f64::NEG_INFINITY)),
        v(crate::pool::dec(5, 0)),
        v(crate::pool::dec(-50, 1)),
        v(crate::pool::dec(1, 28)),
        v(crate::pool::dec((1i128 << 96) - 1, 0)),
        v(Value::Bool(true)),
        v(Value::None),
        Expr::reff("a"),
        Expr::symbol("s"),
    ]
}

/// every node kind over every literal leaf kind in every child position
fn leaf_family() -> Vec<Expr> {
    let lv = literal_leaves();
    let mut out = vec![];
    for l in &lv {
        out.push(l.clone());
        for k in UNARY_KINDS {
            out.push(mk1(k, l.clone()));
        }
        for k in BINARY_KINDS {
            out.push(mk2(k, l.clone(), Expr::reff("a")));
            out.push(mk2(k, Expr::reff("a"), l.clone()));
        }
        out.push(Expr::index(l.clone(), reval::expr::Index::Vec(0)));
        out.push(Expr::index(l.clone(), reval::expr::Index::Map("x".into())));
        out.push(Expr::func("fun", l.clone()));
        out.push(Expr::iif(l.clone(), l.clone(), l.clone()));
        out.push(Expr::Vec(vec![l.clone(), l.clone()]));
        out.push(Expr::Map([("k".to_string(), l.clone())].into_iter().collect()));
    }
    out
}

fn depth2_family() -> Vec<Expr> {
    // reuse C07's structural family (every kind in every child position of every kind)
    let mut v = vec![];
    let kinds1 = UNARY_KINDS;
    let kinds2 = BINARY_KINDS;
    let a = || Expr::reff("a");
    let b = || Expr::reff("b");
    let mut inner: Vec<Expr> = vec![];
    for k in kinds1 {
        inner.push(mk1(k, a()));
    }
    for k in kinds2 {
        inner.push(mk2(k, a(), b()));
    }
    inner.push(Expr::iif(a(), b(), Expr::reff("c")));
    inner.push(Expr::func("fun", a()));
    inner.push(Expr::index(a(), reval::expr::Index::Map("fld".into())));
    inner.push(Expr::index(a(), reval::expr::Index::Vec(3)));
    inner.push(Expr::Vec(vec![a(), b()]));
    inner.push(Expr::Map([("k".to_string(), a())].into_iter().collect()));
    inner.push(Expr::value(7));
    inner.push(Expr::Value(Value::Int(-7)));
    inner.push(Expr::Value(Value::Float(2.0)));
    inner.push(Expr::Value(crate::pool::dec(20, 1)));
    inner.push(Expr::symbol("s"));
    let x = || Expr::reff("x");
    for i in &inner {
        for k in kinds1 {
            v.push(mk1(k, i.clone()));
        }
        for k in kinds2 {
            v.push(mk2(k, i.clone(), x()));
            v.push(mk2(k, x(), i.clone()));
            v.push(mk2(k, i.clone(), i.clone()));
        }
        v.push(Expr::iif(i.clone(), x(), x()));
        v.push(Expr::iif(x(), i.clone(), x()));
        v.push(Expr::iif(x(), x(), i.clone()));
        v.push(Expr::func("fun", i.clone()));
        v.push(Expr::index(i.clone(), reval::expr::Index::Map("fld".into())));
        v.push(Expr::index(i.clone(), reval::expr::Index::Vec(0)));
        v.push(Expr::Vec(vec![i.clone(), x()]));
        v.push(Expr::Map([("k".to_string(), i.clone())].into_iter().collect()));
    }
    // depth 3 for the interesting operators: bitwise / contains / index / unary mixes
    let tight: Vec<Expr> = inner
        .iter()
        .filter(|e| {
            matches!(
                e,
                Expr::BitAnd(..) | Expr::BitOr(..) | Expr::BitXor(..) | Expr::Contains(..) | Expr::Neg(_) | Expr::Not(_) | Expr::Index(..) | Expr::Mult(..)
            )
        })
        .cloned()
        .collect();
    for i in &tight {
        for j in &tight {
            let mid = rebuild(j, children(j).iter().enumerate().map(|(p, c)| if p == 0 { i.clone() } else { (*c).clone() }).collect());
            for k in &tight {
                let kids = children(k);
                let top = rebuild(
                    k,
                    kids.iter().enumerate().map(|(p, c)| if p == kids.len() - 1 { mid.clone() } else { (*c).clone() }).collect(),
                );
                v.push(top);
            }
        }
    }
    v
}

/// trees built only from the constructs whose rendering is delicate: bitwise / contains / index / unary / `*`
/// nodes over references named like literal prefixes, strings needing escapes, float / decimal / negative literals
fn gen_tight(d: &mut Dec, depth: u32) -> Expr {
    if depth == 0 || d.exhausted() {
        return match d.below(10) {
            0 => Expr::reff(*d.pick(&["f", "d", "i", "a", "e", "x1"])),
            1 => Expr::symbol(*d.pick(&["f", "d", "s"])),
            2 => Expr::Value(Value::Float(*d.pick(&[5.0, -0.0, 1.5, -2.0, 1e21, 1e-7, f64::INFINITY]))),
            3 => Expr::Value(Value::Decimal(gen::gen_decimal(d))),
            4 => Expr::Value(Value::Int(*d.pick(&[-5i128, 5, 0, i128::MIN]))),
            5 => Expr::Value(Value::String((*d.pick(&["a\"b", "a\\b", "\\", "\"", "x\ny", "\\\"", "é\\n", "", "a\\\nb", "\\\r\n"])).to_string())),
            6 => Expr::Value(Value::Bool(d.bool())),
            7 => Expr::Value(Value::None),
            // collections written out as literals of literals
            8 => {
                let lits = [Value::Int(1), Value::Int(2), Value::String("s\\".into()), Value::Bool(true), Value::None, Value::Float(1.5)];
                let n = d.below(4);
                let items: Vec<Expr> = (0..n).map(|_| Expr::Value(d.pick(&lits).clone())).collect();
                if d.below(4) == 0 {
                    Expr::Map(items.into_iter().enumerate().map(|(i, e)| (format!("k{i}"), e)).collect())
                } else {
                    Expr::Vec(items)
                }
            }
            _ => Expr::reff("a"),
        };
    }
    match d.below(14) {
        // built-in calls and casts around tight operators
        12 | 13 => {
            let k = *d.pick(&[
                "int", "float", "dec", "datetime", "duration", "is_some", "is_none", "uppercase", "lowercase", "trim", "round", "floor", "fract", "year",
                "month", "week", "day", "hour", "minute", "second",
            ]);
            mk1(k, gen_tight(d, depth - 1))
        }
        0 | 1 | 2 => {
            let k = *d.pick(&["bitand", "bitor", "bitxor"]);
            let a = gen_tight(d, depth - 1);
            let b = gen_tight(d, depth - 1);
            mk2(k, a, b)
        }
        3 | 4 => {
            let a = gen_tight(d, depth - 1);
            let b = gen_tight(d, depth - 1);
            Expr::contains(a, b)
        }
        5 | 6 => {
            let a = gen_tight(d, depth - 1);
            if d.bool() {
                Expr::index(a, reval::expr::Index::Vec(d.below(12)))
            } else {
                Expr::index(a, reval::expr::Index::Map((*d.pick(&["x", "f", "d", "e5", "b"])).to_string()))
            }
        }
        7 => Expr::neg(gen_tight(d, depth - 1)),
        8 => Expr::not(gen_tight(d, depth - 1)),
        9 => {
            let k = *d.pick(&["mult", "add", "sub", "eq", "and"]);
            let a = gen_tight(d, depth - 1);
            let b = gen_tight(d, depth - 1);
            mk2(k, a, b)
        }
        10 => Expr::func(*d.pick(&["f", "d", "g"]), gen_tight(d, depth - 1)),
        _ => {
            let c = gen_tight(d, depth - 1);
            let t = gen_tight(d, depth - 1);
            let f = gen_tight(d, depth - 1);
            Expr::iif(c, t, f)
        }
    }
}

fn random_tight(bytes: &[u8]) -> Expr {
    let mut d = Dec::new(bytes);
    let depth = 1 + d.below(5) as u32;
    gen_tight(&mut d, depth)
}

fn random_tree(bytes: &[u8]) -> (Expr, Value) {
    let mut d = Dec::new(bytes);
    let depth = 1 + d.below(6) as u32;
    let e = gen::gen_image(&mut d, depth);
    let facts = gen::gen_facts(&mut d);
    (e, facts)
}

pub fn run(ctx: &Ctx) {
    ctx.set_rule(
        "Generated trees in the parser's image: (1) every node kind over every literal-leaf kind in every child position (strings \
         with quotes / backslashes / control characters / non-ASCII, extreme ints, floats incl. -0.0, subnormal, f64::MAX and the \
         overflow literal f1e999 = +inf, decimals of several scales); (2) every node kind in every child position of every node kind \
         (exhaustive depth 2) plus depth-3 mixes of the tight operators (bitwise, contains, index, unary, *); (3) recipe-decoded \
         random image trees to depth 6. Oracle: Expr::parse(&e.to_string()) succeeds and equals e (literals compared exactly: float \
         bits, decimal mantissa+scale); for a sample, e and the re-parsed tree evaluate identically on random inputs. A failing case \
         with a non-finite float literal is re-checked with the literal replaced: if it then holds, the non-finite literal is the \
         cause (known finding), otherwise the remaining cause is reported. Non-trivial: the tree contains a bitwise node, a unary \
         node under contains/index, a string needing escapes, or a float/decimal literal under an index.",
    );

    super::regressions::run(ctx, "C16", |j| replay(j));

    let interesting = |e: &Expr| feature(e) != "other" || has_nonfinite(e);

    for (name, fam) in [("literal-leaves", leaf_family()), ("depth2-and-tight-depth3", depth2_family())] {
        ctx.enumerate(
            name,
            fam.len() as u64,
            true,
            |i, acc| {
                let e = &fam[i as usize];
                let nt = interesting(e) || matches!(e, Expr::BitAnd(..) | Expr::BitOr(..) | Expr::BitXor(..));
                acc.cell(&format!("{name}:{}", feature(e)), nt);
                if i % 257 == 0 {
                    acc.sample(name, || format!("{}  =>  {}", show_expr(e), e.to_string()));
                }
                check(e)
            },
            |i| json!({"tree": expr_to_json(&fam[i as usize]), "text": show_expr(&fam[i as usize])}),
            "tree",
        );
    }

    // long chains: flat in the source text, one level of parentheses per link in the rendering
    let mut chains: Vec<Expr> = vec![];
    for len in [10usize, 100, 129, 150, 300, 600] {
        let a = || Expr::reff("a");
        let fold2 = |k: &str| (0..len).fold(a(), |acc, _| mk2(k, acc, Expr::value(1)));
        for k in ["add", "and", "eq", "bitor", "mult"] {
            chains.push(fold2(k));
        }
        chains.push((0..len).fold(a(), |acc, _| Expr::index(acc, reval::expr::Index::Map("child".into()))));
        chains.push((0..len).fold(a(), |acc, i| Expr::index(acc, reval::expr::Index::Vec(i % 3))));
        chains.push((0..len).fold(a(), |acc, _| Expr::neg(acc)));
        chains.push((0..len).fold(a(), |acc, _| Expr::func("f", acc)));
        chains.push((0..len).fold(a(), |acc, _| Expr::Vec(vec![acc])));
        chains.push((0..len).fold(a(), |acc, _| Expr::iif(Expr::value(true), Expr::value(1), acc)));
        // more than a handful of entries, some of which hold multi-line strings (also nested one level down)
        chains.push(Expr::Vec((0..len.min(40)).map(|i| if i % 5 == 1 { Expr::value("line1\nline2\n  indented\r\nend".to_string()) } else { Expr::value(i as i128) }).collect()));
        chains.push(Expr::Map((0..len.min(40)).map(|i| (format!("k{i}"), if i % 4 == 2 { Expr::Vec(vec![Expr::value("a\n b".to_string())]) } else { Expr::reff("a") })).collect()));
        // wide rather than deep: lists / maps of that many entries, one string of that many characters, a call on a wide list
        chains.push(Expr::Vec((0..len).map(|i| Expr::value(i as i128)).collect()));
        chains.push(Expr::Map((0..len).map(|i| (format!("k{i}"), Expr::value(format!("v{i}")))).collect()));
        chains.push(Expr::value("aé\"\\\n".repeat(len)));
        chains.push(Expr::func("f", Expr::Vec((0..len).map(|i| Expr::add(Expr::reff("a"), Expr::value(i as i128))).collect())));
    }
    ctx.enumerate(
        "long-chains",
        chains.len() as u64,
        true,
        |i, acc| {
            let e = &chains[i as usize];
            acc.cell("chain", true);
            if i % 11 == 0 {
                acc.sample("chain", || format!("{} nodes deep: {}…", expr_depth(e), show_expr(e).chars().take(80).collect::<String>()));
            }
            // run on a roomy stack: these trees are deep for the recursive printer / comparison (that is C19's subject)
            std::thread::scope(|s| {
                std::thread::Builder::new()
                    .stack_size(256 << 20)
                    .spawn_scoped(s, || check(e))
                    .expect("spawn")
                    .join()
                    .unwrap_or_else(|_| Err(Issue::new("display:panic", "round trip of a long chain panicked")))
            })
        },
        |i| json!({"tree": expr_to_json(&chains[i as usize]), "text": "long chain"}),
        "tree",
    );

    let nt = ctx.tier.pick(120_000u64, 2_000_000u64);
    ctx.random_min(
        "random-tight-operator-trees",
        nt,
        || gen::recipe(200),
        |bytes, acc| {
            let e = random_tight(bytes);
            if let Some(acc) = acc {
                let f = feature(&e);
                let class = if has_nonfinite(&e) { "tight:nonfinite" } else { f };
                acc.case(&format!("tight:{class}"), true, || show_expr(&e));
            }
            check(&e)
        },
        |bytes| {
            let e = random_tight(bytes);
            json!({"tree": expr_to_json(&e), "text": show_expr(&e)})
        },
        "tree",
        Some(&|bytes: &Vec<u8>, issue, is_known| {
            let mut best = random_tight(bytes);
            let mut best_issue = issue;
            let mut budget = 2000;
            'outer: loop {
                for v in simpler_variants(&best) {
                    budget -= 1;
                    if budget <= 0 {
                        break 'outer;
                    }
                    if let Err(i) = check(&v) {
                        if !is_known(&i) {
                            best = v;
                            best_issue = i;
                            continue 'outer;
                        }
                    }
                }
                break;
            }
            (json!({"tree": expr_to_json(&best), "text": show_expr(&best)}), best_issue)
        }),
    );

    let n = ctx.tier.pick(60_000u64, 1_500_000u64);
    ctx.random_min(
        "random-image-trees",
        n,
        || gen::recipe(300),
        |bytes, acc| {
            let (e, facts) = random_tree(bytes);
            if let Some(acc) = acc {
                let f = feature(&e);
                let class = if has_nonfinite(&e) { "rnd:nonfinite" } else { f };
                acc.case(&format!("rnd:{class}"), f != "other", || show_expr(&e));
            }
            check(&e)?;
            if bytes.first().copied().unwrap_or(0) % 8 == 0 {
                check_eval(&e, &facts)?;
            }
            Ok(())
        },
        |bytes| {
            let (e, _) = random_tree(bytes);
            json!({"tree": expr_to_json(&e), "text": show_expr(&e)})
        },
        "tree",
        Some(&|bytes: &Vec<u8>, issue, is_known| {
            let (e, _) = random_tree(bytes);
            // structural minimisation
            let mut best = e;
            let mut best_issue = issue;
            let mut budget = 2000;
            'outer: loop {
                for v in simpler_variants(&best) {
                    budget -= 1;
                    if budget <= 0 {
                        break 'outer;
                    }
                    if let Err(i) = check(&v) {
                        if !is_known(&i) {
                            best = v;
                            best_issue = i;
                            continue 'outer;
                        }
                    }
                }
                break;
            }
            (json!({"tree": expr_to_json(&best), "text": show_expr(&best)}), best_issue)
        }),
    );
}

pub fn replay(j: &serde_json::Value) -> Option<Verdict> {
    if j.get("tree").is_none() {
        if let Some(t) = j.get("source_text").and_then(|t| t.as_str()) {
            return Some(match crate::core::parse_guarded(t) {
                Some(Ok(e)) => check(&e),
                _ => Ok(()),
            });
        }
    }
    let e = expr_from_json(j.get("tree")?)?;
    Some(check(&e))
}
