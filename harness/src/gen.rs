//! Generators. All random structure is decoded from a byte recipe (`Vec<u8>` drawn by proptest, or
//! the raw input of a libFuzzer target), so that one decoder serves seeded generation, shrinking
//! (shorter / smaller bytes decode to simpler cases: alternative 0 is always the simplest) and
//! coverage-guided fuzzing.

use crate::data::{mk1, mk2};
use crate::pool;
use chrono::{DateTime, SecondsFormat, TimeDelta, Utc};
use proptest::prelude::*;
use reval::expr::{Expr, Index};
use reval::value::Value;
use rust_decimal::Decimal;
use std::collections::BTreeMap;
use std::sync::OnceLock;

pub struct Dec<'a> {
    pub data: &'a [u8],
    pub pos: usize,
}

impl<'a> Dec<'a> {
    pub fn new(data: &'a [u8]) -> Self {
        Dec { data, pos: 0 }
    }
    pub fn exhausted(&self) -> bool {
        self.pos >= self.data.len()
    }
    pub fn byte(&mut self) -> u8 {
        let b = self.data.get(self.pos).copied().unwrap_or(0);
        self.pos += 1;
        b
    }
    /// uniform-ish in 0..n, monotone in the byte value (so shrinking bytes shrinks the choice)
    pub fn below(&mut self, n: usize) -> usize {
        debug_assert!(n > 0 && n <= 65536);
        if n <= 256 {
            (self.byte() as usize * n) >> 8
        } else {
            let v = ((self.byte() as usize) << 8) | self.byte() as usize;
            (v * n) >> 16
        }
    }
    pub fn bool(&mut self) -> bool {
        self.byte() >= 128
    }
    pub fn chance(&mut self, num: usize, den: usize) -> bool {
        self.below(den) >= den - num
    }
    pub fn u64(&mut self) -> u64 {
        let mut v = 0u64;
        for _ in 0..8 {
            v = (v << 8) | self.byte() as u64;
        }
        v
    }
    pub fn u128(&mut self) -> u128 {
        ((self.u64() as u128) << 64) | self.u64() as u128
    }
    pub fn pick<'b, T>(&mut self, xs: &'b [T]) -> &'b T {
        &xs[self.below(xs.len())]
    }
}

pub fn recipe(max_len: usize) -> impl Strategy<Value = Vec<u8>> {
    proptest::collection::vec(any::<u8>(), 0..max_len)
}

// ------------------------------------------------------------------------------------------
// values

#[derive(Clone, Copy, PartialEq, Eq, Debug)]
pub enum Ty {
    Any,
    Str,
    Int,
    Float,
    Dec,
    Bool,
    DateTime,
    Duration,
    Vec,
    Map,
    None,
}

pub const CONCRETE: [Ty; 10] =
    [Ty::Str, Ty::Int, Ty::Float, Ty::Dec, Ty::Bool, Ty::DateTime, Ty::Duration, Ty::Vec, Ty::Map, Ty::None];

struct Pools {
    ints: Vec<Value>,
    floats: Vec<Value>,
    decimals: Vec<Value>,
    strings: Vec<Value>,
    datetimes: Vec<Value>,
    durations: Vec<Value>,
    vecs: Vec<Value>,
    maps: Vec<Value>,
}

fn pools() -> &'static Pools {
    static P: OnceLock<Pools> = OnceLock::new();
    P.get_or_init(|| Pools {
        ints: pool::ints(),
        floats: pool::floats(),
        decimals: pool::decimals(),
        strings: pool::strings(),
        datetimes: pool::datetimes(),
        durations: pool::durations(),
        vecs: pool::vecs(),
        maps: pool::maps(),
    })
}

pub const KEYS: [&str; 8] = ["a", "b", "abc", "A", "facts", "a_", "aa", "k1"];

pub fn gen_int(d: &mut Dec) -> i128 {
    match d.below(6) {
        0 => d.below(41) as i128 - 20,
        1 => match d.pick(&pools().ints) {
            Value::Int(i) => *i,
            _ => unreachable!(),
        },
        2 => d.u64() as i64 as i128,
        3 => d.u128() as i128,
        4 => {
            // near a power of two
            let k = d.below(128) as u32;
            let base = if k == 127 { i128::MAX } else { 1i128 << k };
            let off = d.below(5) as i128 - 2;
            let v = base.saturating_add(off);
            if d.bool() {
                v
            } else {
                v.checked_neg().unwrap_or(i128::MIN)
            }
        }
        _ => (d.u64() % 100_000) as i128 - 50_000,
    }
}

pub fn gen_float(d: &mut Dec) -> f64 {
    match d.below(5) {
        0 => (d.below(81) as f64 - 40.0) / 4.0,
        1 => match d.pick(&pools().floats) {
            Value::Float(f) => *f,
            _ => unreachable!(),
        },
        2 => f64::from_bits(d.u64()),
        3 => {
            // integers near the i128 / i64 boundaries and large magnitudes
            let k = d.below(140) as i32;
            let s = if d.bool() { 1.0 } else { -1.0 };
            s * 2f64.powi(k) * (1.0 + d.below(4) as f64 / 4.0)
        }
        _ => (d.u64() % 2_000_000) as f64 / 1000.0 - 1000.0,
    }
}

pub fn gen_decimal(d: &mut Dec) -> Decimal {
    match d.below(5) {
        0 => Decimal::try_from_i128_with_scale(d.below(401) as i128 - 200, d.below(4) as u32).unwrap(),
        1 => match d.pick(&pools().decimals) {
            Value::Decimal(x) => *x,
            _ => unreachable!(),
        },
        2 => {
            let m = (d.u128() >> 32) as i128; // < 2^96
            let m = if d.bool() { m } else { -m };
            Decimal::try_from_i128_with_scale(m, d.below(29) as u32).unwrap()
        }
        3 => {
            // near the mantissa limit
            let m = ((1i128 << 96) - 1) - d.below(4) as i128;
            let m = if d.bool() { m } else { -m };
            Decimal::try_from_i128_with_scale(m, d.below(29) as u32).unwrap()
        }
        _ => Decimal::try_from_i128_with_scale((d.u64() % 10_000_000) as i128 - 5_000_000, d.below(7) as u32).unwrap(),
    }
}

pub fn gen_datetime(d: &mut Dec) -> DateTime<Utc> {
    match d.below(4) {
        0 => {
            let secs = 1_700_000_000i64 + d.below(65536) as i64 * 997;
            DateTime::<Utc>::from_timestamp(secs, 0).unwrap()
        }
        1 => match d.pick(&pools().datetimes) {
            Value::DateTime(x) => *x,
            _ => unreachable!(),
        },
        2 => {
            let span = (pool::LAST_TS - pool::FIRST_TS) as u64 + 1;
            let secs = pool::FIRST_TS + (d.u64() % span) as i64;
            let nanos = if d.bool() { (d.u64() % 1_000_000_000) as u32 } else { 0 };
            DateTime::<Utc>::from_timestamp(secs, nanos).unwrap()
        }
        _ => {
            let off = d.below(200) as i64;
            let secs = if d.bool() { pool::LAST_TS - off } else { pool::FIRST_TS + off };
            DateTime::<Utc>::from_timestamp(secs, 0).unwrap()
        }
    }
}

pub fn gen_duration(d: &mut Dec) -> TimeDelta {
    let dmax = i64::MAX / 1000;
    match d.below(4) {
        0 => TimeDelta::new(d.below(65536) as i64 * 61 - 1_000_000, 0).unwrap(),
        1 => match d.pick(&pools().durations) {
            Value::Duration(x) => *x,
            _ => unreachable!(),
        },
        2 => {
            let secs = (d.u64() % (2 * dmax as u64)) as i64 - dmax;
            let nanos = if d.bool() { (d.u64() % 1_000_000_000) as u32 } else { 0 };
            TimeDelta::new(secs, nanos).unwrap()
        }
        _ => {
            let off = d.below(200) as i64;
            let secs = if d.bool() { dmax - off } else { -dmax + off };
            TimeDelta::new(secs, 0).unwrap()
        }
    }
}

const UNI: [char; 36] = [
    'a', 'Z', '0', ' ', '_', '"', '\\', '\n', '\t', '\r', 'ß', 'é', 'Σ', 'σ', 'ǅ', 'İ', 'ı', '\u{a0}', '\u{2003}',
    '\u{85}', '\u{200b}', '😀', '\u{301}', '\u{0}', ';', '@', ':', '/', '\'', '}', '\u{201c}', '\u{201d}', '\u{2018}', '\u{ff02}', '\u{feff}', '\u{2029}',
];

pub fn gen_string(d: &mut Dec) -> String {
    if d.below(40) == 39 {
        // long text: ASCII prefix of 0..3 characters, then 100..300 two- or three-byte characters
        let pre = d.below(4);
        let n = 100 + d.below(200);
        let c = *d.pick(&['é', '€', 'ß']);
        return format!("{}{}", "x".repeat(pre), c.to_string().repeat(n));
    }
    match d.below(8) {
        0 => {
            let n = d.below(5);
            (0..n).map(|_| (b'a' + d.below(4) as u8) as char).collect()
        }
        7 => {
            // lines: CR LF, LF and CR endings inside one text
            let n = 1 + d.below(3);
            (0..n).map(|i| format!("l{i}{}", *d.pick(&["\r\n", "\n", "\r", "\r\n\r\n", "\n\r"]))).collect()
        }
        1 => match d.pick(&pools().strings) {
            Value::String(x) => x.clone(),
            _ => unreachable!(),
        },
        2 => gen_int(d).to_string(),
        3 => {
            let f = gen_float(d);
            if d.bool() {
                format!("{f}")
            } else {
                format!("{f:e}")
            }
        }
        4 => gen_decimal(d).to_string(),
        5 => {
            let dt = gen_datetime(d);
            // strict RFC 3339 (years outside 0..=9999 are not expressible in RFC 3339)
            let secs = dt.timestamp().clamp(-30_610_224_000, 253_402_300_799);
            let dt = DateTime::<Utc>::from_timestamp(secs, dt.timestamp_subsec_nanos()).unwrap();
            let text = dt.to_rfc3339_opts(SecondsFormat::AutoSi, d.bool());
            // sometimes one character of the text is replaced by a sign, blank or punctuation mark (almost always no
            // date-time any more; whatever the type's own reader says)
            if d.below(8) == 7 {
                let mut cs: Vec<char> = text.chars().collect();
                let at = d.below(cs.len());
                cs[at] = *d.pick(&[' ', '+', '-', '.', '/', ',', ':', '0', 'O', '\u{a0}']);
                return cs.into_iter().collect();
            }
            // sometimes one of the relaxed spellings chrono's reader documents
            match d.below(10) {
                0 => text.replace('T', " "),
                1 => text.replace('T', "t").replace('Z', "z"),
                2 => format!(" {text} "),
                3 => text.replace("+00:00", "+0000").replace('Z', " +0000"),
                4 => text.replace('Z', " UTC"),
                5 => text.replace('T', "  "),
                _ => text,
            }
        }
        _ => {
            let n = d.below(7);
            (0..n).map(|_| *d.pick(&UNI)).collect()
        }
    }
}

pub fn gen_value_of(d: &mut Dec, ty: Ty, depth: u32) -> Value {
    match ty {
        Ty::Any => {
            let t = *d.pick(&CONCRETE);
            gen_value_of(d, t, depth)
        }
        Ty::Str => Value::String(gen_string(d)),
        Ty::Int => Value::Int(gen_int(d)),
        Ty::Float => Value::Float(gen_float(d)),
        Ty::Dec => Value::Decimal(gen_decimal(d)),
        Ty::Bool => Value::Bool(d.bool()),
        Ty::DateTime => Value::DateTime(gen_datetime(d)),
        Ty::Duration => Value::Duration(gen_duration(d)),
        Ty::Vec => {
            if depth == 0 || d.below(4) == 0 {
                d.pick(&pools().vecs).clone()
            } else {
                let n = d.below(4);
                Value::Vec((0..n).map(|_| gen_value_of(d, Ty::Any, depth - 1)).collect())
            }
        }
        Ty::Map => {
            if depth == 0 || d.below(4) == 0 {
                d.pick(&pools().maps).clone()
            } else {
                let n = d.below(4);
                Value::Map(
                    (0..n)
                        .map(|_| (d.pick(&KEYS).to_string(), gen_value_of(d, Ty::Any, depth - 1)))
                        .collect(),
                )
            }
        }
        Ty::None => Value::None,
    }
}

pub fn gen_value(d: &mut Dec, depth: u32) -> Value {
    gen_value_of(d, Ty::Any, depth)
}

// ------------------------------------------------------------------------------------------
// facts: a map with typed fields (so typed expressions can reference them), or another shape

pub const TYPED_FIELDS: [(&str, Ty); 12] = [
    ("vs", Ty::Str),
    ("vi", Ty::Int),
    ("vj", Ty::Int),
    ("vf", Ty::Float),
    ("vd", Ty::Dec),
    ("vb", Ty::Bool),
    ("vt", Ty::DateTime),
    ("vu", Ty::Duration),
    ("vl", Ty::Vec),
    ("vm", Ty::Map),
    ("vn", Ty::None),
    ("vx", Ty::Any),
];

pub fn gen_facts(d: &mut Dec) -> Value {
    match d.below(8) {
        6 => Value::None,
        7 => gen_value(d, 2),
        _ => {
            let mut m = BTreeMap::new();
            for (name, ty) in TYPED_FIELDS {
                m.insert(name.to_string(), gen_value_of(d, ty, 2));
            }
            if d.bool() {
                m.insert("facts".into(), Value::Int(99));
            }
            Value::Map(m)
        }
    }
}

// ------------------------------------------------------------------------------------------
// expressions over all node kinds

#[derive(Clone, Debug)]
pub struct ExprCfg {
    /// names of functions that may be called (registered or not is the caller's business)
    pub fn_names: Vec<String>,
    pub sym_names: Vec<String>,
    /// probability (out of 8) that a node's children are drawn type-correct
    pub typed_weight: usize,
}

impl Default for ExprCfg {
    fn default() -> Self {
        ExprCfg {
            // duplicates weight the choice: unknown names are rare so that deep trees evaluate
            fn_names: ["fa", "fb", "fa", "fb", "fa", "fb", "fa", "nofn"].iter().map(|s| s.to_string()).collect(),
            sym_names: ["sa", "sb", "sa", "sb", "sa", "sb", "sa", "nosym"].iter().map(|s| s.to_string()).collect(),
            typed_weight: 5,
        }
    }
}

fn field_of(ty: Ty, d: &mut Dec) -> &'static str {
    let cands: Vec<&'static str> =
        TYPED_FIELDS.iter().filter(|(_, t)| *t == ty || ty == Ty::Any).map(|(n, _)| *n).collect();
    if cands.is_empty() {
        "vx"
    } else {
        cands[d.below(cands.len())]
    }
}

fn leaf(d: &mut Dec, want: Ty, cfg: &ExprCfg) -> Expr {
    match d.below(8) {
        0..=3 => Expr::Value(gen_value_of(d, want, 1)),
        4 | 5 => Expr::reff(field_of(want, d)),
        6 => match d.below(8) {
            0 => Expr::reff("facts"),
            1 => Expr::reff("missing"),
            2 | 3 | 4 => Expr::symbol(d.pick(&cfg.sym_names)),
            _ => Expr::index(Expr::reff("vm"), Index::Map(d.pick(&KEYS).to_string())),
        },
        _ => Expr::Value(gen_value_of(d, want, 2)),
    }
}

/// Operand types for which `kind` has a defined (non-None) cell producing `want`, if any.
fn typed_operands(kind: &str, d: &mut Dec) -> Vec<Ty> {
    let num = [Ty::Int, Ty::Float, Ty::Dec];
    match kind {
        "add" => match d.below(4) {
            0 => vec![Ty::DateTime, Ty::Duration],
            _ => {
                let t = *d.pick(&num);
                vec![t, t]
            }
        },
        "sub" => match d.below(6) {
            0 => vec![Ty::DateTime, Ty::Duration],
            1 => vec![Ty::DateTime, Ty::DateTime],
            2 => vec![Ty::Duration, Ty::Duration],
            _ => {
                let t = *d.pick(&num);
                vec![t, t]
            }
        },
        "mult" | "div" | "rem" => {
            let t = *d.pick(&num);
            vec![t, t]
        }
        "gt" | "gte" | "lt" | "lte" => {
            let t = *d.pick(&[Ty::Int, Ty::Float, Ty::Dec, Ty::DateTime, Ty::Duration]);
            vec![t, t]
        }
        "eq" | "neq" => {
            let t = *d.pick(&CONCRETE);
            vec![t, t]
        }
        "and" | "or" => vec![Ty::Bool, Ty::Bool],
        "bitand" | "bitor" | "bitxor" => {
            let t = *d.pick(&[Ty::Int, Ty::Bool]);
            vec![t, t]
        }
        "contains" => match d.below(4) {
            0 => vec![Ty::Map, Ty::Str],
            1 => vec![Ty::Vec, Ty::Any],
            2 => vec![Ty::Str, Ty::Str],
            _ => vec![Ty::Int, Ty::Int],
        },
        "not" => vec![Ty::Bool],
        "neg" => vec![*d.pick(&num)],
        "is_some" | "is_none" => vec![Ty::Any],
        "int" | "float" | "dec" => vec![*d.pick(&[Ty::Int, Ty::Float, Ty::Dec, Ty::Str])],
        "datetime" => vec![*d.pick(&[Ty::Str, Ty::Int, Ty::DateTime])],
        "duration" => vec![*d.pick(&[Ty::Int, Ty::Duration])],
        "uppercase" | "lowercase" | "trim" => vec![Ty::Str],
        "floor" | "round" | "fract" => vec![*d.pick(&[Ty::Float, Ty::Dec])],
        "year" | "month" => vec![Ty::DateTime],
        "week" => vec![*d.pick(&[Ty::Int, Ty::Duration])],
        "day" | "hour" | "minute" | "second" => vec![*d.pick(&[Ty::Int, Ty::DateTime, Ty::Duration])],
        _ => vec![Ty::Any, Ty::Any],
    }
}

/// Node kinds that can produce a value of type `want` (used to steer typed generation).
fn kinds_producing(want: Ty) -> &'static [&'static str] {
    match want {
        Ty::Int => &[
            "add", "sub", "mult", "div", "rem", "neg", "int", "bitand", "bitor", "bitxor", "year", "month", "week",
            "day", "hour", "minute", "second",
        ],
        Ty::Float => &["add", "sub", "mult", "div", "rem", "neg", "float", "floor", "round", "fract"],
        Ty::Dec => &["add", "sub", "mult", "div", "rem", "neg", "dec", "floor", "round", "fract"],
        Ty::Bool => &[
            "gt", "gte", "lt", "lte", "eq", "neq", "and", "or", "not", "is_some", "is_none", "contains", "bitand",
            "bitor", "bitxor",
        ],
        Ty::Str => &["uppercase", "lowercase", "trim"],
        Ty::DateTime => &["add", "sub", "datetime"],
        Ty::Duration => &["sub", "duration", "week", "day", "hour", "minute", "second"],
        _ => &[],
    }
}

/// Operand types of `kind` that yield `want` (best effort; falls back to `typed_operands`).
fn operands_for(kind: &str, want: Ty, d: &mut Dec) -> Vec<Ty> {
    match (kind, want) {
        ("add" | "sub" | "mult" | "div" | "rem", Ty::Int | Ty::Float | Ty::Dec) => vec![want, want],
        ("neg" | "floor" | "round" | "fract", Ty::Float | Ty::Dec) => vec![want],
        ("neg", Ty::Int) => vec![Ty::Int],
        ("bitand" | "bitor" | "bitxor", Ty::Int | Ty::Bool) => vec![want, want],
        ("add", Ty::DateTime) => vec![Ty::DateTime, Ty::Duration],
        ("sub", Ty::DateTime) => vec![Ty::DateTime, Ty::Duration],
        ("sub", Ty::Duration) => {
            if d.bool() {
                vec![Ty::DateTime, Ty::DateTime]
            } else {
                vec![Ty::Duration, Ty::Duration]
            }
        }
        ("week" | "day" | "hour" | "minute" | "second", Ty::Duration) => vec![Ty::Int],
        ("week", Ty::Int) => vec![Ty::Duration],
        ("day" | "hour" | "minute" | "second", Ty::Int) => vec![*d.pick(&[Ty::DateTime, Ty::Duration])],
        _ => typed_operands(kind, d),
    }
}

const ALL_KINDS: [&str; 39] = [
    "not", "neg", "is_some", "is_none", "int", "float", "dec", "datetime", "duration", "uppercase", "lowercase",
    "trim", "floor", "round", "fract", "year", "month", "week", "day", "hour", "minute", "second", "mult", "div", "rem",
    "add", "sub", "eq", "neq", "gt", "gte", "lt", "lte", "and", "or", "bitand", "bitor", "bitxor", "contains",
];

pub fn gen_expr(d: &mut Dec, want: Ty, depth: u32, cfg: &ExprCfg) -> Expr {
    if depth == 0 || d.exhausted() {
        return leaf(d, want, cfg);
    }
    let typed = d.below(8) < cfg.typed_weight;
    let want_here = if typed { want } else { Ty::Any };
    // structural node kinds
    match d.below(16) {
        0 | 1 => return leaf(d, want, cfg),
        2 => {
            let c = gen_expr(d, if typed { Ty::Bool } else { Ty::Any }, depth - 1, cfg);
            let t = gen_expr(d, want_here, depth - 1, cfg);
            let f = gen_expr(d, want_here, depth - 1, cfg);
            return Expr::iif(c, t, f);
        }
        3 => {
            if want == Ty::Vec || want == Ty::Any || !typed {
                let n = d.below(4);
                return Expr::Vec((0..n).map(|_| gen_expr(d, Ty::Any, depth - 1, cfg)).collect());
            }
            // index into a list literal holding the wanted type
            let n = 1 + d.below(3);
            let items: Vec<Expr> = (0..n).map(|_| gen_expr(d, want_here, depth - 1, cfg)).collect();
            let i = d.below(n + 1);
            return Expr::index(Expr::Vec(items), Index::Vec(i));
        }
        4 => {
            if want == Ty::Map || want == Ty::Any || !typed {
                let n = d.below(4);
                return Expr::Map(
                    (0..n).map(|_| (d.pick(&KEYS).to_string(), gen_expr(d, Ty::Any, depth - 1, cfg))).collect(),
                );
            }
            let key = d.pick(&KEYS).to_string();
            let mut m = BTreeMap::new();
            m.insert(key.clone(), gen_expr(d, want_here, depth - 1, cfg));
            let key2 = if d.below(4) == 0 { d.pick(&KEYS).to_string() } else { key };
            return Expr::index(Expr::Map(m), Index::Map(key2));
        }
        5 => {
            let inner = gen_expr(d, Ty::Any, depth - 1, cfg);
            return if d.bool() {
                Expr::index(inner, Index::Map(d.pick(&KEYS).to_string()))
            } else {
                Expr::index(inner, Index::Vec(d.below(4)))
            };
        }
        6 => {
            let a = gen_expr(d, Ty::Any, depth - 1, cfg);
            return Expr::func(d.pick(&cfg.fn_names).clone(), a);
        }
        _ => {}
    }
    let kind: &str = if typed {
        let ks = kinds_producing(want);
        if ks.is_empty() {
            *d.pick(&ALL_KINDS[..])
        } else {
            *d.pick(ks)
        }
    } else {
        *d.pick(&ALL_KINDS[..])
    };
    let ops = if typed { operands_for(kind, want, d) } else { vec![Ty::Any, Ty::Any] };
    if crate::data::UNARY_KINDS.contains(&kind) {
        mk1(kind, gen_expr(d, ops[0], depth - 1, cfg))
    } else {
        let a = gen_expr(d, ops[0], depth - 1, cfg);
        // now and then both operands are the very same expression
        if d.below(10) == 9 && ops.get(1).map(|t| *t == ops[0]).unwrap_or(true) {
            return mk2(kind, a.clone(), a);
        }
        let b = gen_expr(d, *ops.get(1).unwrap_or(&Ty::Any), depth - 1, cfg);
        mk2(kind, a, b)
    }
}

/// Decode an (expression, facts) pair from a recipe.
pub fn gen_case(bytes: &[u8], depth: u32, cfg: &ExprCfg) -> (Expr, Value) {
    let mut d = Dec::new(bytes);
    let want = *d.pick(&CONCRETE);
    let e = gen_expr(&mut d, want, depth, cfg);
    let facts = gen_facts(&mut d);
    (e, facts)
}

// ------------------------------------------------------------------------------------------
// the parser's image: trees that `Expr::parse` can produce (domain of C07 / C08 / C14 / C16)

pub const IMAGE_NAMES: [&str; 20] = [
    "a", "b", "abc", "x1", "a_b", "i", "f", "d", "inty", "i5x", "f1e", "truex", "nonex", "facts", "Z9", "in_", "ifx",
    "orx", "e", "x",
];

pub fn image_name(d: &mut Dec) -> String {
    d.pick(&IMAGE_NAMES).to_string()
}

pub fn image_literal(d: &mut Dec) -> Value {
    match d.below(8) {
        0 | 1 => Value::Int(gen_int(d)),
        2 => {
            let f = gen_float(d);
            Value::Float(if f.is_nan() { f64::INFINITY } else { f })
        }
        3 => Value::Decimal(gen_decimal(d)),
        4 => Value::String(gen_string(d)),
        5 => Value::Bool(d.bool()),
        6 => Value::None,
        _ => Value::Int(d.below(10) as i128),
    }
}

pub fn gen_image(d: &mut Dec, depth: u32) -> Expr {
    if depth == 0 || d.exhausted() {
        return match d.below(4) {
            0 => Expr::reff(image_name(d)),
            1 => Expr::symbol(image_name(d)),
            _ => Expr::Value(image_literal(d)),
        };
    }
    match d.below(48) {
        0 | 1 => Expr::Value(image_literal(d)),
        2 => Expr::reff(image_name(d)),
        3 => Expr::symbol(image_name(d)),
        4 | 5 => {
            let a = gen_image(d, depth - 1);
            Expr::func(image_name(d), a)
        }
        6 | 7 | 8 => {
            let a = gen_image(d, depth - 1);
            if d.bool() {
                Expr::index(a, Index::Map(image_name(d)))
            } else {
                let i = match d.below(4) {
                    0 => usize::MAX,
                    1 => d.u64() as usize,
                    _ => d.below(12),
                };
                Expr::index(a, Index::Vec(i))
            }
        }
        9 | 10 | 11 => {
            let c = gen_image(d, depth - 1);
            let t = gen_image(d, depth - 1);
            let f = gen_image(d, depth - 1);
            Expr::iif(c, t, f)
        }
        12 | 13 => {
            let n = d.below(4);
            Expr::Vec((0..n).map(|_| gen_image(d, depth - 1)).collect())
        }
        14 | 15 => {
            let n = d.below(4);
            Expr::Map((0..n).map(|_| (image_name(d), gen_image(d, depth - 1))).collect())
        }
        k => {
            let kind = ALL_KINDS[(k - 16) as usize % ALL_KINDS.len()];
            // weight binary kinds a bit more: precedence interactions live there
            let kind = if d.below(3) == 0 { *d.pick(&crate::data::BINARY_KINDS[..]) } else { kind };
            if crate::data::UNARY_KINDS.contains(&kind) {
                mk1(kind, gen_image(d, depth - 1))
            } else {
                let a = gen_image(d, depth - 1);
                let b = gen_image(d, depth - 1);
                mk2(kind, a, b)
            }
        }
    }
}
