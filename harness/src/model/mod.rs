pub mod eval;
pub mod lex;
pub mod parse;
pub mod print;
