pub mod eval;
