//! Reference parser: recursive descent, one function per level of the precedence table of C07,
//! with its own literal conversion routines. Returns trees built with reval's public constructors.

use super::lex::{lex, Tok};
use reval::expr::{Expr, Index};
use reval::value::Value;
use rust_decimal::Decimal;
use std::collections::BTreeMap;
use std::str::FromStr;

#[derive(Debug, Clone, PartialEq)]
pub enum PErr {
    /// lexical error
    Lex,
    /// syntax error at token index (== tokens.len() means "ran out of input")
    Syntax(usize),
    /// a literal token that does not denote a value (out of range, bad escape)
    Literal(usize),
    /// the text uses a corner the properties deliberately leave open (see DESIGN.md §5)
    Unspecified,
}

pub type PRes<T> = Result<T, PErr>;

// ------------------------------------------------------------------------------------------
// literal conversion (own routines)

pub fn int_from_digits(s: &str, radix: u32, negative: bool) -> Option<i128> {
    if s.is_empty() {
        return None;
    }
    let mut acc: i128 = 0;
    for c in s.chars() {
        let d = c.to_digit(radix)? as i128;
        acc = acc.checked_mul(radix as i128)?;
        acc = if negative { acc.checked_sub(d)? } else { acc.checked_add(d)? };
    }
    Some(acc)
}

pub fn conv_int(raw: &str) -> Option<i128> {
    let body = &raw[1..];
    let (neg, digits) = match body.as_bytes().first() {
        Some(b'-') => (true, &body[1..]),
        Some(b'+') => (false, &body[1..]),
        _ => (false, body),
    };
    int_from_digits(digits, 10, neg)
}

pub fn conv_radix(raw: &str, radix: u32) -> Option<i128> {
    int_from_digits(&raw[2..], radix, false)
}

pub fn conv_float(raw: &str) -> Option<f64> {
    f64::from_str(&raw[1..]).ok()
}

/// Exact decimal conversion when the literal fits (mantissa < 2^96, at most 28 fractional digits);
/// otherwise defers to the decimal library's own parser (rounding / range rules are the type's own).
pub fn conv_decimal(raw: &str) -> Option<Decimal> {
    let body = &raw[1..];
    let (neg, rest) = match body.as_bytes().first() {
        Some(b'-') => (true, &body[1..]),
        Some(b'+') => (false, &body[1..]),
        _ => (false, body),
    };
    let (ip, fp) = match rest.find('.') {
        Some(p) => (&rest[..p], &rest[p + 1..]),
        None => (rest, ""),
    };
    if fp.len() <= 28 {
        let digits = format!("{ip}{fp}");
        if let Some(m) = int_from_digits(if digits.is_empty() { "0" } else { &digits }, 10, false) {
            if m < (1i128 << 96) {
                let m = if neg { -m } else { m };
                if let Ok(d) = Decimal::try_from_i128_with_scale(m, fp.len() as u32) {
                    let mut d = d;
                    if neg && m == 0 {
                        d.set_sign_negative(true);
                    }
                    return Some(d);
                }
            }
        }
    }
    Decimal::from_str(body).ok()
}

#[derive(Debug, PartialEq)]
pub enum Unesc {
    Ok(String),
    Bad,
    /// accepted-or-not is deliberately not asserted (unterminated \u{…, sign inside \u{…})
    Unspecified,
}

pub fn unescape(inner: &str) -> Unesc {
    let cs: Vec<char> = inner.chars().collect();
    let mut out = String::new();
    let mut i = 0;
    while i < cs.len() {
        let c = cs[i];
        if c != '\\' {
            out.push(c);
            i += 1;
            continue;
        }
        i += 1;
        if i >= cs.len() {
            return Unesc::Bad;
        }
        match cs[i] {
            'n' => out.push('\n'),
            'r' => out.push('\r'),
            't' => out.push('\t'),
            '\\' => out.push('\\'),
            '\'' => out.push('\''),
            '"' => out.push('"'),
            'u' => {
                if i + 1 >= cs.len() || cs[i + 1] != '{' {
                    return Unesc::Bad;
                }
                let start = i + 2;
                let mut j = start;
                while j < cs.len() && cs[j] != '}' {
                    j += 1;
                }
                if j >= cs.len() {
                    return Unesc::Unspecified;
                }
                let hex: String = cs[start..j].iter().collect();
                if hex.starts_with('+') || hex.starts_with('-') {
                    return Unesc::Unspecified;
                }
                if hex.is_empty() || !hex.chars().all(|c| c.is_ascii_hexdigit()) {
                    return Unesc::Bad;
                }
                let trimmed = hex.trim_start_matches('0');
                if trimmed.len() > 8 {
                    return Unesc::Bad;
                }
                let mut v: u32 = 0;
                for h in trimmed.chars() {
                    v = v * 16 + h.to_digit(16).unwrap();
                }
                // surrogates and values above 0x10FFFF denote no character
                if (0xD800..=0xDFFF).contains(&v) || v > 0x10FFFF {
                    return Unesc::Bad;
                }
                match char::from_u32(v) {
                    Some(ch) => out.push(ch),
                    None => return Unesc::Bad,
                }
                i = j;
            }
            _ => return Unesc::Bad,
        }
        i += 1;
    }
    Unesc::Ok(out)
}

// ------------------------------------------------------------------------------------------
// parser

const FUNC_KEYWORDS: [&str; 25] = [
    "int", "float", "dec", "date_time", "datetime", "duration", "is_some", "is_none", "some", "none", "to_upper",
    "to_lower", "uppercase", "lowercase", "trim", "round", "floor", "fract", "year", "month", "week", "day", "hour",
    "minute", "second",
];

fn func_node(kw: &str, e: Expr) -> Expr {
    match kw {
        "int" => Expr::int(e),
        "float" => Expr::float(e),
        "dec" => Expr::dec(e),
        "date_time" | "datetime" => Expr::datetime(e),
        "duration" => Expr::duration(e),
        "is_some" | "some" => Expr::some(e),
        "is_none" | "none" => Expr::none(e),
        "to_upper" | "uppercase" => Expr::uppercase(e),
        "to_lower" | "lowercase" => Expr::lowercase(e),
        "trim" => Expr::trim(e),
        "round" => Expr::round(e),
        "floor" => Expr::floor(e),
        "fract" => Expr::fract(e),
        "year" => Expr::year(e),
        "month" => Expr::month(e),
        "week" => Expr::week(e),
        "day" => Expr::day(e),
        "hour" => Expr::hour(e),
        "minute" => Expr::minute(e),
        "second" => Expr::second(e),
        _ => unreachable!(),
    }
}

pub struct P<'a> {
    pub toks: &'a [Tok],
    pub pos: usize,
    /// first literal-conversion failure met (reported only if the syntax is otherwise fine)
    pub literal_err: Option<usize>,
    pub unspecified: bool,
}

impl<'a> P<'a> {
    pub fn new(toks: &'a [Tok]) -> Self {
        P { toks, pos: 0, literal_err: None, unspecified: false }
    }
    fn peek(&self) -> Option<&Tok> {
        self.toks.get(self.pos)
    }
    fn is_fix(&self, s: &str) -> bool {
        matches!(self.peek(), Some(Tok::Fix(f)) if *f == s)
    }
    fn fix_in(&self, set: &[&'static str]) -> Option<&'static str> {
        match self.peek() {
            Some(Tok::Fix(f)) if set.contains(f) => Some(f),
            _ => None,
        }
    }
    fn expect(&mut self, s: &str) -> PRes<()> {
        if self.is_fix(s) {
            self.pos += 1;
            Ok(())
        } else {
            Err(PErr::Syntax(self.pos))
        }
    }
    fn ident(&mut self) -> PRes<String> {
        match self.peek() {
            Some(Tok::Ident(s)) => {
                let s = s.clone();
                self.pos += 1;
                Ok(s)
            }
            _ => Err(PErr::Syntax(self.pos)),
        }
    }

    pub fn expr(&mut self) -> PRes<Expr> {
        self.if_expr()
    }

    fn if_expr(&mut self) -> PRes<Expr> {
        if self.is_fix("if") {
            self.pos += 1;
            let c = self.if_expr()?;
            self.expect("then")?;
            let t = self.if_expr()?;
            self.expect("else")?;
            let f = self.if_expr()?;
            Ok(Expr::iif(c, t, f))
        } else {
            self.log_expr()
        }
    }

    fn log_expr(&mut self) -> PRes<Expr> {
        let mut l = self.eq_expr()?;
        while let Some(op) = self.fix_in(&["and", "or"]) {
            self.pos += 1;
            let r = self.eq_expr()?;
            l = if op == "and" { Expr::and(l, r) } else { Expr::or(l, r) };
        }
        Ok(l)
    }

    fn eq_expr(&mut self) -> PRes<Expr> {
        let mut l = self.add_expr()?;
        while let Some(op) = self.fix_in(&["=", "==", "!=", ">", "<", ">=", "<="]) {
            self.pos += 1;
            let r = self.add_expr()?;
            l = match op {
                "=" | "==" => Expr::eq(l, r),
                "!=" => Expr::neq(l, r),
                ">" => Expr::gt(l, r),
                "<" => Expr::lt(l, r),
                ">=" => Expr::gte(l, r),
                _ => Expr::lte(l, r),
            };
        }
        Ok(l)
    }

    fn add_expr(&mut self) -> PRes<Expr> {
        let mut l = self.mult_expr()?;
        while let Some(op) = self.fix_in(&["+", "-"]) {
            self.pos += 1;
            let r = self.mult_expr()?;
            l = if op == "+" { Expr::add(l, r) } else { Expr::sub(l, r) };
        }
        Ok(l)
    }

    fn mult_expr(&mut self) -> PRes<Expr> {
        let mut l = self.bit_expr()?;
        while let Some(op) = self.fix_in(&["*", "/", "%"]) {
            self.pos += 1;
            let r = self.bit_expr()?;
            l = match op {
                "*" => Expr::mult(l, r),
                "/" => Expr::div(l, r),
                _ => Expr::rem(l, r),
            };
        }
        Ok(l)
    }

    fn bit_expr(&mut self) -> PRes<Expr> {
        let mut l = self.contains_expr()?;
        while let Some(op) = self.fix_in(&["&", "|", "^"]) {
            self.pos += 1;
            let r = self.contains_expr()?;
            l = match op {
                "&" => Expr::bitwise_and(l, r),
                "|" => Expr::bitwise_or(l, r),
                _ => Expr::bitwise_xor(l, r),
            };
        }
        Ok(l)
    }

    fn contains_expr(&mut self) -> PRes<Expr> {
        if self.is_fix("-") || self.is_fix("!") {
            return self.unary_expr();
        }
        let l = self.index_expr()?;
        if let Some(op) = self.fix_in(&["contains", "in"]) {
            self.pos += 1;
            // the right operand is an index-level expression: no unary operator, no chaining
            if self.is_fix("-") || self.is_fix("!") {
                return Err(PErr::Syntax(self.pos));
            }
            let r = self.index_expr()?;
            return Ok(if op == "contains" { Expr::contains(l, r) } else { Expr::contains(r, l) });
        }
        Ok(l)
    }

    fn unary_expr(&mut self) -> PRes<Expr> {
        if self.is_fix("-") {
            self.pos += 1;
            Ok(Expr::neg(self.unary_expr()?))
        } else if self.is_fix("!") {
            self.pos += 1;
            Ok(Expr::not(self.unary_expr()?))
        } else {
            self.index_expr()
        }
    }

    fn index_expr(&mut self) -> PRes<Expr> {
        let mut e = self.term()?;
        while self.is_fix(".") {
            self.pos += 1;
            match self.peek() {
                Some(Tok::Ident(s)) => {
                    e = Expr::index(e, Index::Map(s.clone()));
                    self.pos += 1;
                }
                Some(Tok::Index(s)) => {
                    match s.parse::<usize>() {
                        Ok(i) => e = Expr::index(e, Index::Vec(i)),
                        Err(_) => {
                            self.literal_err.get_or_insert(self.pos);
                            e = Expr::index(e, Index::Vec(0));
                        }
                    }
                    self.pos += 1;
                }
                _ => return Err(PErr::Syntax(self.pos)),
            }
        }
        Ok(e)
    }

    fn call_arg(&mut self) -> PRes<Expr> {
        self.expect("(")?;
        let e = self.expr()?;
        self.expect(")")?;
        Ok(e)
    }

    fn lit<T>(&mut self, v: Option<T>, mk: impl Fn(T) -> Value, dummy: Value) -> Expr {
        let at = self.pos;
        self.pos += 1;
        match v {
            Some(x) => Expr::Value(mk(x)),
            None => {
                self.literal_err.get_or_insert(at);
                Expr::Value(dummy)
            }
        }
    }

    fn term(&mut self) -> PRes<Expr> {
        let t = match self.peek() {
            Some(t) => t.clone(),
            None => return Err(PErr::Syntax(self.pos)),
        };
        match t {
            Tok::Fix("(") => {
                self.pos += 1;
                let e = self.expr()?;
                self.expect(")")?;
                Ok(e)
            }
            Tok::Fix("[") => {
                self.pos += 1;
                let mut items = vec![];
                loop {
                    if self.is_fix("]") {
                        self.pos += 1;
                        return Ok(Expr::Vec(items));
                    }
                    items.push(self.expr()?);
                    if self.is_fix(",") {
                        self.pos += 1;
                    } else {
                        self.expect("]")?;
                        return Ok(Expr::Vec(items));
                    }
                }
            }
            Tok::Fix("{") => {
                self.pos += 1;
                let mut items = BTreeMap::new();
                loop {
                    if self.is_fix("}") {
                        self.pos += 1;
                        return Ok(Expr::Map(items));
                    }
                    let k = self.ident()?;
                    self.expect(":")?;
                    let v = self.expr()?;
                    items.insert(k, v);
                    if self.is_fix(",") {
                        self.pos += 1;
                    } else {
                        self.expect("}")?;
                        return Ok(Expr::Map(items));
                    }
                }
            }
            Tok::Fix(":") => {
                self.pos += 1;
                Ok(Expr::symbol(self.ident()?))
            }
            Tok::Fix("true") => {
                self.pos += 1;
                Ok(Expr::Value(Value::Bool(true)))
            }
            Tok::Fix("false") => {
                self.pos += 1;
                Ok(Expr::Value(Value::Bool(false)))
            }
            Tok::Fix("none") => {
                // literal unless applied to an argument
                if matches!(self.toks.get(self.pos + 1), Some(Tok::Fix("("))) {
                    self.pos += 1;
                    Ok(Expr::none(self.call_arg()?))
                } else {
                    self.pos += 1;
                    Ok(Expr::Value(Value::None))
                }
            }
            Tok::Fix(k) if FUNC_KEYWORDS.contains(&k) => {
                self.pos += 1;
                let a = self.call_arg()?;
                Ok(func_node(k, a))
            }
            Tok::Ident(name) => {
                self.pos += 1;
                if self.is_fix("(") {
                    let a = self.call_arg()?;
                    Ok(Expr::func(name, a))
                } else {
                    Ok(Expr::reff(name))
                }
            }
            Tok::Str(raw) => {
                let inner = &raw[1..raw.len() - 1];
                match unescape(inner) {
                    Unesc::Ok(s) => {
                        self.pos += 1;
                        Ok(Expr::Value(Value::String(s)))
                    }
                    Unesc::Bad => {
                        self.literal_err.get_or_insert(self.pos);
                        self.pos += 1;
                        Ok(Expr::Value(Value::String(String::new())))
                    }
                    Unesc::Unspecified => {
                        self.unspecified = true;
                        self.pos += 1;
                        Ok(Expr::Value(Value::String(String::new())))
                    }
                }
            }
            Tok::Int(raw) => Ok(self.lit(conv_int(&raw), Value::Int, Value::Int(0))),
            Tok::Hex(raw) => Ok(self.lit(conv_radix(&raw, 16), Value::Int, Value::Int(0))),
            Tok::Oct(raw) => Ok(self.lit(conv_radix(&raw, 8), Value::Int, Value::Int(0))),
            Tok::Bin(raw) => Ok(self.lit(conv_radix(&raw, 2), Value::Int, Value::Int(0))),
            Tok::Float(raw) => Ok(self.lit(conv_float(&raw), Value::Float, Value::Float(0.0))),
            Tok::Decimal(raw) => Ok(self.lit(conv_decimal(&raw), Value::Decimal, Value::Int(0))),
            _ => Err(PErr::Syntax(self.pos)),
        }
    }
}

/// Parse a token sequence as one expression (the whole sequence must be consumed).
pub fn parse_tokens(toks: &[Tok]) -> PRes<Expr> {
    let mut p = P::new(toks);
    let e = p.expr()?;
    if p.pos != toks.len() {
        return Err(PErr::Syntax(p.pos));
    }
    if p.unspecified {
        return Err(PErr::Unspecified);
    }
    if let Some(at) = p.literal_err {
        return Err(PErr::Literal(at));
    }
    Ok(e)
}

pub fn parse_expr(text: &str) -> PRes<Expr> {
    let toks = lex(text).map_err(|_| PErr::Lex)?;
    parse_tokens(&toks)
}

/// Syntax-only outcome of a token sequence: Ok / first bad token index (len = ran out of input).
pub fn syntax_outcome(toks: &[Tok]) -> Result<(), usize> {
    let mut p = P::new(toks);
    match p.expr() {
        Ok(_) if p.pos == toks.len() => Ok(()),
        Ok(_) => Err(p.pos),
        Err(PErr::Syntax(at)) => Err(at),
        Err(_) => Err(0),
    }
}

/// A rule text: metadata items, then the expression.
pub struct RuleParts {
    pub meta: Vec<(String, Expr)>,
    pub expr: Expr,
}

pub fn parse_rule_tokens(toks: &[Tok]) -> PRes<RuleParts> {
    let mut p = P::new(toks);
    let mut meta = vec![];
    while p.is_fix("@") {
        p.pos += 1;
        let k = p.ident()?;
        p.expect(":")?;
        let e = p.expr()?;
        p.expect(";")?;
        meta.push((k, e));
    }
    let e = p.expr()?;
    if p.pos != toks.len() {
        return Err(PErr::Syntax(p.pos));
    }
    if p.unspecified {
        return Err(PErr::Unspecified);
    }
    if let Some(at) = p.literal_err {
        return Err(PErr::Literal(at));
    }
    Ok(RuleParts { meta, expr: e })
}
