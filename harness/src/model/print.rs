//! Printers of the harness (not reval's `Display`): minimal / full / random parenthesisation with
//! alternative spellings, and pluggable layout (whitespace / comments between tokens).

use super::lex::{lex, Tok};
use crate::gen::Dec;
use reval::expr::{Expr, Index};
use reval::value::Value;

#[derive(Clone, Copy, PartialEq, Eq, Debug)]
pub enum Mode {
    Min,
    Full,
    Rand,
}

pub fn level(e: &Expr) -> u8 {
    use Expr as E;
    match e {
        E::If(..) => 0,
        E::And(..) | E::Or(..) => 1,
        E::Equals(..)
        | E::NotEquals(..)
        | E::GreaterThan(..)
        | E::GreaterThanEquals(..)
        | E::LessThan(..)
        | E::LessThanEquals(..) => 2,
        E::Add(..) | E::Sub(..) => 3,
        E::Mult(..) | E::Div(..) | E::Rem(..) => 4,
        E::BitAnd(..) | E::BitOr(..) | E::BitXor(..) => 5,
        E::Contains(..) => 6,
        E::Neg(..) | E::Not(..) => 7,
        E::Index(..) => 8,
        _ => 9,
    }
}

// ------------------------------------------------------------------------------------------
// literal spellings

pub fn int_text(v: i128) -> String {
    // own digit routine (does not use Display of i128)
    if v == 0 {
        return "i0".into();
    }
    let neg = v < 0;
    let mut digits = vec![];
    let mut x = v;
    while x != 0 {
        let d = (x % 10).unsigned_abs() as u8;
        digits.push((b'0' + d) as char);
        x /= 10;
    }
    let mut s = String::from("i");
    if neg {
        s.push('-');
    }
    s.extend(digits.iter().rev());
    s
}

pub fn radix_text(v: i128, radix: u32, upper: bool) -> String {
    assert!(v >= 0);
    let prefix = match radix {
        16 => "0x",
        8 => "0o",
        _ => "0b",
    };
    let mut digits = vec![];
    let mut x = v;
    if x == 0 {
        digits.push('0');
    }
    while x != 0 {
        let d = (x % radix as i128) as u32;
        let c = std::char::from_digit(d, radix).unwrap();
        digits.push(if upper { c.to_ascii_uppercase() } else { c });
        x /= radix as i128;
    }
    let mut s = String::from(prefix);
    s.extend(digits.iter().rev());
    s
}

pub fn float_text(f: f64, exp_form: bool) -> Option<String> {
    if f.is_nan() {
        return None;
    }
    if f.is_infinite() {
        return Some(if f > 0.0 { "f1e999".into() } else { "f-1e999".into() });
    }
    Some(if exp_form { format!("f{f:e}") } else { format!("f{f}") })
}

pub fn decimal_text(mantissa: i128, scale: u32, negative_zero: bool) -> String {
    let neg = mantissa < 0 || (mantissa == 0 && negative_zero);
    let mut digits: Vec<char> = mantissa.unsigned_abs().to_string().chars().collect();
    while digits.len() <= scale as usize {
        digits.insert(0, '0');
    }
    let mut s = String::from("d");
    if neg {
        s.push('-');
    }
    let split = digits.len() - scale as usize;
    s.extend(&digits[..split]);
    if scale > 0 {
        s.push('.');
        s.extend(&digits[split..]);
    }
    s
}

/// Render a string literal. `style(c)`: 0 = raw where legal, 1 = short escape where one exists,
/// 2 = \u{..} escape.
pub fn string_text(s: &str, mut style: impl FnMut(char) -> u8) -> String {
    let mut out = String::from("\"");
    for c in s.chars() {
        let st = style(c);
        let short = match c {
            '\n' => Some("\\n"),
            '\r' => Some("\\r"),
            '\t' => Some("\\t"),
            '\\' => Some("\\\\"),
            '\'' => Some("\\'"),
            '"' => Some("\\\""),
            _ => None,
        };
        let must_escape = c == '"' || c == '\\';
        match (st, short) {
            (2, _) => out.push_str(&format!("\\u{{{:x}}}", c as u32)),
            (1, Some(e)) => out.push_str(e),
            (_, Some(e)) if must_escape => out.push_str(e),
            _ => out.push(c),
        }
    }
    out.push('"');
    out
}

pub fn value_token(v: &Value, d: Option<&mut Dec>) -> Option<Tok> {
    let mut dummy = Dec::new(&[]);
    let rand = d.is_some();
    let d = d.unwrap_or(&mut dummy);
    Some(match v {
        Value::Int(i) => {
            if rand && *i >= 0 {
                match d.below(6) {
                    0 => Tok::Hex(radix_text(*i, 16, d.bool())),
                    1 => Tok::Oct(radix_text(*i, 8, false)),
                    2 => Tok::Bin(radix_text(*i, 2, false)),
                    3 => Tok::Int(int_text(*i).replacen('i', "i+", 1)),
                    _ => Tok::Int(int_text(*i)),
                }
            } else {
                Tok::Int(int_text(*i))
            }
        }
        Value::Float(f) => Tok::Float(float_text(*f, rand && d.bool())?),
        Value::Decimal(x) => Tok::Decimal(decimal_text(x.mantissa(), x.scale(), x.is_sign_negative())),
        Value::String(s) => {
            if rand {
                let mut styles: Vec<u8> = s.chars().map(|_| d.below(3) as u8).collect();
                styles.reverse();
                Tok::Str(string_text(s, |_| styles.pop().unwrap_or(0)))
            } else {
                Tok::Str(string_text(s, |c| if c == '\n' || c == '\r' || c == '\t' { 1 } else { 0 }))
            }
        }
        Value::Bool(true) => Tok::Fix("true"),
        Value::Bool(false) => Tok::Fix("false"),
        Value::None => Tok::Fix("none"),
        _ => return None,
    })
}

// ------------------------------------------------------------------------------------------
// expression printers

fn fix(s: &'static str) -> Tok {
    Tok::Fix(s)
}

pub struct Printer<'a, 'b> {
    pub mode: Mode,
    pub d: Option<&'a mut Dec<'b>>,
    pub out: Vec<Tok>,
    pub ok: bool,
}

impl Printer<'_, '_> {
    fn coin(&mut self, n: usize) -> bool {
        match &mut self.d {
            Some(d) if self.mode == Mode::Rand => d.below(n) == 0,
            _ => false,
        }
    }

    fn alias(&mut self, a: &'static str, b: &'static str) -> &'static str {
        if self.coin(2) {
            b
        } else {
            a
        }
    }

    pub fn at(&mut self, e: &Expr, min_level: u8) {
        let lv = level(e);
        let need = lv < min_level;
        let extra = match self.mode {
            Mode::Min => false,
            Mode::Full => lv < 9 || matches!(e, Expr::Function(..)),
            Mode::Rand => self.coin(5),
        };
        let depth = if need || extra { 1 + (self.mode == Mode::Rand && self.coin(6)) as usize } else { 0 };
        for _ in 0..depth {
            self.out.push(fix("("));
        }
        if depth > 0 {
            self.node(e);
        } else {
            self.node(e);
        }
        for _ in 0..depth {
            self.out.push(fix(")"));
        }
    }

    fn bin(&mut self, l: &Expr, op: &'static str, r: &Expr, lv: u8) {
        self.at(l, lv);
        self.out.push(fix(op));
        self.at(r, lv + 1);
    }

    fn call(&mut self, name: &'static str, a: &Expr) {
        self.out.push(fix(name));
        self.out.push(fix("("));
        self.at(a, 0);
        self.out.push(fix(")"));
    }

    fn node(&mut self, e: &Expr) {
        use Expr as E;
        match e {
            E::Value(v) => {
                let t = match (&mut self.d, self.mode) {
                    (Some(d), Mode::Rand) => value_token(v, Some(d)),
                    _ => value_token(v, None),
                };
                match t {
                    Some(t) => self.out.push(t),
                    None => self.ok = false,
                }
            }
            E::Reference(n) => self.out.push(Tok::Ident(n.clone())),
            E::Symbol(n) => {
                self.out.push(fix(":"));
                self.out.push(Tok::Ident(n.clone()));
            }
            E::Function(n, a) => {
                self.out.push(Tok::Ident(n.clone()));
                self.out.push(fix("("));
                self.at(a, 0);
                self.out.push(fix(")"));
            }
            E::Index(a, i) => {
                self.at(a, 8);
                self.out.push(fix("."));
                match i {
                    Index::Map(k) => self.out.push(Tok::Ident(k.clone())),
                    Index::Vec(n) => self.out.push(Tok::Index(n.to_string())),
                }
            }
            E::If(c, t, f) => {
                self.out.push(fix("if"));
                self.at(c, 0);
                self.out.push(fix("then"));
                self.at(t, 0);
                self.out.push(fix("else"));
                self.at(f, 0);
            }
            E::Vec(items) => {
                self.out.push(fix("["));
                for (i, x) in items.iter().enumerate() {
                    if i > 0 {
                        self.out.push(fix(","));
                    }
                    self.at(x, 0);
                }
                if !items.is_empty() && self.coin(3) {
                    self.out.push(fix(","));
                }
                self.out.push(fix("]"));
            }
            E::Map(items) => {
                self.out.push(fix("{"));
                for (i, (k, x)) in items.iter().enumerate() {
                    if i > 0 {
                        self.out.push(fix(","));
                    }
                    self.out.push(Tok::Ident(k.clone()));
                    self.out.push(fix(":"));
                    self.at(x, 0);
                }
                if !items.is_empty() && self.coin(3) {
                    self.out.push(fix(","));
                }
                self.out.push(fix("}"));
            }
            E::Not(a) => {
                self.out.push(fix("!"));
                self.at(a, 7);
            }
            E::Neg(a) => {
                self.out.push(fix("-"));
                self.at(a, 7);
            }
            E::And(l, r) => self.bin(l, "and", r, 1),
            E::Or(l, r) => self.bin(l, "or", r, 1),
            E::Equals(l, r) => {
                let op = self.alias("==", "=");
                self.bin(l, op, r, 2)
            }
            E::NotEquals(l, r) => self.bin(l, "!=", r, 2),
            E::GreaterThan(l, r) => self.bin(l, ">", r, 2),
            E::GreaterThanEquals(l, r) => self.bin(l, ">=", r, 2),
            E::LessThan(l, r) => self.bin(l, "<", r, 2),
            E::LessThanEquals(l, r) => self.bin(l, "<=", r, 2),
            E::Add(l, r) => self.bin(l, "+", r, 3),
            E::Sub(l, r) => self.bin(l, "-", r, 3),
            E::Mult(l, r) => self.bin(l, "*", r, 4),
            E::Div(l, r) => self.bin(l, "/", r, 4),
            E::Rem(l, r) => self.bin(l, "%", r, 4),
            E::BitAnd(l, r) => self.bin(l, "&", r, 5),
            E::BitOr(l, r) => self.bin(l, "|", r, 5),
            E::BitXor(l, r) => self.bin(l, "^", r, 5),
            E::Contains(c, i) => {
                if self.coin(2) {
                    self.at(i, 8);
                    self.out.push(fix("in"));
                    self.at(c, 8);
                } else {
                    self.at(c, 8);
                    self.out.push(fix("contains"));
                    self.at(i, 8);
                }
            }
            E::Some(a) => {
                let n = self.alias("is_some", "some");
                self.call(n, a)
            }
            E::None(a) => {
                let n = self.alias("is_none", "none");
                self.call(n, a)
            }
            E::Int(a) => self.call("int", a),
            E::Float(a) => self.call("float", a),
            E::Dec(a) => self.call("dec", a),
            E::DateTime(a) => {
                let n = self.alias("datetime", "date_time");
                self.call(n, a)
            }
            E::Duration(a) => self.call("duration", a),
            E::UpperCase(a) => {
                let n = self.alias("uppercase", "to_upper");
                self.call(n, a)
            }
            E::LowerCase(a) => {
                let n = self.alias("lowercase", "to_lower");
                self.call(n, a)
            }
            E::Trim(a) => self.call("trim", a),
            E::Floor(a) => self.call("floor", a),
            E::Round(a) => self.call("round", a),
            E::Fract(a) => self.call("fract", a),
            E::Year(a) => self.call("year", a),
            E::Month(a) => self.call("month", a),
            E::Week(a) => self.call("week", a),
            E::Day(a) => self.call("day", a),
            E::Hour(a) => self.call("hour", a),
            E::Minute(a) => self.call("minute", a),
            E::Second(a) => self.call("second", a),
        }
    }
}

/// Token sequence of `e`, or None when `e` contains a leaf with no literal spelling.
pub fn tokens(e: &Expr, mode: Mode, d: Option<&mut Dec>) -> Option<Vec<Tok>> {
    let mut p = Printer { mode, d, out: vec![], ok: true };
    p.at(e, 0);
    if p.ok {
        Some(p.out)
    } else {
        None
    }
}

// ------------------------------------------------------------------------------------------
// layout

const SEPARATORS: [&str; 28] = [
    // a comment ends at a line break and nowhere else (U+2028, U+2029, U+0085, form feed are not line breaks)
    "// c\u{2028}+ x\n", "// c\u{2029}y\n", "// \u{85} z \u{c} w\n", "//\u{2028}\r\n",
    // comments are free text: brackets, quotes and comment-like marks inside them mean nothing
    "// 1) first (see below\n", "// \"\n", "// ]}\n", "// it's /* not */ special\n", "// */\r\n", "//)\n",
    " ", "", " ", "\n", "\t", "  ", "\r\n", " \n ", "\u{a0}", "\u{2003}", "\u{85}", "\u{c}", "// c\n", " // if then (\n\t",
    "//\r\n", "\r", "// c\r", "//\r\r",
];

/// Join tokens with single spaces.
pub fn plain_text(toks: &[Tok]) -> String {
    toks.iter().map(|t| t.text()).collect::<Vec<_>>().join(" ")
}

/// Join tokens with generated separators; the result is guaranteed (by re-lexing with the
/// reference lexer) to denote exactly `toks`. Returns the text and whether a non-space separator or
/// comment was used.
pub fn layout(toks: &[Tok], d: &mut Dec) -> (String, bool) {
    let mut text = String::new();
    let mut fancy = false;
    let lead = d.below(4) == 0;
    if lead {
        let s = *d.pick(&SEPARATORS);
        text.push_str(s);
    }
    for (i, t) in toks.iter().enumerate() {
        if i > 0 {
            let s = *d.pick(&SEPARATORS);
            if s != " " && s != "  " {
                fancy = true;
            }
            text.push_str(s);
        }
        text.push_str(t.text());
    }
    if d.below(4) == 0 {
        text.push_str(*d.pick(&SEPARATORS));
    }
    match lex(&text) {
        Ok(back) if back == toks => (text, fancy),
        _ => (plain_text(toks), false),
    }
}

pub fn print_min(e: &Expr) -> Option<String> {
    tokens(e, Mode::Min, None).map(|t| plain_text(&t))
}

pub fn print_full(e: &Expr) -> Option<String> {
    tokens(e, Mode::Full, None).map(|t| plain_text(&t))
}
