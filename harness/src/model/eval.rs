//! Reference evaluator: the operator table of DESIGN.md §3.3, written from the property
//! statements. Independent dispatch / operand order / None rules / laziness / caching; only the
//! primitive arithmetic of std, rust_decimal and chrono is shared with the code under test.

use crate::data::{same_value, show_value};
use chrono::{DateTime, Datelike, TimeDelta, Timelike, Utc};
use reval::expr::{Expr, Index};
use reval::value::Value;
use rust_decimal::prelude::{FromPrimitive, ToPrimitive};
use rust_decimal::Decimal;
use std::collections::BTreeMap;
use std::str::FromStr;

#[derive(Clone, Debug, PartialEq)]
pub enum MErr {
    InvalidType,
    DivisionByZero,
    InvalidCast,
    OutOfBounds,
    /// The exact result lies outside the range of its type: any error is accepted, a value is not.
    AnyError,
    UnknownRef(String),
    /// identifier looked up in an input that is not a map: InvalidType or UnknownRef accepted
    RefOnNonMap(String),
    InvalidSymbol(String),
    UnknownUserFunction(String),
    UserFunctionError(String, String),
    /// The properties do not determine the outcome (e.g. i128::MIN % -1): anything but a panic.
    Ambiguous,
}

pub type MRes = Result<Value, MErr>;

/// Specification of an instrumented user function as the model sees it.
#[derive(Clone, Debug, Default)]
pub struct FnSpec {
    pub cacheable: bool,
    /// argument keys on which the function always fails
    pub fail_on: Vec<String>,
    /// the first `fail_first` invocations for each distinct argument fail (stateful across evaluations)
    pub fail_first: u32,
    /// 0 = never; otherwise the function answers `cacheable() == false` once it has been invoked this many times in total
    /// (any argument, across evaluations): a function may change its mind, and what it says at the time of a call counts
    pub uncacheable_after: u32,
}

pub fn arg_key(v: &Value) -> String {
    show_value(v)
}

/// What a probe answers: `[name, argument]` -- except for the argument "none" (alone, or last in a list such as
/// `[id, "none"]`), for which the answer is none (a successful result like any other).
pub fn probe_result(name: &str, arg: &Value) -> Value {
    let is_none_word = |v: &Value| matches!(v, Value::String(s) if s == "none");
    let none_answer = is_none_word(arg) || matches!(arg, Value::Vec(items) if items.len() >= 2 && items.last().map(is_none_word).unwrap_or(false));
    if none_answer {
        return Value::None;
    }
    Value::Vec(vec![Value::String(name.to_string()), arg.clone()])
}

/// The error a failing probe raises: for every other argument rendering it is one of the crate's own error values
/// wrapped in anyhow (the idiom `let n: i128 = param.try_into()?;`), otherwise a plain message.
pub fn probe_error(name: &str, key: &str) -> anyhow::Error {
    let msg = format!("probe {name} refuses {key}");
    // (a function written `let n: i128 = param.try_into()?` fails like this on a none argument)
    if key == "none" || key.ends_with(",none]") {
        return anyhow::Error::new(reval::Error::unexpected_val_type(reval::prelude::Value::None, "Value::Int"));
    }
    if key.len() % 2 == 1 {
        anyhow::Error::new(reval::Error::ValueSerializationError(msg))
    } else {
        anyhow::anyhow!(msg)
    }
}

pub fn probe_error_message(name: &str, key: &str) -> String {
    probe_error(name, key).to_string()
}

pub struct Env<'a> {
    pub facts: &'a Value,
    pub symbols: &'a BTreeMap<String, Value>,
    pub fns: &'a BTreeMap<String, FnSpec>,
    /// per-evaluation cache: (function, argument key) -> value
    pub cache: BTreeMap<(String, String), Value>,
    /// invocation log (function, argument key), in order
    pub log: Vec<(String, String)>,
    /// invocation counters per (function, argument key), persisting across evaluations
    pub counts: BTreeMap<(String, String), u32>,
}

impl<'a> Env<'a> {
    pub fn new(
        facts: &'a Value,
        symbols: &'a BTreeMap<String, Value>,
        fns: &'a BTreeMap<String, FnSpec>,
    ) -> Self {
        Env { facts, symbols, fns, cache: BTreeMap::new(), log: vec![], counts: BTreeMap::new() }
    }
}

pub fn empty_symbols() -> &'static BTreeMap<String, Value> {
    static E: std::sync::OnceLock<BTreeMap<String, Value>> = std::sync::OnceLock::new();
    E.get_or_init(BTreeMap::new)
}
pub fn empty_fns() -> &'static BTreeMap<String, FnSpec> {
    static E: std::sync::OnceLock<BTreeMap<String, FnSpec>> = std::sync::OnceLock::new();
    E.get_or_init(BTreeMap::new)
}

/// Evaluate with no functions and no symbols (the `Expr::evaluate` entry point).
pub fn eval_plain(e: &Expr, facts: &Value) -> MRes {
    let mut env = Env::new(facts, empty_symbols(), empty_fns());
    eval(e, &mut env)
}

/// one expression on its own with the given function table (fresh cache, no symbols)
pub fn eval_plain_with(e: &Expr, facts: &Value, fns: &BTreeMap<String, FnSpec>) -> MRes {
    let mut env = Env::new(facts, empty_symbols(), fns);
    eval(e, &mut env)
}

pub fn eval(e: &Expr, env: &mut Env) -> MRes {
    use Expr as E;
    match e {
        E::Value(v) => Ok(v.clone()),
        E::Reference(name) => {
            if name == "facts" {
                Ok(env.facts.clone())
            } else {
                match env.facts {
                    Value::Map(m) => m.get(name).cloned().ok_or_else(|| MErr::UnknownRef(name.clone())),
                    _ => Err(MErr::RefOnNonMap(name.clone())),
                }
            }
        }
        E::Symbol(name) => env.symbols.get(name).cloned().ok_or_else(|| MErr::InvalidSymbol(name.clone())),
        E::Index(inner, idx) => {
            let v = eval(inner, env)?;
            match (&v, idx) {
                (Value::None, _) => Ok(Value::None),
                (Value::Map(m), Index::Map(k)) => Ok(m.get(k).cloned().unwrap_or(Value::None)),
                (Value::Vec(l), Index::Vec(i)) => Ok(if *i < l.len() { l[*i].clone() } else { Value::None }),
                _ => Err(MErr::InvalidType),
            }
        }
        E::Function(name, param) => {
            let arg = match eval(param, env) {
                Ok(v) => v,
                Err(err) => {
                    // which error comes first when the function is also unknown is not stated
                    return if env.fns.contains_key(name) { Err(err) } else { Err(MErr::Ambiguous) };
                }
            };
            let spec = match env.fns.get(name) {
                Some(s) => s.clone(),
                None => return Err(MErr::UnknownUserFunction(name.clone())),
            };
            let key = (name.clone(), arg_key(&arg));
            let cacheable_now = spec.cacheable
                && (spec.uncacheable_after == 0 || env.counts.iter().filter(|((f, _), _)| f == name).map(|(_, c)| *c).sum::<u32>() < spec.uncacheable_after);
            if cacheable_now {
                if let Some(v) = env.cache.get(&key) {
                    return Ok(v.clone());
                }
            }
            env.log.push(key.clone());
            let n = env.counts.entry(key.clone()).or_insert(0);
            *n += 1;
            let fails = spec.fail_on.contains(&key.1) || *n <= spec.fail_first;
            if fails {
                return Err(MErr::UserFunctionError(name.clone(), probe_error_message(name, &key.1)));
            }
            let res = probe_result(name, &arg);
            if cacheable_now {
                env.cache.insert(key, res.clone());
            }
            Ok(res)
        }
        E::If(c, t, f) => match eval(c, env)? {
            Value::Bool(true) => eval(t, env),
            Value::Bool(false) => eval(f, env),
            _ => Err(MErr::InvalidType),
        },
        E::Map(m) => {
            let mut out = BTreeMap::new();
            for (k, x) in m.iter() {
                out.insert(k.clone(), eval(x, env)?);
            }
            Ok(Value::Map(out))
        }
        E::Vec(l) => {
            let mut out = Vec::with_capacity(l.len());
            for x in l {
                out.push(eval(x, env)?);
            }
            Ok(Value::Vec(out))
        }
        E::And(a, b) => match eval(a, env)? {
            Value::Bool(false) => Ok(Value::Bool(false)),
            Value::Bool(true) => match eval(b, env)? {
                Value::Bool(x) => Ok(Value::Bool(x)),
                _ => Err(MErr::InvalidType),
            },
            _ => Err(MErr::InvalidType),
        },
        E::Or(a, b) => match eval(a, env)? {
            Value::Bool(true) => Ok(Value::Bool(true)),
            Value::Bool(false) => match eval(b, env)? {
                Value::Bool(x) => Ok(Value::Bool(x)),
                _ => Err(MErr::InvalidType),
            },
            _ => Err(MErr::InvalidType),
        },
        E::Equals(a, b) => equality(a, b, env).map(Value::Bool),
        E::NotEquals(a, b) => equality(a, b, env).map(|x| Value::Bool(!x)),
        E::Some(a) => Ok(Value::Bool(!matches!(eval(a, env)?, Value::None))),
        E::None(a) => Ok(Value::Bool(matches!(eval(a, env)?, Value::None))),
        _ => {
            let (kind, children) = crate::data::node(e);
            match children.len() {
                1 => {
                    let a = eval(children[0], env)?;
                    unary(kind, a)
                }
                2 => {
                    let a = eval(children[0], env)?;
                    let b = eval(children[1], env)?;
                    binary(kind, a, b)
                }
                _ => unreachable!("node kind {kind}"),
            }
        }
    }
}

fn equality(a: &Expr, b: &Expr, env: &mut Env) -> Result<bool, MErr> {
    let l = eval(a, env)?;
    if matches!(l, Value::None) {
        return Ok(false);
    }
    let r = eval(b, env)?;
    Ok(structural_eq(&l, &r))
}

/// Equality of the language: same type and equal content; floats compare as IEEE numbers,
/// decimals as numbers; None equals nothing.
pub fn structural_eq(a: &Value, b: &Value) -> bool {
    match (a, b) {
        (Value::None, _) | (_, Value::None) => {
            // top-level None handled by callers; nested None inside lists compares equal to None
            matches!((a, b), (Value::None, Value::None))
        }
        (Value::String(x), Value::String(y)) => x == y,
        (Value::Int(x), Value::Int(y)) => x == y,
        (Value::Float(x), Value::Float(y)) => x == y,
        (Value::Decimal(x), Value::Decimal(y)) => x.cmp(y) == std::cmp::Ordering::Equal,
        (Value::Bool(x), Value::Bool(y)) => x == y,
        (Value::DateTime(x), Value::DateTime(y)) => x == y,
        (Value::Duration(x), Value::Duration(y)) => x == y,
        (Value::Vec(x), Value::Vec(y)) => x.len() == y.len() && x.iter().zip(y).all(|(p, q)| structural_eq(p, q)),
        (Value::Map(x), Value::Map(y)) => {
            x.len() == y.len() && x.iter().zip(y).all(|((k1, p), (k2, q))| k1 == k2 && structural_eq(p, q))
        }
        _ => false,
    }
}

const TWO_96: i128 = 1i128 << 96;

fn pow10(s: u32) -> i128 {
    10i128.pow(s)
}

fn dec_from_parts(m: i128, s: u32) -> Option<Decimal> {
    Decimal::try_from_i128_with_scale(m, s).ok()
}

/// The value is computed by the harness's own integer arithmetic (`own`); the library's result `lib` is returned when it
/// has the same numeric value, so that representation details the properties do not speak about (sign of a zero
/// result, scale) are the library's. A different numeric value is kept as computed here and shows up as a disagreement.
fn same_number_or_own(own: Option<Decimal>, lib: Decimal) -> MRes {
    match own {
        Some(o) if o == lib => Ok(Value::Decimal(lib)),
        Some(o) => Ok(Value::Decimal(o)),
        None => Err(MErr::AnyError),
    }
}

fn i64_of(i: i128) -> Option<i64> {
    if i >= i64::MIN as i128 && i <= i64::MAX as i128 {
        Some(i as i64)
    } else {
        None
    }
}

/// Int -> Duration constructor cells: representable -> value; fits i64 but not representable ->
/// the table's error `class`; does not fit i64 -> any error.
fn dur_from(i: i128, f: fn(i64) -> Option<TimeDelta>, class: MErr) -> MRes {
    match i64_of(i) {
        None => Err(MErr::AnyError),
        Some(n) => f(n).map(Value::Duration).ok_or(class),
    }
}

pub fn unary(kind: &str, a: Value) -> MRes {
    // None rule first: every strict unary operator maps None to None
    if matches!(a, Value::None) {
        return Ok(Value::None);
    }
    match (kind, a) {
        ("not", Value::Bool(b)) => Ok(Value::Bool(!b)),
        ("neg", Value::Int(i)) => i.checked_neg().map(Value::Int).ok_or(MErr::AnyError),
        ("neg", Value::Float(f)) => Ok(Value::Float(-f)),
        ("neg", Value::Decimal(d)) => Ok(Value::Decimal(-d)),

        ("int", Value::Int(i)) => Ok(Value::Int(i)),
        ("int", Value::Float(f)) => {
            let t = f.trunc();
            // exact bounds: -2^127 <= t < 2^127
            if t.is_nan() || t < -(2f64.powi(127)) || t >= 2f64.powi(127) {
                Err(MErr::AnyError)
            } else {
                Ok(Value::Int(t as i128))
            }
        }
        ("int", Value::Decimal(d)) => Ok(Value::Int(d.mantissa() / pow10(d.scale()))),
        ("int", Value::String(s)) => i128::from_str(&s).map(Value::Int).map_err(|_| MErr::InvalidCast),

        ("float", Value::Int(i)) => Ok(Value::Float(i as f64)),
        ("float", Value::Float(f)) => Ok(Value::Float(f)),
        ("float", Value::Decimal(d)) => d.to_f64().map(Value::Float).ok_or(MErr::InvalidCast),
        ("float", Value::String(s)) => f64::from_str(&s).map(Value::Float).map_err(|_| MErr::InvalidCast),

        ("dec", Value::Int(i)) => {
            if i > -TWO_96 && i < TWO_96 {
                dec_from_parts(i, 0).map(Value::Decimal).ok_or(MErr::AnyError)
            } else {
                Err(MErr::AnyError)
            }
        }
        ("dec", Value::Float(f)) => Decimal::from_f64(f).map(Value::Decimal).ok_or(MErr::InvalidCast),
        ("dec", Value::Decimal(d)) => Ok(Value::Decimal(d)),
        ("dec", Value::String(s)) => Decimal::from_str(&s).map(Value::Decimal).map_err(|_| MErr::InvalidCast),

        // like int / float / dec of a string: the target type's own text parser (chrono's `FromStr for DateTime<Utc>`, a
        // documented relaxed RFC 3339 reader) is the primitive; strict RFC 3339 texts are cross-checked against
        // `parse_from_rfc3339` by the generator's round trip (gen_string renders generated date-times itself)
        ("datetime", Value::String(s)) => s.parse::<DateTime<Utc>>().map(Value::DateTime).map_err(|_| MErr::InvalidCast),
        ("datetime", Value::Int(i)) => match i64_of(i) {
            None => Err(MErr::AnyError),
            Some(n) => DateTime::<Utc>::from_timestamp(n, 0).map(Value::DateTime).ok_or(MErr::InvalidCast),
        },
        ("datetime", Value::DateTime(d)) => Ok(Value::DateTime(d)),

        ("duration", Value::Int(i)) => dur_from(i, TimeDelta::try_seconds, MErr::InvalidCast),
        ("duration", Value::Duration(d)) => Ok(Value::Duration(d)),

        ("uppercase", Value::String(s)) => Ok(Value::String(s.chars().flat_map(char::to_uppercase).collect())),
        ("lowercase", Value::String(s)) => Ok(Value::String(s.to_lowercase())),
        ("trim", Value::String(s)) => {
            let cs: Vec<char> = s.chars().collect();
            let mut lo = 0;
            let mut hi = cs.len();
            while lo < hi && cs[lo].is_whitespace() {
                lo += 1;
            }
            while hi > lo && cs[hi - 1].is_whitespace() {
                hi -= 1;
            }
            Ok(Value::String(cs[lo..hi].iter().collect()))
        }

        ("floor", Value::Float(f)) => Ok(Value::Float(f.floor())),
        ("floor", Value::Decimal(d)) => {
            let q = d.mantissa().div_euclid(pow10(d.scale()));
            same_number_or_own(dec_from_parts(q, 0), d.floor())
        }
        ("round", Value::Float(f)) => {
            // half away from zero
            let t = f.trunc();
            let r = if (f - t).abs() >= 0.5 { t + f.signum() } else { t };
            // keep the sign of zero results (-0.4 rounds to -0.0)
            Ok(Value::Float(if r == 0.0 { 0.0f64.copysign(f) } else { r }))
        }
        ("round", Value::Decimal(d)) => {
            // half to even
            let p = pow10(d.scale());
            let m = d.mantissa();
            let q = m / p;
            let r = (m % p).abs();
            let away = match (2 * r).cmp(&p) {
                std::cmp::Ordering::Greater => true,
                std::cmp::Ordering::Equal => q % 2 != 0,
                std::cmp::Ordering::Less => false,
            };
            let q = if away { q + if m < 0 { -1 } else { 1 } } else { q };
            same_number_or_own(dec_from_parts(q, 0), d.round())
        }
        ("fract", Value::Float(f)) => Ok(Value::Float(f - f.trunc())),
        ("fract", Value::Decimal(d)) => {
            let r = d.mantissa() % pow10(d.scale());
            same_number_or_own(dec_from_parts(r, d.scale()), d.fract())
        }

        ("year", Value::DateTime(d)) => Ok(Value::Int(d.year() as i128)),
        ("month", Value::DateTime(d)) => Ok(Value::Int(d.month() as i128)),
        ("day", Value::DateTime(d)) => Ok(Value::Int(d.day() as i128)),
        ("hour", Value::DateTime(d)) => Ok(Value::Int(d.hour() as i128)),
        ("minute", Value::DateTime(d)) => Ok(Value::Int(d.minute() as i128)),
        ("second", Value::DateTime(d)) => Ok(Value::Int(d.second() as i128)),

        ("week", Value::Int(i)) => dur_from(i, TimeDelta::try_weeks, MErr::OutOfBounds),
        ("day", Value::Int(i)) => dur_from(i, TimeDelta::try_days, MErr::OutOfBounds),
        ("hour", Value::Int(i)) => dur_from(i, TimeDelta::try_hours, MErr::OutOfBounds),
        ("minute", Value::Int(i)) => dur_from(i, TimeDelta::try_minutes, MErr::OutOfBounds),
        ("second", Value::Int(i)) => dur_from(i, TimeDelta::try_seconds, MErr::OutOfBounds),

        // whole units toward zero, computed from seconds
        ("week", Value::Duration(d)) => Ok(Value::Int((d.num_seconds() / (7 * 86400)) as i128)),
        ("day", Value::Duration(d)) => Ok(Value::Int((d.num_seconds() / 86400) as i128)),
        ("hour", Value::Duration(d)) => Ok(Value::Int((d.num_seconds() / 3600) as i128)),
        ("minute", Value::Duration(d)) => Ok(Value::Int((d.num_seconds() / 60) as i128)),
        ("second", Value::Duration(d)) => Ok(Value::Int(d.num_seconds() as i128)),

        _ => Err(MErr::InvalidType),
    }
}

fn ordering(kind: &str, o: Option<std::cmp::Ordering>) -> bool {
    use std::cmp::Ordering::*;
    match (kind, o) {
        (_, None) => false,
        ("gt", Some(x)) => x == Greater,
        ("gte", Some(x)) => x != Less,
        ("lt", Some(x)) => x == Less,
        ("lte", Some(x)) => x != Greater,
        _ => unreachable!(),
    }
}

pub fn binary(kind: &str, a: Value, b: Value) -> MRes {
    let a_none = matches!(a, Value::None);
    let b_none = matches!(b, Value::None);
    match kind {
        "add" | "sub" | "mult" | "div" | "rem" | "bitand" | "bitor" | "bitxor" => {
            if a_none || b_none {
                return Ok(Value::None);
            }
        }
        "gt" | "gte" | "lt" | "lte" => {
            if a_none || b_none {
                return Ok(Value::Bool(false));
            }
        }
        "contains" => {
            if a_none {
                return Ok(Value::Bool(false));
            }
        }
        _ => unreachable!("binary kind {kind}"),
    }
    match (kind, a, b) {
        ("add", Value::Int(x), Value::Int(y)) => x.checked_add(y).map(Value::Int).ok_or(MErr::AnyError),
        ("sub", Value::Int(x), Value::Int(y)) => x.checked_sub(y).map(Value::Int).ok_or(MErr::AnyError),
        ("mult", Value::Int(x), Value::Int(y)) => x.checked_mul(y).map(Value::Int).ok_or(MErr::AnyError),
        ("div", Value::Int(x), Value::Int(y)) => {
            if y == 0 {
                Err(MErr::DivisionByZero)
            } else if x == i128::MIN && y == -1 {
                Err(MErr::AnyError)
            } else {
                // truncating division
                Ok(Value::Int(x / y))
            }
        }
        ("rem", Value::Int(x), Value::Int(y)) => {
            if y == 0 {
                Err(MErr::DivisionByZero)
            } else if x == i128::MIN && y == -1 {
                Err(MErr::Ambiguous)
            } else {
                Ok(Value::Int(x % y))
            }
        }
        ("add", Value::Float(x), Value::Float(y)) => Ok(Value::Float(x + y)),
        ("sub", Value::Float(x), Value::Float(y)) => Ok(Value::Float(x - y)),
        ("mult", Value::Float(x), Value::Float(y)) => Ok(Value::Float(x * y)),
        ("div", Value::Float(x), Value::Float(y)) => Ok(Value::Float(x / y)),
        ("rem", Value::Float(x), Value::Float(y)) => Ok(Value::Float(x % y)),

        ("add", Value::Decimal(x), Value::Decimal(y)) => x.checked_add(y).map(Value::Decimal).ok_or(MErr::AnyError),
        ("sub", Value::Decimal(x), Value::Decimal(y)) => x.checked_sub(y).map(Value::Decimal).ok_or(MErr::AnyError),
        ("mult", Value::Decimal(x), Value::Decimal(y)) => x.checked_mul(y).map(Value::Decimal).ok_or(MErr::AnyError),
        ("div", Value::Decimal(x), Value::Decimal(y)) => {
            if y.is_zero() {
                Err(MErr::DivisionByZero)
            } else {
                x.checked_div(y).map(Value::Decimal).ok_or(MErr::AnyError)
            }
        }
        ("rem", Value::Decimal(x), Value::Decimal(y)) => {
            if y.is_zero() {
                Err(MErr::DivisionByZero)
            } else {
                x.checked_rem(y).map(Value::Decimal).ok_or(MErr::AnyError)
            }
        }

        ("add", Value::DateTime(x), Value::Duration(y)) => {
            x.checked_add_signed(y).map(Value::DateTime).ok_or(MErr::AnyError)
        }
        ("sub", Value::DateTime(x), Value::Duration(y)) => {
            x.checked_sub_signed(y).map(Value::DateTime).ok_or(MErr::AnyError)
        }
        ("sub", Value::DateTime(x), Value::DateTime(y)) => Ok(Value::Duration(x.signed_duration_since(y))),
        ("sub", Value::Duration(x), Value::Duration(y)) => x.checked_sub(&y).map(Value::Duration).ok_or(MErr::AnyError),

        ("gt" | "gte" | "lt" | "lte", Value::Int(x), Value::Int(y)) => Ok(Value::Bool(ordering(kind, Some(x.cmp(&y))))),
        ("gt" | "gte" | "lt" | "lte", Value::Float(x), Value::Float(y)) => {
            Ok(Value::Bool(ordering(kind, x.partial_cmp(&y))))
        }
        ("gt" | "gte" | "lt" | "lte", Value::Decimal(x), Value::Decimal(y)) => {
            Ok(Value::Bool(ordering(kind, Some(x.cmp(&y)))))
        }
        ("gt" | "gte" | "lt" | "lte", Value::DateTime(x), Value::DateTime(y)) => {
            Ok(Value::Bool(ordering(kind, Some(x.cmp(&y)))))
        }
        ("gt" | "gte" | "lt" | "lte", Value::Duration(x), Value::Duration(y)) => {
            Ok(Value::Bool(ordering(kind, Some(x.cmp(&y)))))
        }

        ("bitand", Value::Int(x), Value::Int(y)) => Ok(Value::Int(x & y)),
        ("bitor", Value::Int(x), Value::Int(y)) => Ok(Value::Int(x | y)),
        ("bitxor", Value::Int(x), Value::Int(y)) => Ok(Value::Int(x ^ y)),
        ("bitand", Value::Bool(x), Value::Bool(y)) => Ok(Value::Bool(x && y)),
        ("bitor", Value::Bool(x), Value::Bool(y)) => Ok(Value::Bool(x || y)),
        ("bitxor", Value::Bool(x), Value::Bool(y)) => Ok(Value::Bool(x != y)),

        ("contains", Value::Map(m), Value::String(k)) => Ok(Value::Bool(m.keys().any(|x| *x == k))),
        ("contains", Value::Vec(l), item) => Ok(Value::Bool(l.iter().any(|x| structural_eq(x, &item)))),
        ("contains", Value::String(s), Value::String(t)) => Ok(Value::Bool(s.find(t.as_str()).is_some())),
        ("contains", Value::Int(x), Value::Int(y)) => Ok(Value::Bool(x & y != 0)),

        _ => Err(MErr::InvalidType),
    }
}

// ------------------------------------------------------------------------------------------
// comparing an implementation result with the model's

pub fn err_class(e: &reval::Error) -> String {
    use reval::Error as R;
    match e {
        R::InvalidFunctionName(n) => format!("InvalidFunctionName({n})"),
        R::DuplicateFunctionName(n) => format!("DuplicateFunctionName({n})"),
        R::DuplicateRuleName(n) => format!("DuplicateRuleName({n})"),
        R::ValueSerializationError(_) => "ValueSerializationError".into(),
        R::InvalidType => "InvalidType".into(),
        R::InvalidCast(..) => "InvalidCast".into(),
        R::NumericOverflow(_) => "NumericOverflow".into(),
        R::UnexpectedValueType(..) => "UnexpectedValueType".into(),
        R::UnknownRef(n) => format!("UnknownRef({n})"),
        R::UnknownIndex(n) => format!("UnknownIndex({n})"),
        R::UserFunctionError { function, error } => format!("UserFunctionError({function},{error})"),
        R::UnknownUserFunction(n) => format!("UnknownUserFunction({n})"),
        R::ValueOutOfBounds(..) => "ValueOutOfBounds".into(),
        R::DivisionByZero => "DivisionByZero".into(),
        R::InvalidSymbol(n) => format!("InvalidSymbol({n})"),
        // the crate may grow error variants: keep the harness compiling
        #[allow(unreachable_patterns)]
        other => format!("Other({other})"),
    }
}

pub fn show_actual(r: &Result<Value, reval::Error>) -> String {
    match r {
        Ok(v) => format!("Ok({})", show_value(v)),
        Err(e) => format!("Err({})", err_class(e)),
    }
}

pub fn show_model(r: &MRes) -> String {
    match r {
        Ok(v) => format!("Ok({})", show_value(v)),
        Err(e) => format!("Err({e:?})"),
    }
}

/// What kind of disagreement (if any) there is between implementation and model.
#[derive(Debug, PartialEq, Clone, Copy)]
pub enum Disagree {
    /// model says out of range -> must be an error, implementation returned a value (C01)
    SilentOverflow,
    /// both values, different
    WrongValue,
    /// model value, implementation error
    UnexpectedError,
    /// model error, implementation value
    MissingError,
    /// both errors, different class or payload
    WrongError,
}

pub fn compare(actual: &Result<Value, reval::Error>, model: &MRes) -> Option<Disagree> {
    compare_with(actual, model, false)
}

/// `strict_scale`: decimals must agree in mantissa and scale (used where values are echoed, not computed)
pub fn compare_with(actual: &Result<Value, reval::Error>, model: &MRes, strict_scale: bool) -> Option<Disagree> {
    use reval::Error as R;
    match (actual, model) {
        (_, Err(MErr::Ambiguous)) => None,
        (Ok(a), Ok(m)) => {
            if same_value(a, m, strict_scale) {
                None
            } else {
                Some(Disagree::WrongValue)
            }
        }
        (Err(_), Ok(_)) => Some(Disagree::UnexpectedError),
        (Ok(_), Err(MErr::AnyError)) => Some(Disagree::SilentOverflow),
        (Ok(_), Err(_)) => Some(Disagree::MissingError),
        (Err(a), Err(m)) => {
            let ok = match (a, m) {
                (_, MErr::AnyError) => true,
                (R::InvalidType, MErr::InvalidType) => true,
                (R::DivisionByZero, MErr::DivisionByZero) => true,
                (R::InvalidCast(..), MErr::InvalidCast) => true,
                (R::ValueOutOfBounds(..), MErr::OutOfBounds) => true,
                (R::UnknownRef(x), MErr::UnknownRef(y)) => x == y,
                (R::InvalidType, MErr::RefOnNonMap(_)) => true,
                (R::UnknownRef(x), MErr::RefOnNonMap(y)) => x == y,
                (R::InvalidSymbol(x), MErr::InvalidSymbol(y)) => x == y,
                (R::UnknownUserFunction(x), MErr::UnknownUserFunction(y)) => x == y,
                (R::UserFunctionError { function, error }, MErr::UserFunctionError(f, msg)) => {
                    function == f && error.to_string() == *msg
                }
                _ => false,
            };
            if ok {
                None
            } else {
                Some(Disagree::WrongError)
            }
        }
    }
}
