//! Reference lexer: hand-written maximal munch over the token classes of the rule language
//! (DESIGN.md §3.4), written from the statement of C08 and the token list, not from generated code.

#[derive(Clone, Debug, PartialEq, Eq, Hash)]
pub enum Tok {
    /// one of the fixed spellings (operators, keywords, punctuation, true/false)
    Fix(&'static str),
    /// raw text of the token including quotes / prefix
    Str(String),
    Int(String),
    Hex(String),
    Oct(String),
    Bin(String),
    Float(String),
    Decimal(String),
    Ident(String),
    Index(String),
}

impl Tok {
    pub fn text(&self) -> &str {
        match self {
            Tok::Fix(s) => s,
            Tok::Str(s)
            | Tok::Int(s)
            | Tok::Hex(s)
            | Tok::Oct(s)
            | Tok::Bin(s)
            | Tok::Float(s)
            | Tok::Decimal(s)
            | Tok::Ident(s)
            | Tok::Index(s) => s,
        }
    }
}

pub const OPERATORS: [&str; 17] =
    ["=", "==", "!=", ">", "<", ">=", "<=", "+", "-", "*", "/", "%", "!", "&", "|", "^", "@"];
pub const KEYWORDS: [&str; 32] = [
    "and", "or", "if", "then", "else", "is_some", "is_none", "none", "some", "int", "float", "dec", "contains", "in",
    "date_time", "datetime", "duration", "to_upper", "to_lower", "uppercase", "lowercase", "trim", "round", "floor",
    "fract", "year", "month", "week", "day", "hour", "minute", "second",
];
pub const PUNCT: [&str; 10] = [",", ":", ";", ".", "(", ")", "[", "]", "{", "}"];
pub const BOOLS: [&str; 2] = ["true", "false"];

pub fn fixed_spellings() -> Vec<&'static str> {
    let mut v: Vec<&'static str> = vec![];
    v.extend(OPERATORS);
    v.extend(KEYWORDS);
    v.extend(PUNCT);
    v.extend(BOOLS);
    v
}

/// Is `s` a word the lexer does not classify as an identifier (keyword, boolean, or literal-shaped)?
pub fn is_reserved_spelling(s: &str) -> bool {
    match lex(s) {
        Ok(toks) => !(toks.len() == 1 && matches!(toks[0], Tok::Ident(_))),
        Err(_) => true,
    }
}

fn is_digit(c: char) -> bool {
    c.is_ascii_digit()
}

fn run(cs: &[char], mut i: usize, f: impl Fn(char) -> bool) -> usize {
    while i < cs.len() && f(cs[i]) {
        i += 1;
    }
    i
}

/// `[+-]?[0-9]*\.?[0-9]+` starting at `i`; returns the end of the longest match.
fn number_body(cs: &[char], i: usize) -> Option<usize> {
    let mut p = i;
    if p < cs.len() && (cs[p] == '+' || cs[p] == '-') {
        p += 1;
    }
    let d1 = run(cs, p, is_digit);
    // digits '.' digits
    if d1 < cs.len() && cs[d1] == '.' {
        let d2 = run(cs, d1 + 1, is_digit);
        if d2 > d1 + 1 {
            return Some(d2);
        }
    }
    if d1 > p {
        Some(d1)
    } else {
        None
    }
}

#[derive(Debug, Clone, PartialEq, Eq)]
pub struct LexError {
    /// character offset of the first position at which no token matches
    pub at: usize,
}

/// Longest candidate token at position `i` (end offset, token), with tie-break
/// fixed spelling > literal pattern > identifier/index.
fn token_at(cs: &[char], i: usize) -> Option<(usize, Tok)> {
    let mut best: Option<(usize, u8, Tok)> = None; // (end, priority, tok)
    let mut offer = |end: usize, prio: u8, tok: Tok| {
        let better = match &best {
            None => true,
            Some((e, p, _)) => end > *e || (end == *e && prio > *p),
        };
        if better {
            best = Some((end, prio, tok));
        }
    };
    // fixed spellings
    for f in fixed_spellings() {
        let fc: Vec<char> = f.chars().collect();
        if i + fc.len() <= cs.len() && cs[i..i + fc.len()] == fc[..] {
            offer(i + fc.len(), 3, Tok::Fix(f));
        }
    }
    let c = cs[i];
    let text = |a: usize, b: usize| cs[a..b].iter().collect::<String>();
    // string
    if c == '"' {
        let mut p = i + 1;
        let mut end = None;
        while p < cs.len() {
            match cs[p] {
                '"' => {
                    end = Some(p + 1);
                    break;
                }
                '\\' => {
                    if p + 1 < cs.len() && cs[p + 1] != '\n' {
                        p += 2;
                    } else {
                        break;
                    }
                }
                _ => p += 1,
            }
        }
        if let Some(e) = end {
            offer(e, 2, Tok::Str(text(i, e)));
        }
    }
    // i-prefixed integer
    if c == 'i' {
        let mut p = i + 1;
        if p < cs.len() && (cs[p] == '+' || cs[p] == '-') {
            p += 1;
        }
        let e = run(cs, p, is_digit);
        if e > p {
            offer(e, 2, Tok::Int(text(i, e)));
        }
    }
    // radix integers
    if c == '0' && i + 1 < cs.len() {
        let (pred, mk): (Option<fn(char) -> bool>, fn(String) -> Tok) = match cs[i + 1] {
            'x' => (Some(|c: char| c.is_ascii_hexdigit()), Tok::Hex),
            'o' => (Some(|c: char| ('0'..='8').contains(&c)), Tok::Oct),
            'b' => (Some(|c: char| c == '0' || c == '1'), Tok::Bin),
            _ => (None, Tok::Hex),
        };
        if let Some(pred) = pred {
            let e = run(cs, i + 2, pred);
            if e > i + 2 {
                offer(e, 2, mk(text(i, e)));
            }
        }
    }
    // float
    if c == 'f' {
        if let Some(mut e) = number_body(cs, i + 1) {
            if e < cs.len() && (cs[e] == 'e' || cs[e] == 'E') {
                let mut p = e + 1;
                if p < cs.len() && (cs[p] == '+' || cs[p] == '-') {
                    p += 1;
                }
                let x = run(cs, p, is_digit);
                if x > p {
                    e = x;
                }
            }
            offer(e, 2, Tok::Float(text(i, e)));
        }
    }
    // decimal
    if c == 'd' {
        if let Some(e) = number_body(cs, i + 1) {
            offer(e, 2, Tok::Decimal(text(i, e)));
        }
    }
    // identifier
    if c.is_ascii_alphabetic() {
        let e = run(cs, i + 1, |c| c.is_ascii_alphanumeric() || c == '_');
        offer(e, 1, Tok::Ident(text(i, e)));
    }
    // index
    if is_digit(c) {
        let e = run(cs, i, is_digit);
        offer(e, 1, Tok::Index(text(i, e)));
    }
    best.map(|(e, _, t)| (e, t))
}

/// Skip whitespace runs (Unicode White_Space) and `//` comments. Returns the new position.
fn skip(cs: &[char], mut i: usize) -> usize {
    loop {
        let start = i;
        i = run(cs, i, |c| c.is_whitespace());
        if i + 1 < cs.len() && cs[i] == '/' && cs[i + 1] == '/' {
            i = run(cs, i + 2, |c| c != '\n' && c != '\r');
            i = run(cs, i, |c| c == '\n' || c == '\r');
        }
        if i == start {
            return i;
        }
    }
}

pub fn lex(input: &str) -> Result<Vec<Tok>, LexError> {
    let cs: Vec<char> = input.chars().collect();
    let mut out = vec![];
    let mut i = 0;
    loop {
        i = skip(&cs, i);
        if i >= cs.len() {
            return Ok(out);
        }
        match token_at(&cs, i) {
            Some((e, t)) => {
                out.push(t);
                i = e;
            }
            None => return Err(LexError { at: i }),
        }
    }
}

#[cfg(test)]
mod tests {
    use super::*;
    #[test]
    fn collisions() {
        assert_eq!(lex("int").unwrap(), vec![Tok::Fix("int")]);
        assert_eq!(lex("inty").unwrap(), vec![Tok::Ident("inty".into())]);
        assert_eq!(lex("i5").unwrap(), vec![Tok::Int("i5".into())]);
        assert_eq!(lex("i5x").unwrap(), vec![Tok::Ident("i5x".into())]);
        assert_eq!(lex("f1e").unwrap(), vec![Tok::Ident("f1e".into())]);
        assert_eq!(lex("f1e5").unwrap(), vec![Tok::Float("f1e5".into())]);
        assert_eq!(lex("f1.").unwrap(), vec![Tok::Float("f1".into()), Tok::Fix(".")]);
        assert_eq!(lex("f.5.6").unwrap(), vec![Tok::Float("f.5".into()), Tok::Fix("."), Tok::Index("6".into())]);
        assert_eq!(lex("0b12").unwrap(), vec![Tok::Bin("0b1".into()), Tok::Index("2".into())]);
        assert_eq!(lex("a//x\nb").unwrap(), vec![Tok::Ident("a".into()), Tok::Ident("b".into())]);
        assert_eq!(lex("a/ /b").unwrap().len(), 4);
        assert!(lex("#").is_err());
        assert!(lex("\"abc").is_err());
    }
}
