//! Run context shared by all property checks: tiers, seeds, panic capture, known findings,
//! evidence accumulation, violation/replay reporting, sharded parallel drivers.

use proptest::strategy::{Strategy, ValueTree};
use proptest::test_runner::{Config, RngSeed, TestCaseError, TestError, TestRunner};
use rayon::prelude::*;
use serde_json::{json, Value as J};
use std::cell::RefCell;
use std::collections::{BTreeMap, HashSet};
use std::hash::{Hash, Hasher};
use std::panic::{catch_unwind, AssertUnwindSafe};
use std::sync::atomic::{AtomicBool, AtomicU64, Ordering};
use std::sync::Mutex;
use std::time::Instant;

pub const SHARDS: u64 = 64;

#[derive(Clone, Copy, PartialEq, Eq, Debug)]
pub enum Tier {
    Quick,
    Thorough,
}

impl Tier {
    pub fn name(self) -> &'static str {
        match self {
            Tier::Quick => "quick",
            Tier::Thorough => "thorough",
        }
    }
    /// pick a size by tier
    pub fn pick<T>(self, quick: T, thorough: T) -> T {
        match self {
            Tier::Quick => quick,
            Tier::Thorough => thorough,
        }
    }
}

// ------------------------------------------------------------------------------------------
// panic capture

thread_local! {
    static LAST_PANIC: RefCell<Option<String>> = const { RefCell::new(None) };
    static CAPTURING: RefCell<u32> = const { RefCell::new(0) };
}

/// > 0 while some check expects panics on threads whose thread-locals may already be gone (keeps stderr quiet)
pub static QUIET_ALL: std::sync::atomic::AtomicUsize = std::sync::atomic::AtomicUsize::new(0);

pub fn install_panic_hook() {
    let default = std::panic::take_hook();
    std::panic::set_hook(Box::new(move |info| {
        // (try_with: a panic may be raised while this thread's thread-locals are being destroyed)
        let capturing = CAPTURING.try_with(|c| *c.borrow() > 0).unwrap_or(false) || QUIET_ALL.load(std::sync::atomic::Ordering::Relaxed) > 0;
        if capturing {
            let loc = info
                .location()
                .map(|l| format!("{}:{}", l.file(), l.line()))
                .unwrap_or_else(|| "?".into());
            let msg = if let Some(s) = info.payload().downcast_ref::<&str>() {
                s.to_string()
            } else if let Some(s) = info.payload().downcast_ref::<String>() {
                s.clone()
            } else {
                "<non-string panic>".into()
            };
            let _ = LAST_PANIC.try_with(|p| *p.borrow_mut() = Some(format!("{msg} @ {loc}")));
        } else {
            default(info);
        }
    }));
}

/// Run `f`, turning a panic into `Err("message @ file:line")`.
pub fn catch<T>(f: impl FnOnce() -> T) -> Result<T, String> {
    CAPTURING.with(|c| *c.borrow_mut() += 1);
    let r = catch_unwind(AssertUnwindSafe(f));
    CAPTURING.with(|c| *c.borrow_mut() -= 1);
    match r {
        Ok(v) => Ok(v),
        Err(_) => Err(LAST_PANIC
            .with(|p| p.borrow_mut().take())
            .unwrap_or_else(|| "panic".into())),
    }
}

/// `Expr::parse` under the panic boundary: None when the parser panicked (a matter for C06, not for the caller)
pub fn parse_guarded(text: &str) -> Option<Result<reval::prelude::Expr, String>> {
    catch(|| reval::prelude::Expr::parse(text)).ok().map(|r| r.map_err(|e| e.to_string()))
}

// ------------------------------------------------------------------------------------------
// minimal executor

/// Poll a future to completion with a no-op waker. `max_polls` bounds the number of `Pending`s.
pub fn block_on_bounded<F: std::future::Future>(fut: F, max_polls: usize) -> Option<F::Output> {
    let mut fut = std::pin::pin!(fut);
    let waker = std::task::Waker::noop();
    let mut cx = std::task::Context::from_waker(waker);
    for _ in 0..=max_polls {
        if let std::task::Poll::Ready(v) = fut.as_mut().poll(&mut cx) {
            return Some(v);
        }
    }
    None
}

pub fn block_on<F: std::future::Future>(fut: F) -> F::Output {
    block_on_bounded(fut, 1_000_000).expect("future did not complete within poll bound")
}

// ------------------------------------------------------------------------------------------
// issues, known findings

/// A disagreement between the implementation and the oracle on one case.
#[derive(Clone, Debug)]
pub struct Issue {
    /// signature: a stable, narrow classification of the failing case (used for known findings)
    pub sig: String,
    pub msg: String,
}

impl Issue {
    pub fn new(sig: impl Into<String>, msg: impl Into<String>) -> Self {
        Issue { sig: sig.into(), msg: msg.into() }
    }
}

pub type Verdict = Result<(), Issue>;

#[derive(Default, Debug)]
pub struct Known {
    /// (property, sig pattern, text). A pattern ending in `*` is a prefix match.
    pub known: Vec<(String, String, String)>,
}

impl Known {
    pub fn load(path: &str) -> Known {
        let mut k = Known::default();
        if let Ok(text) = std::fs::read_to_string(path) {
            for line in text.lines() {
                let line = line.trim();
                if let Some(rest) = line.strip_prefix("known:") {
                    let mut prop = String::new();
                    let mut sig = String::new();
                    let mut words = vec![];
                    for w in rest.split_whitespace() {
                        if let Some(p) = w.strip_prefix("property=") {
                            if prop.is_empty() {
                                prop = p.to_string();
                                continue;
                            }
                        }
                        if let Some(s) = w.strip_prefix("sig=") {
                            if sig.is_empty() {
                                sig = s.to_string();
                                continue;
                            }
                        }
                        words.push(w);
                    }
                    if !prop.is_empty() && !sig.is_empty() {
                        k.known.push((prop, sig, words.join(" ")));
                    }
                }
            }
        }
        k
    }

    pub fn lookup(&self, prop: &str, sig: &str) -> Option<&(String, String, String)> {
        self.known.iter().find(|(p, s, _)| {
            p == prop
                && (s == sig || (s.ends_with('*') && sig.starts_with(&s[..s.len() - 1])))
        })
    }
}

// ------------------------------------------------------------------------------------------
// evidence accumulation

#[derive(Default)]
pub struct Acc {
    pub evaluations: u64,
    pub nontrivial: u64,
    pub distinct: HashSet<u64>,
    pub classes: BTreeMap<String, u64>,
    pub samples: BTreeMap<String, Vec<String>>,
}

impl Acc {
    pub fn merge(&mut self, other: Acc) {
        self.evaluations += other.evaluations;
        self.nontrivial += other.nontrivial;
        self.distinct.extend(other.distinct);
        for (k, v) in other.classes {
            *self.classes.entry(k).or_default() += v;
        }
        for (k, v) in other.samples {
            let e = self.samples.entry(k).or_default();
            for s in v {
                if e.len() < 3 {
                    e.push(s);
                }
            }
        }
    }
    /// Record one executed case. `key` is a canonical rendering used for distinct counting.
    pub fn case(&mut self, class: &str, nontrivial: bool, key: impl FnOnce() -> String) {
        self.evaluations += 1;
        *self.classes.entry(class.to_string()).or_default() += 1;
        if nontrivial {
            self.nontrivial += 1;
            let k = key();
            let mut h = std::collections::hash_map::DefaultHasher::new();
            k.hash(&mut h);
            let hv = h.finish();
            if self.distinct.insert(hv) {
                let e = self.samples.entry(class.to_string()).or_default();
                if e.len() < 2 {
                    let mut k = k;
                    if k.len() > 400 {
                        let mut cut = 400;
                        while !k.is_char_boundary(cut) {
                            cut -= 1;
                        }
                        k.truncate(cut);
                        k.push('…');
                    }
                    e.push(k);
                }
            }
        }
    }
    /// Record a case without distinct hashing (cells distinct by construction).
    pub fn cell(&mut self, class: &str, nontrivial: bool) {
        self.evaluations += 1;
        *self.classes.entry(class.to_string()).or_default() += 1;
        if nontrivial {
            self.nontrivial += 1;
        }
    }
    pub fn sample(&mut self, class: &str, text: impl FnOnce() -> String) {
        let e = self.samples.entry(class.to_string()).or_default();
        if e.len() < 2 {
            e.push(text());
        }
    }
    pub fn bump(&mut self, class: &str, n: u64) {
        *self.classes.entry(class.to_string()).or_default() += n;
    }
}

pub struct PhaseReport {
    pub name: String,
    pub evaluations: u64,
    pub nontrivial: u64,
    pub distinct_nontrivial: u64,
    pub exhaustive: bool,
    pub wall_s: f64,
}

pub struct Ctx {
    pub prop: String,
    pub tier: Tier,
    pub seed: u64,
    pub known: Known,
    pub verif_dir: String,
    pub start: Instant,
    pub acc: Mutex<Acc>,
    pub distinct_by_construction: AtomicU64,
    pub phases: Mutex<Vec<PhaseReport>>,
    pub known_hits: Mutex<BTreeMap<String, (u64, String, String)>>,
    pub violations: Mutex<Vec<(String, J)>>,
    pub failed: AtomicBool,
    pub rule: Mutex<String>,
    pub assumptions: Mutex<Vec<String>>,
    pub extra: Mutex<BTreeMap<String, J>>,
    pub strict: bool,
}

impl Ctx {
    pub fn new(prop: &str, tier: Tier, seed: u64, verif_dir: &str) -> Ctx {
        Ctx {
            prop: prop.to_string(),
            tier,
            seed,
            known: Known::load(&format!("{verif_dir}/KNOWN_FINDINGS.txt")),
            verif_dir: verif_dir.to_string(),
            start: Instant::now(),
            acc: Mutex::new(Acc::default()),
            distinct_by_construction: AtomicU64::new(0),
            phases: Mutex::new(vec![]),
            known_hits: Mutex::new(BTreeMap::new()),
            violations: Mutex::new(vec![]),
            failed: AtomicBool::new(false),
            rule: Mutex::new(String::new()),
            assumptions: Mutex::new(vec![]),
            extra: Mutex::new(BTreeMap::new()),
            strict: false,
        }
    }

    pub fn set_rule(&self, s: &str) {
        *self.rule.lock().unwrap() = s.to_string();
    }
    pub fn assume(&self, s: &str) {
        self.assumptions.lock().unwrap().push(s.to_string());
    }
    pub fn extra(&self, k: &str, v: J) {
        self.extra.lock().unwrap().insert(k.to_string(), v);
    }

    /// Classify an issue: Ok(()) if it matches a known finding (recorded), Err(issue) if new.
    pub fn triage(&self, issue: Issue, case_text: &dyn Fn() -> String) -> Verdict {
        if !self.strict {
            if let Some((_, sig, text)) = self.known.lookup(&self.prop, &issue.sig) {
                let mut h = self.known_hits.lock().unwrap();
                let e = h
                    .entry(sig.clone())
                    .or_insert_with(|| (0, text.clone(), case_text()));
                e.0 += 1;
                return Ok(());
            }
        }
        Err(issue)
    }

    /// Record a violation with its replayable case.
    pub fn violation(&self, kind: &str, case: J, issue: &Issue) {
        self.failed.store(true, Ordering::SeqCst);
        let body = json!({
            "property": self.prop,
            "kind": kind,
            "case": case,
            "sig": issue.sig,
            "message": issue.msg,
            "seed": self.seed,
            "tier": self.tier.name(),
        });
        self.violations.lock().unwrap().push((kind.to_string(), body));
    }

    pub fn has_failed(&self) -> bool {
        self.failed.load(Ordering::SeqCst)
    }

    // --------------------------------------------------------------------------------------
    // drivers

    /// Exhaustive enumeration of `n` cells addressed by index, sharded over the rayon pool.
    /// `f(index, acc)` returns Err(issue) on a disagreement. The smallest failing index is reported.
    /// `kind` names the replay kind; `to_case(index)` gives the JSON of the failing case.
    pub fn enumerate(
        &self,
        phase: &str,
        n: u64,
        exhaustive: bool,
        f: impl Fn(u64, &mut Acc) -> Verdict + Sync,
        to_case: impl Fn(u64) -> J + Sync,
        kind: &str,
    ) {
        let t0 = Instant::now();
        let chunk = (n / (SHARDS * 8)).max(1);
        let nchunks = n.div_ceil(chunk);
        let results: Vec<(Acc, Option<(u64, Issue)>)> = (0..nchunks)
            .into_par_iter()
            .map(|c| {
                let mut acc = Acc::default();
                let mut fail = None;
                let lo = c * chunk;
                let hi = ((c + 1) * chunk).min(n);
                for i in lo..hi {
                    match f(i, &mut acc) {
                        Ok(()) => {}
                        Err(issue) => {
                            match self.triage(issue, &|| to_case(i).to_string()) {
                                Ok(()) => {}
                                Err(issue) => {
                                    fail = Some((i, issue));
                                    break;
                                }
                            }
                        }
                    }
                }
                (acc, fail)
            })
            .collect();
        let mut total = Acc::default();
        let mut first: Option<(u64, Issue)> = None;
        for (acc, fail) in results {
            total.merge(acc);
            if let Some((i, issue)) = fail {
                if first.as_ref().map(|(j, _)| i < *j).unwrap_or(true) {
                    first = Some((i, issue));
                }
            }
        }
        if let Some((i, issue)) = first {
            self.violation(kind, to_case(i), &issue);
        }
        self.finish_phase(phase, total, exhaustive, t0);
    }

    /// Seeded random generation with shrinking, sharded into SHARDS independent proptest runners.
    /// `check(case, acc)` must be deterministic. `acc` is `None` while shrinking.
    pub fn random<S>(
        &self,
        phase: &str,
        cases: u64,
        strategy: impl Fn() -> S + Sync,
        check: impl Fn(&S::Value, Option<&mut Acc>) -> Verdict + Sync,
        to_case: impl Fn(&S::Value) -> J + Sync,
        kind: &str,
    ) where
        S: Strategy,
        S::Value: Clone + std::fmt::Debug,
    {
        self.random_min(phase, cases, strategy, check, to_case, kind, None)
    }

    /// Like `random`, with an optional structural minimiser applied to the shrunk failing value:
    /// `minimize(value, issue, is_known)` returns the final replay JSON and issue.
    #[allow(clippy::too_many_arguments)]
    pub fn random_min<S>(
        &self,
        phase: &str,
        cases: u64,
        strategy: impl Fn() -> S + Sync,
        check: impl Fn(&S::Value, Option<&mut Acc>) -> Verdict + Sync,
        to_case: impl Fn(&S::Value) -> J + Sync,
        kind: &str,
        minimize: Option<&(dyn Fn(&S::Value, Issue, &dyn Fn(&Issue) -> bool) -> (J, Issue) + Sync)>,
    ) where
        S: Strategy,
        S::Value: Clone + std::fmt::Debug,
    {
        let t0 = Instant::now();
        let per = cases.div_ceil(SHARDS).max(1);
        let phase_hash = {
            let mut h = std::collections::hash_map::DefaultHasher::new();
            phase.hash(&mut h);
            self.prop.hash(&mut h);
            h.finish()
        };
        let results: Vec<(Acc, Option<(J, Issue)>)> = (0..SHARDS)
            .into_par_iter()
            .map(|shard| {
                let mut acc = Acc::default();
                let seed = self
                    .seed
                    .wrapping_mul(0x9E3779B97F4A7C15)
                    .wrapping_add(phase_hash)
                    .wrapping_add(shard.wrapping_mul(0xD1B54A32D192ED03));
                let config = Config {
                    cases: per as u32,
                    failure_persistence: None,
                    rng_seed: RngSeed::Fixed(seed),
                    max_shrink_iters: 4096,
                    max_global_rejects: 1 << 20,
                    ..Config::default()
                };
                let mut runner = TestRunner::new(config);
                let strat = strategy();
                let mut fail: Option<(J, Issue)> = None;
                for _ in 0..per {
                    let tree = match strat.new_tree(&mut runner) {
                        Ok(t) => t,
                        Err(_) => continue,
                    };
                    let case = tree.current();
                    let v = check(&case, Some(&mut acc));
                    if let Err(issue) = v {
                        match self.triage(issue, &|| to_case(&case).to_string()) {
                            Ok(()) => {}
                            Err(issue) => {
                                // shrink: keep simplifying while an *unknown* issue persists
                                let (small, small_issue) = shrink(tree, issue, &|c| {
                                    match check(c, None) {
                                        Ok(()) => None,
                                        Err(i) => {
                                            if !self.strict
                                                && self.known.lookup(&self.prop, &i.sig).is_some()
                                            {
                                                None
                                            } else {
                                                Some(i)
                                            }
                                        }
                                    }
                                });
                                fail = Some(match minimize {
                                    Some(m) => m(&small, small_issue, &|i: &Issue| {
                                        !self.strict && self.known.lookup(&self.prop, &i.sig).is_some()
                                    }),
                                    None => (to_case(&small), small_issue),
                                });
                                break;
                            }
                        }
                    }
                }
                (acc, fail)
            })
            .collect();
        let mut total = Acc::default();
        let mut first = None;
        for (acc, fail) in results {
            total.merge(acc);
            if first.is_none() {
                first = fail;
            }
        }
        if let Some((case, issue)) = first {
            self.violation(kind, case, &issue);
        }
        self.finish_phase(phase, total, false, t0);
    }

    /// A list of explicit cases (regressions, hand-picked), run sequentially.
    pub fn list<C>(
        &self,
        phase: &str,
        cases: &[C],
        check: impl Fn(&C, &mut Acc) -> Verdict,
        to_case: impl Fn(&C) -> J,
        kind: &str,
    ) {
        let t0 = Instant::now();
        let mut acc = Acc::default();
        for c in cases {
            if let Err(issue) = check(c, &mut acc) {
                if let Err(issue) = self.triage(issue, &|| to_case(c).to_string()) {
                    self.violation(kind, to_case(c), &issue);
                    break;
                }
            }
        }
        self.finish_phase(phase, acc, false, t0);
    }

    pub fn finish_phase(&self, phase: &str, acc: Acc, exhaustive: bool, t0: Instant) {
        let rep = PhaseReport {
            name: phase.to_string(),
            evaluations: acc.evaluations,
            nontrivial: acc.nontrivial,
            distinct_nontrivial: if acc.distinct.is_empty() { acc.nontrivial } else { acc.distinct.len() as u64 },
            exhaustive,
            wall_s: t0.elapsed().as_secs_f64(),
        };
        eprintln!(
            "[{}] phase {:<28} cases={:<10} nontrivial={:<10} distinct={:<10} {:.2}s{}",
            self.prop,
            rep.name,
            rep.evaluations,
            rep.nontrivial,
            rep.distinct_nontrivial,
            rep.wall_s,
            if exhaustive { " (exhaustive)" } else { "" }
        );
        if acc.distinct.is_empty() {
            self.distinct_by_construction
                .fetch_add(acc.nontrivial, Ordering::SeqCst);
        }
        self.phases.lock().unwrap().push(rep);
        self.acc.lock().unwrap().merge(acc);
    }

    // --------------------------------------------------------------------------------------
    // finishing: evidence file, known-finding lines, violation lines, exit code

    pub fn finish(&self) -> i32 {
        let acc = self.acc.lock().unwrap();
        let phases = self.phases.lock().unwrap();
        let known_hits = self.known_hits.lock().unwrap();
        let violations = self.violations.lock().unwrap();
        let distinct = acc.distinct.len() as u64 + self.distinct_by_construction.load(Ordering::SeqCst);
        let mut samples = vec![];
        for (class, v) in acc.samples.iter() {
            for s in v {
                if samples.len() < 40 {
                    samples.push(json!({"class": class, "case": s}));
                }
            }
        }
        let exhaustive_subspaces: Vec<J> = phases
            .iter()
            .filter(|p| p.exhaustive)
            .map(|p| json!({"phase": p.name, "cells": p.evaluations}))
            .collect();
        let mut coverage = json!({
            "evaluations": acc.evaluations,
            "distinct_nontrivial": distinct,
            "rule": *self.rule.lock().unwrap(),
            "samples": samples,
            "classes": acc.classes,
            "phases": phases.iter().map(|p| json!({
                "phase": p.name, "cases": p.evaluations, "nontrivial": p.nontrivial,
                "distinct_nontrivial": p.distinct_nontrivial, "exhaustive": p.exhaustive, "wall_s": (p.wall_s*100.0).round()/100.0
            })).collect::<Vec<_>>(),
            "exhaustive": false,
            "exhaustive_subspaces": exhaustive_subspaces,
            "known_finding_hits": known_hits.iter().map(|(sig,(n,text,example))| json!({
                "sig": sig, "hits": n, "what": text, "example": example
            })).collect::<Vec<_>>(),
        });
        for (k, v) in self.extra.lock().unwrap().iter() {
            coverage[k] = v.clone();
        }
        let evidence = json!({
            "property_id": self.prop,
            "tier": self.tier.name(),
            "seed": self.seed,
            "level": "exploration",
            "coverage": coverage,
            "assumptions": *self.assumptions.lock().unwrap(),
            "wall_s": (self.start.elapsed().as_secs_f64()*100.0).round()/100.0,
            "violations": violations.len(),
        });
        let dir = format!("{}/evidence", self.verif_dir);
        let _ = std::fs::create_dir_all(&dir);
        let path = format!("{dir}/{}.json", self.prop);
        std::fs::write(&path, serde_json::to_string_pretty(&evidence).unwrap() + "\n")
            .expect("write evidence");

        for (sig, (n, text, _)) in known_hits.iter() {
            println!("KNOWN-FINDING: property={} sig={} hits={} {}", self.prop, sig, n, text);
        }
        if violations.is_empty() {
            println!(
                "OK property={} tier={} seed={} cases={} distinct_nontrivial={} wall={:.1}s",
                self.prop,
                self.tier.name(),
                self.seed,
                acc.evaluations,
                distinct,
                self.start.elapsed().as_secs_f64()
            );
            0
        } else {
            let rdir = format!("{}/replays", self.verif_dir);
            let _ = std::fs::create_dir_all(&rdir);
            for (i, (kind, body)) in violations.iter().enumerate() {
                let path = format!("{rdir}/{}-{}-{}-{}.json", self.prop, kind, self.seed, i);
                std::fs::write(&path, serde_json::to_string_pretty(body).unwrap() + "\n")
                    .expect("write replay");
                println!("DETAIL property={} sig={} {}", self.prop, body["sig"].as_str().unwrap_or(""), body["message"].as_str().unwrap_or(""));
                println!("VIOLATION property={} replay={}", self.prop, path);
            }
            1
        }
    }
}

/// Shrink a failing value tree: standard proptest simplify/complicate loop.
fn shrink<T: ValueTree>(
    mut tree: T,
    issue: Issue,
    still_fails: &dyn Fn(&T::Value) -> Option<Issue>,
) -> (T::Value, Issue) {
    let mut best = tree.current();
    let mut best_issue = issue;
    let mut iters = 0;
    if !tree.simplify() {
        return (best, best_issue);
    }
    loop {
        iters += 1;
        if iters > 2000 {
            break;
        }
        let cur = tree.current();
        match still_fails(&cur) {
            Some(i) => {
                best = cur;
                best_issue = i;
                if !tree.simplify() {
                    break;
                }
            }
            None => {
                if !tree.complicate() {
                    break;
                }
            }
        }
    }
    (best, best_issue)
}

#[allow(dead_code)]
fn _unused(_: TestCaseError, _: TestError<u8>) {}

pub fn env_seed() -> u64 {
    match std::env::var("VERIF_SEED") {
        Ok(s) => {
            let s = s.trim();
            if let Some(h) = s.strip_prefix("0x") {
                u64::from_str_radix(h, 16).unwrap_or(0xC0FFEE)
            } else {
                s.parse::<u64>()
                    .or_else(|_| s.parse::<i64>().map(|v| v as u64))
                    .unwrap_or(0xC0FFEE)
            }
        }
        Err(_) => 0xC0FFEE,
    }
}
