fn main() {}
