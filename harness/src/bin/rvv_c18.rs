//! C18 — rulesets can be shared across threads and evaluated from any task.
//! This binary is the only code that requires Send/Sync of reval's types and futures: if it stops
//! compiling with an auto-trait error, ./check reports the violation (static half). The dynamic half
//! runs N concurrent evaluations of one shared ruleset on a multi-threaded runtime and on raw threads.

use reval::expr::Index;
use reval::prelude::*;
use reval::ruleset::Outcome;
use rvv::core::*;
use rvv::data::*;
use rvv::gen::{self, Dec};
use reval::expr::Index as Ix;
use rvv::model::eval as me;
use rvv::probe::{self, SetSpec};
use rvv::props::setcommon::*;
use serde_json::json;
use std::collections::BTreeMap;
use std::sync::atomic::{AtomicUsize, Ordering};
use std::sync::Arc;

// ---- static half ---------------------------------------------------------------------------

fn ss<T: Send + Sync>() {}
fn send<T: Send>(_: &T) {}

#[allow(dead_code)]
fn static_assertions() {
    ss::<RuleSet>();
    ss::<Rule>();
    ss::<Expr>();
    ss::<Value>();
    ss::<Symbols>();
    ss::<Index>();
    ss::<Outcome<'static>>();
    ss::<reval::Error>();
    ss::<reval::parse::Error>();
    ss::<Builder>();
    let rs: RuleSet = ruleset().build();
    let v = Value::None;
    let e = Expr::value(1);
    let shareable_input: u8 = 5;
    send(&e.evaluate(&v));
    send(&rs.evaluate_value(&v));
    send(&rs.evaluate(&shareable_input));
    send(&rs.evaluate(&v_serializable()));
}

#[derive(serde::Serialize)]
struct Facts {
    id: u32,
    names: Vec<String>,
}

fn v_serializable() -> Facts {
    Facts { id: 1, names: vec![] }
}

// ---- dynamic half --------------------------------------------------------------------------

type Outs = Vec<(String, Result<Value, String>)>;

fn detach(out: Vec<Outcome>) -> Outs {
    out.into_iter().map(|o| (o.rule.name().to_string(), o.value.map_err(|e| me::err_class(&e)))).collect()
}

fn same_outs(a: &Outs, b: &Outs) -> bool {
    a.len() == b.len()
        && a.iter().zip(b).all(|((n1, v1), (n2, v2))| {
            n1 == n2
                && match (v1, v2) {
                    (Ok(x), Ok(y)) => same_value(x, y, true),
                    (Err(x), Err(y)) => x == y,
                    _ => false,
                }
        })
}

#[derive(Clone, Debug)]
struct Case {
    spec: SetSpec,
    n: usize,
    raw_threads: bool,
    /// how often each thread / task evaluates its input in a row (contention)
    repeat: usize,
    /// seed of the per-evaluation inputs
    input_seed: u64,
    /// every evaluation gets the same input (equal function arguments in flight at the same time)
    same_input: bool,
    /// (tokio only) every other task is aborted while it is suspended; afterwards every input is evaluated again
    abort_half: bool,
}

/// every evaluation has its own input: an id plus typed fields with evaluation-specific values (strings that parse as
/// date-times, numbers, lists), so that concurrent evaluations convert / compute different things at the same time
fn facts_for(c: &Case, id: usize) -> Value {
    let id = if c.same_input { 0 } else { id };
    let mut bytes = vec![];
    let mut x = c.input_seed ^ (id as u64 + 1).wrapping_mul(0x9E3779B97F4A7C15);
    for _ in 0..40 {
        x ^= x << 13;
        x ^= x >> 7;
        x ^= x << 17;
        bytes.extend_from_slice(&x.to_le_bytes());
    }
    let mut d = Dec::new(&bytes);
    let mut m = match gen::gen_facts(&mut d) {
        Value::Map(m) => m,
        _ => BTreeMap::new(),
    };
    m.insert("id".into(), Value::Int(1000 + id as i128));
    m.insert("vi".into(), Value::Int(5 + id as i128));
    m.insert("word".into(), Value::String(format!("word{}", id % 40)));
    m.insert("when".into(), Value::String(format!("20{:02}-0{}-1{}T0{}:00:00Z", 10 + id % 80, 1 + id % 9, id % 9, id % 9)));
    Value::Map(m)
}

fn attributed(log: &[(String, String)], id: usize) -> Vec<(String, String)> {
    let marker = format!("[i{},", 1000 + id);
    let mut v: Vec<_> = log.iter().filter(|(_, a)| a.contains(&marker)).cloned().collect();
    v.sort();
    v
}

fn gen_case(bytes: &[u8]) -> Case {
    let mut d = Dec::new(bytes);
    let fns = gen_fns(&mut d, false);
    let nrules = 1 + d.below(4);
    let cfg = gen::ExprCfg { fn_names: vec!["fa".into(), "fb".into()], sym_names: vec!["nosym".into()], typed_weight: 7 };
    let mut rules: Vec<(String, Expr)> = (0..nrules)
        .map(|i| {
            let depth = 1 + d.below(3) as u32;
            (format!("r{i}"), gen_call_expr(&mut d, depth, true))
        })
        .collect();
    // rules over the built-ins: conversions of per-evaluation strings and numbers, lists, typed random trees
    let nb = d.below(4);
    for i in 0..nb {
        let e = match d.below(4) {
            0 => Expr::Vec(vec![
                Expr::datetime(Expr::reff("when")),
                Expr::year(Expr::datetime(Expr::reff("when"))),
                Expr::func("fa", Expr::Vec(vec![Expr::reff("id"), Expr::datetime(Expr::reff("when"))])),
                Expr::index(Expr::Vec(vec![Expr::reff("id"), Expr::reff("vi")]), Ix::Vec(1)),
            ]),
            1 => Expr::Vec(vec![Expr::reff("id"), Expr::func("fb", Expr::Vec(vec![Expr::reff("id"), Expr::reff("vs")])), Expr::reff("vi")]),
            _ => {
                let want = *d.pick(&gen::CONCRETE);
                gen::gen_expr(&mut d, want, 4, &cfg)
            }
        };
        rules.push((format!("b{i}"), e));
    }
    // symbols: a long list of strings (membership tests against symbol tables on a freshly built ruleset)
    let mut symbols = BTreeMap::new();
    let words: Vec<Value> = (0..40).map(|i| Value::String(format!("word{i}"))).collect();
    symbols.insert("words".to_string(), Value::Vec(words));
    symbols.insert("limit".to_string(), Value::Int(7));
    if d.bool() {
        rules.insert(0, ("member".to_string(), Expr::Vec(vec![
            Expr::contains(Expr::symbol("words"), Expr::reff("word")),
            Expr::contains(Expr::symbol("words"), Expr::value("nope".to_string())),
            Expr::gt(Expr::reff("vi"), Expr::symbol("limit")),
        ])));
    }
    let n = *d.pick(&[2usize, 4, 16]);
    Case {
        spec: SetSpec { rules, fns, symbols, suspend: 1 + d.below(3) as u32 },
        n,
        raw_threads: d.bool(),
        repeat: *d.pick(&[1usize, 1, 3, 20]),
        input_seed: d.u64(),
        // (after cancellations, whatever an abandoned evaluation left behind must not serve another one: with one common
        // input every later evaluation asks for exactly what the abandoned ones had computed)
        same_input: { let a = d.below(4) == 3; let b = d.below(4) == 3; a || b },
        abort_half: false,
    }
    .with_abort()
}

/// Large shared rulesets: (A) a few deeply nested rules evaluated by hundreds of tasks that are all in flight at once;
/// (B) a hundred rules with five call sites each over four functions, hammered by 8-16 threads.
fn heavy_cases(seed: u64) -> Vec<Case> {
    let call = |f: &str, k: i128| Expr::func(f, Expr::Vec(vec![Expr::reff("id"), Expr::value(k)]));
    let mut fns = BTreeMap::new();
    // (names that differ only by trailing digits: fa / fa1 / fa11)
    for (i, name) in ["fa", "fb", "fc", "fd", "fa1", "fa11"].iter().enumerate() {
        fns.insert(name.to_string(), me::FnSpec { cacheable: i % 2 == 0 || *name == "fd", fail_on: vec![], fail_first: 0, uncacheable_after: 0 });
    }
    let nest = |mut e: Expr, depth: usize| {
        for i in 0..depth {
            e = match i % 4 {
                0 => Expr::Vec(vec![e]),
                1 => Expr::iif(Expr::value(true), e, Expr::value(0)),
                2 => Expr::index(Expr::Vec(vec![Expr::value(0), e]), Ix::Vec(1)),
                _ => Expr::Map([("k".to_string(), e)].into_iter().collect()),
            };
        }
        e
    };
    let mut out = vec![];
    // (A)
    let rules_a: Vec<(String, Expr)> = vec![
        ("deep0".into(), nest(call("fa", 1), 12)),
        ("deep1".into(), nest(call("fb", 2), 10)),
        ("deep2".into(), nest(Expr::Vec(vec![call("fc", 3), call("fd", 4)]), 9)),
        ("names".into(), Expr::Vec(vec![call("fa1", 1), call("fa", 1), call("fa11", 1), call("fa1", 11), call("fa", 11)])),
    ];
    for (n, raw) in [(400usize, false), (96, true)] {
        out.push(Case {
            spec: SetSpec { rules: rules_a.clone(), fns: fns.clone(), symbols: BTreeMap::new(), suspend: 2 },
            n,
            raw_threads: raw,
            repeat: 1,
            input_seed: seed,
            same_input: n == 96,
            abort_half: false,
        });
    }
    // (B)
    let names = ["fa", "fb", "fc", "fd"];
    let rules_b: Vec<(String, Expr)> = (0..100usize)
        .map(|i| (format!("m{i}"), Expr::Vec((0..5usize).map(|j| call(names[(i * 7 + j * 3 + i / 4) % 4], (i * 5 + j) as i128)).collect())))
        .collect();
    for (n, raw) in [(8usize, true), (16, false), (16, true)] {
        out.push(Case {
            spec: SetSpec { rules: rules_b.clone(), fns: fns.clone(), symbols: BTreeMap::new(), suspend: 0 },
            n,
            raw_threads: raw,
            repeat: 25,
            input_seed: seed ^ 0x55,
            same_input: false,
            abort_half: false,
        });
    }
    out
}

impl Case {
    /// every cancellation case is a same-input case (decided from the input seed, so replay files carry it explicitly)
    fn with_abort(mut self) -> Self {
        if !self.raw_threads && self.input_seed % 3 == 0 {
            self.abort_half = true;
            self.same_input = true;
        }
        self
    }
}

/// Waits until one more call than `before` is being held by the probe. A scenario whose held evaluation never gets there
/// within the watchdog time cannot be judged: the run ends as inconclusive (exit 2), never as a violation.
async fn wait_parked(before: usize) {
    let started = std::time::Instant::now();
    while rvv::probe::PARKED.load(Ordering::SeqCst) <= before {
        tokio::task::yield_now().await;
        if started.elapsed().as_secs() > SCENARIO_WATCHDOG_SECS {
            inconclusive("the evaluation that was to be held suspended never reached its held call");
        }
    }
}

const SCENARIO_WATCHDOG_SECS: u64 = 600;

fn inconclusive(what: &str) -> ! {
    rvv::probe::PARK_RELEASE.store(true, Ordering::SeqCst);
    println!("INCONCLUSIVE property=C18 watchdog: {what} ({SCENARIO_WATCHDOG_SECS} s); no verdict");
    std::process::exit(2)
}

/// Runs a scenario under the watchdog.
async fn watched<T>(what: &str, f: impl std::future::Future<Output = T>) -> T {
    match tokio::time::timeout(std::time::Duration::from_secs(SCENARIO_WATCHDOG_SECS), f).await {
        Ok(v) => v,
        Err(_) => inconclusive(what),
    }
}

/// One evaluation is held suspended inside a user function while tens of thousands of other evaluations of the same
/// ruleset start and finish; when it is let go it must finish as if it had run alone (its own results, one invocation
/// per cacheable call).
fn check_parked(rt: &tokio::runtime::Runtime, others: usize, hold_ms: u64) -> Verdict {
    use rvv::probe::PARK_RELEASE;
    let call = |f: &str, x: Expr| Expr::func(f, Expr::Vec(vec![Expr::reff("id"), x]));
    let mut fns = BTreeMap::new();
    fns.insert("fa".to_string(), me::FnSpec { cacheable: true, fail_on: vec![], fail_first: 0, uncacheable_after: 0 });
    fns.insert("fc".to_string(), me::FnSpec { cacheable: true, fail_on: vec![], fail_first: 0, uncacheable_after: 0 });
    let rule = Expr::Vec(vec![
        call("fa", Expr::value(1)),
        Expr::iif(Expr::eq(Expr::reff("id"), Expr::value(1000)), call("fc", Expr::value("park".to_string())), Expr::value(0)),
        call("fa", Expr::value(1)),
        call("fc", Expr::value(2)),
    ]);
    let spec = SetSpec { rules: vec![("r".into(), rule)], fns, symbols: BTreeMap::new(), suspend: 1 };
    let facts = |id: i128| rvv::pool::map(&[("id", Value::Int(id))]);
    // baseline: the parked input alone, nothing held
    PARK_RELEASE.store(true, Ordering::SeqCst);
    let base = probe::build(&spec, true);
    let base_out = detach(rt.block_on(base.ruleset.evaluate_value(&facts(1000))).expect("evaluate_value"));
    let base_log = attributed(&base.log.lock().unwrap(), 0);
    let built = probe::build(&spec, true);
    let _ = &built.log;
    let rs = Arc::new(built.ruleset);
    PARK_RELEASE.store(false, Ordering::SeqCst);
    rvv::probe::PARK_ONCE.store(true, Ordering::SeqCst);
    let parked_before = rvv::probe::PARKED.load(Ordering::SeqCst);
    let (parked_out, others_ok) = rt.block_on(watched("the held-evaluation scenario did not finish", async {
        let rs1 = rs.clone();
        let parked = tokio::spawn(async move { detach(rs1.evaluate_value(&rvv::pool::map(&[("id", Value::Int(1000))])).await.expect("evaluate_value")) });
        // wait until it is really parked (it has made its first two calls and the second one is being held)
        wait_parked(parked_before).await;
        let rs2 = rs.clone();
        let runner = tokio::spawn(async move {
            let f = rvv::pool::map(&[("id", Value::Int(1001))]);
            let mut ok = true;
            let mut first: Option<Outs> = None;
            for _ in 0..others {
                let o = detach(rs2.evaluate_value(&f).await.expect("evaluate_value"));
                match &first {
                    None => first = Some(o),
                    Some(w) => ok &= same_outs(w, &o),
                }
            }
            ok
        });
        let started = std::time::Instant::now();
        let others_ok = runner.await.unwrap_or(false);
        // (optionally the evaluation stays held for a while longer, with a trickle of other evaluations starting meanwhile)
        while (started.elapsed().as_millis() as u64) < hold_ms {
            tokio::time::sleep(std::time::Duration::from_millis(2)).await;
            let _ = rs.evaluate_value(&rvv::pool::map(&[("id", Value::Int(1002))])).await;
        }
        PARK_RELEASE.store(true, Ordering::SeqCst);
        (parked.await.ok(), others_ok)
    }));
    PARK_RELEASE.store(true, Ordering::SeqCst);
    let mine = attributed(&built.log.lock().unwrap(), 0);
    let describe = |o: &Outs| o.iter().map(|(n, v)| format!("{n}={}", v.as_ref().map(show_value).unwrap_or_else(|e| format!("Err({e})")))).collect::<Vec<_>>();
    match parked_out {
        Some(out) if same_outs(&out, &base_out) && mine == base_log && others_ok => Ok(()),
        other => Err(Issue::new(
            "threads:parked-evaluation",
            format!(
                "an evaluation held suspended while {others} other evaluations of the shared ruleset ran gives {:?} with invocations {:?}; alone {:?} with {:?}; the other evaluations agreed among themselves: {others_ok}",
                other.as_ref().map(describe),
                mine,
                describe(&base_out),
                base_log
            ),
        )),
    }
}

#[derive(serde::Serialize)]
struct Order {
    total: u32,
}

/// (the only field sits at the address of the struct itself)
#[derive(serde::Serialize)]
#[repr(C)]
struct Message {
    order: Order,
}

/// `evaluate(&T)` of a struct, held suspended, while `evaluate(&T.field)` of its first field (same address, other type) and
/// of an unrelated value run on the same ruleset: every evaluation sees its own input.
fn check_same_address_inputs(rt: &tokio::runtime::Runtime) -> Verdict {
    use rvv::probe::PARK_RELEASE;
    let mut fns = BTreeMap::new();
    fns.insert("fc".to_string(), me::FnSpec { cacheable: true, fail_on: vec![], fail_first: 0, uncacheable_after: 0 });
    let spec = SetSpec {
        rules: vec![
            ("whole".into(), Expr::reff("facts")),
            (
                "hold".into(),
                Expr::iif(
                    Expr::contains(Expr::reff("facts"), Expr::value("order".to_string())),
                    Expr::func("fc", Expr::Vec(vec![Expr::value(1000), Expr::value("park".to_string())])),
                    Expr::value(0),
                ),
            ),
            ("whole-again".into(), Expr::reff("facts")),
        ],
        fns,
        symbols: BTreeMap::new(),
        suspend: 1,
    };
    let message = Arc::new(Message { order: Order { total: 7 } });
    let built = probe::build(&spec, true);
    let _ = &built.log;
    let rs = Arc::new(built.ruleset);
    PARK_RELEASE.store(false, Ordering::SeqCst);
    rvv::probe::PARK_ONCE.store(true, Ordering::SeqCst);
    let parked_before = rvv::probe::PARKED.load(Ordering::SeqCst);
    let (held, inner, other) = rt.block_on(watched("the same-address scenario did not finish", async {
        let (rs1, m1) = (rs.clone(), message.clone());
        let held = tokio::spawn(async move { detach(rs1.evaluate(&*m1).await.expect("evaluate")) });
        wait_parked(parked_before).await;
        let inner = detach(rs.evaluate(&message.order).await.expect("evaluate"));
        let other = detach(rs.evaluate(&Order { total: 9 }).await.expect("evaluate"));
        PARK_RELEASE.store(true, Ordering::SeqCst);
        (held.await.ok(), inner, other)
    }));
    PARK_RELEASE.store(true, Ordering::SeqCst);
    let order_map = |t: i128| rvv::pool::map(&[("total", Value::Int(t))]);
    let want_inner = order_map(7);
    let want_other = order_map(9);
    let want_held = rvv::pool::map(&[("order", order_map(7))]);
    let whole = |o: &Outs| o.first().and_then(|(_, v)| v.as_ref().ok().cloned());
    let ok = whole(&inner).map(|v| same_value(&v, &want_inner, true)).unwrap_or(false)
        && whole(&other).map(|v| same_value(&v, &want_other, true)).unwrap_or(false)
        && held.as_ref().and_then(whole).map(|v| same_value(&v, &want_held, true)).unwrap_or(false)
        && held.as_ref().map(|o| matches!(&o[2].1, Ok(v) if same_value(v, &want_held, true))).unwrap_or(false);
    if ok {
        Ok(())
    } else {
        Err(Issue::new(
            "threads:inputs-at-one-address",
            format!(
                "evaluate(&message) held suspended, evaluate(&message.order) and evaluate(&other order) meanwhile: `facts` was {:?} / {:?} / {:?}, expected {} / {} / {}",
                held.as_ref().and_then(whole).map(|v| show_value(&v)),
                whole(&inner).map(|v| show_value(&v)),
                whole(&other).map(|v| show_value(&v)),
                show_value(&want_held),
                show_value(&want_inner),
                show_value(&want_other)
            ),
        ))
    }
}

/// An input that can be shared between threads and changed through a shared reference (serde serializes an atomic by
/// its current content).
#[derive(serde::Serialize)]
struct Inventory {
    item: &'static str,
    stock: std::sync::atomic::AtomicI64,
    reserved: std::sync::Mutex<i64>,
}

/// `evaluate(&inventory)` is held between two rules that read the input while another thread changes the input: the
/// outcomes of one evaluation all describe one state of the input (running the evaluation and the update one after the
/// other gives all-before or all-after, never a mix), and a second evaluation started after the update sees the new state.
fn check_input_updated_while_held(rt: &tokio::runtime::Runtime) -> Verdict {
    use rvv::probe::PARK_RELEASE;
    use std::sync::atomic::AtomicI64;
    let mut fns = BTreeMap::new();
    fns.insert("fc".to_string(), me::FnSpec { cacheable: true, fail_on: vec![], fail_first: 0, uncacheable_after: 0 });
    let spec = SetSpec {
        rules: vec![
            ("stock-before".into(), Expr::reff("stock")),
            ("reserved-before".into(), Expr::reff("reserved")),
            ("hold".into(), Expr::iif(Expr::eq(Expr::reff("item"), Expr::value("bolt".to_string())), Expr::func("fc", Expr::Vec(vec![Expr::value(1000), Expr::value("park".to_string())])), Expr::value(0))),
            ("stock-after".into(), Expr::reff("stock")),
            ("in-stock".into(), Expr::gt(Expr::reff("stock"), Expr::reff("reserved"))),
        ],
        fns,
        symbols: BTreeMap::new(),
        suspend: 1,
    };
    let inv = Arc::new(Inventory { item: "bolt", stock: AtomicI64::new(7), reserved: std::sync::Mutex::new(1) });
    let built = probe::build(&spec, true);
    let rs = Arc::new(built.ruleset);
    PARK_RELEASE.store(false, Ordering::SeqCst);
    rvv::probe::PARK_ONCE.store(true, Ordering::SeqCst);
    let parked_before = rvv::probe::PARKED.load(Ordering::SeqCst);
    let (held, later) = rt.block_on(watched("the updated-input scenario did not finish", async {
        let (rs1, i1) = (rs.clone(), inv.clone());
        let held = tokio::spawn(async move { detach(rs1.evaluate(&*i1).await.expect("evaluate")) });
        wait_parked(parked_before).await;
        inv.stock.store(0, Ordering::SeqCst);
        *inv.reserved.lock().unwrap() = 5;
        let later = detach(rs.evaluate(&*inv).await.expect("evaluate"));
        PARK_RELEASE.store(true, Ordering::SeqCst);
        (held.await.ok(), later)
    }));
    PARK_RELEASE.store(true, Ordering::SeqCst);
    let ints = |o: &Outs| -> Vec<Option<Value>> { o.iter().map(|(_, v)| v.as_ref().ok().cloned()).collect() };
    let state = |stock: i128, reserved: i128| vec![Some(Value::Int(stock)), Some(Value::Int(reserved)), None, Some(Value::Int(stock)), Some(Value::Bool(stock > reserved))];
    let matches = |o: &Outs, want: &[Option<Value>]| {
        let got = ints(o);
        got.len() == want.len() && got.iter().zip(want).enumerate().all(|(i, (g, w))| i == 2 || matches!((g, w), (Some(g), Some(w)) if same_value(g, w, true)))
    };
    let held_ok = held.as_ref().map(|h| matches(h, &state(7, 1)) || matches(h, &state(0, 5))).unwrap_or(false);
    let later_ok = matches(&later, &state(0, 5));
    if held_ok && later_ok {
        Ok(())
    } else {
        let show = |o: &Outs| o.iter().map(|(n, v)| format!("{n}={}", v.as_ref().map(show_value).unwrap_or_else(|e| format!("Err({e})")))).collect::<Vec<_>>();
        Err(Issue::new(
            "threads:input-updated-while-held",
            format!(
                "evaluate(&inventory) held between its rules while another thread sets stock 7 -> 0 and reserved 1 -> 5: the held evaluation gives {:?} (one state of the input is [7, 1, _, 7, true] or [0, 5, _, 0, false]); an evaluation started after the update gives {:?} (expected [0, 5, _, 0, false])",
                held.as_ref().map(show),
                show(&later)
            ),
        ))
    }
}

/// Evaluations whose user function evaluates another ruleset *inline* (in the same task, so the two evaluations overlap
/// in time on one thread), several of them at once on the runtime: each outer evaluation still makes each of its cacheable
/// calls once, as it does when the inner evaluations are run beforehand.
fn check_nested_evaluations(rt: &tokio::runtime::Runtime) -> Verdict {
    for nest_cacheable in [false, true] {
        let results = rt.block_on(watched("the nested-evaluation scenario did not finish", async {
            let mut handles = vec![];
            for _ in 0..6 {
                let (outer, log) = rvv::probe::nested_evaluation(1, true, nest_cacheable);
                handles.push(tokio::spawn(async move {
                    let ok = outer.evaluate_value(&Value::None).await.map(|o| o.iter().all(|x| x.value.is_ok())).unwrap_or(false);
                    let log = log.lock().unwrap().clone();
                    (ok, log)
                }));
            }
            let mut out = vec![];
            for h in handles {
                out.push(h.await.ok());
            }
            out
        }));
        let want = rvv::probe::nested_expected(nest_cacheable);
        for r in results {
            let got: Option<(bool, BTreeMap<(String, String), usize>)> = r.map(|(ok, log)| {
                let mut m = BTreeMap::new();
                for k in log {
                    *m.entry(k).or_insert(0) += 1;
                }
                (ok, m)
            });
            match &got {
                Some((true, m)) if *m == want => {}
                other => {
                    return Err(Issue::new(
                        "threads:nested-evaluation",
                        format!("an evaluation whose user function `nest` (cacheable: {nest_cacheable}) evaluates another ruleset inline, 6 of them at once: (all outcomes are values, invocations) = {other:?}; run one after another: (true, {want:?})"),
                    ))
                }
            }
        }
    }
    Ok(())
}

fn case_json(c: &Case) -> serde_json::Value {
    json!({"spec": spec_to_json(&c.spec), "n": c.n, "raw_threads": c.raw_threads, "repeat": c.repeat, "input_seed": c.input_seed.to_string(),
        "same_input": c.same_input, "abort_half": c.abort_half})
}

fn case_from_json(j: &serde_json::Value) -> Option<Case> {
    Some(Case {
        spec: spec_from_json(j.get("spec")?)?,
        n: j.get("n")?.as_u64()? as usize,
        raw_threads: j.get("raw_threads")?.as_bool()?,
        repeat: j.get("repeat").and_then(|x| x.as_u64()).unwrap_or(1) as usize,
        input_seed: j.get("input_seed").and_then(|x| x.as_str()).and_then(|s| s.parse().ok()).unwrap_or(0),
        same_input: j.get("same_input").and_then(|x| x.as_bool()).unwrap_or(false),
        abort_half: j.get("abort_half").and_then(|x| x.as_bool()).unwrap_or(false),
    })
}

struct Overlap {
    inflight: AtomicUsize,
    max: AtomicUsize,
}

fn check(rt: &tokio::runtime::Runtime, c: &Case, overlap_seen: &AtomicUsize) -> Verdict {
    // sequential baseline
    let base = probe::build(&SetSpec { suspend: 0, ..c.spec.clone() }, false);
    let mut baselines = vec![];
    for k in 0..c.n {
        base.log.lock().unwrap().clear();
        let out = catch(|| detach(block_on(base.ruleset.evaluate_value(&facts_for(c, k))).expect("evaluate_value")))
            .map_err(|p| Issue::new("threads:panic", format!("sequential baseline evaluation panicked: {p}; {}", case_json(c))))?;
        let log = attributed(&base.log.lock().unwrap(), if c.same_input { 0 } else { k });
        baselines.push((out, log));
    }
    let built = probe::build(&c.spec, !c.raw_threads);
    let log = built.log.clone();
    let rs = Arc::new(built.ruleset);
    let ov = Arc::new(Overlap { inflight: AtomicUsize::new(0), max: AtomicUsize::new(0) });
    let results: Vec<Result<Vec<Outs>, String>> = if c.raw_threads {
        std::thread::scope(|s| {
            let handles: Vec<_> = (0..c.n)
                .map(|k| {
                    let rs = rs.clone();
                    let ov = ov.clone();
                    s.spawn(move || {
                        let now = ov.inflight.fetch_add(1, Ordering::SeqCst) + 1;
                        ov.max.fetch_max(now, Ordering::SeqCst);
                        let f = facts_for(c, k);
                        let mut outs = vec![];
                        for _ in 0..c.repeat {
                            outs.push(detach(block_on(rs.evaluate_value(&f)).expect("evaluate_value")));
                        }
                        ov.inflight.fetch_sub(1, Ordering::SeqCst);
                        outs
                    })
                })
                .collect();
            handles.into_iter().map(|h| h.join().map_err(|_| "thread panicked".to_string())).collect()
        })
    } else {
        rt.block_on(async {
            let handles: Vec<_> = (0..c.n)
                .map(|k| {
                    let rs = rs.clone();
                    let ov = ov.clone();
                    let c2 = c.clone();
                    tokio::spawn(async move {
                        let now = ov.inflight.fetch_add(1, Ordering::SeqCst) + 1;
                        ov.max.fetch_max(now, Ordering::SeqCst);
                        let f = facts_for(&c2, k);
                        let mut outs = vec![];
                        for _ in 0..c2.repeat {
                            outs.push(detach(rs.evaluate_value(&f).await.expect("evaluate_value")));
                        }
                        ov.inflight.fetch_sub(1, Ordering::SeqCst);
                        outs
                    })
                })
                .collect();
            if c.abort_half {
                // let the tasks get going (until they have made a few calls each, however busy the machine is), then
                // cancel every other one wherever it is suspended
                for _ in 0..2000 {
                    tokio::task::yield_now().await;
                    if log.lock().unwrap().len() >= 2 * c.n {
                        break;
                    }
                }
                for (k, h) in handles.iter().enumerate() {
                    if k % 2 == 1 {
                        h.abort();
                    }
                }
            }
            let mut v = vec![];
            for h in handles {
                v.push(match h.await {
                    Ok(o) => Ok(o),
                    Err(e) if e.is_cancelled() => Ok(vec![]),
                    Err(e) => Err(format!("task failed: {e}")),
                });
            }
            v
        })
    };
    if c.abort_half && !c.raw_threads {
        // after the cancellations every input is evaluated again on the same ruleset, one after the other: outcomes and
        // invocations are those of an evaluation that follows nothing
        for k in 0..c.n {
            log.lock().unwrap().clear();
            let out = catch(|| detach(rt.block_on(rs.evaluate_value(&facts_for(c, k))).expect("evaluate_value")))
                .map_err(|p| Issue::new("threads:panic", format!("evaluation after cancellations panicked: {p}; {}", case_json(c))))?;
            let mine = attributed(&log.lock().unwrap(), if c.same_input { 0 } else { k });
            if !same_outs(&out, &baselines[k].0) || mine != baselines[k].1 {
                return Err(Issue::new(
                    "threads:after-cancellation",
                    format!(
                        "after other evaluations of the shared ruleset were cancelled midway, evaluation {k} gives {:?} with invocations {:?}; on a ruleset without that history {:?} with {:?}; {}",
                        out.iter().map(|(n, v)| format!("{n}={}", v.as_ref().map(show_value).unwrap_or_else(|e| format!("Err({e})")))).collect::<Vec<_>>(),
                        mine,
                        baselines[k].0.iter().map(|(n, v)| format!("{n}={}", v.as_ref().map(show_value).unwrap_or_else(|e| format!("Err({e})")))).collect::<Vec<_>>(),
                        baselines[k].1,
                        case_json(c)
                    ),
                ));
            }
        }
        return Ok(());
    }
    if ov.max.load(Ordering::SeqCst) >= 2 {
        overlap_seen.fetch_add(1, Ordering::Relaxed);
    }
    let log = log.lock().unwrap().clone();
    if c.same_input {
        // equal arguments in flight at the same time: in total, n x repeat times what one evaluation invokes
        let mut want = vec![];
        for _ in 0..c.n * c.repeat {
            want.extend(baselines[0].1.clone());
        }
        want.sort();
        // (as everywhere in this check: the invocations whose argument carries the input's id)
        let got = attributed(&log, 0);
        if got != want {
            return Err(Issue::new(
                "threads:invocations-differ",
                format!("{} concurrent evaluations of one input made {} invocations, one after another they make {}; {}", c.n * c.repeat, got.len(), want.len(), case_json(c)),
            ));
        }
    }
    for (k, r) in results.iter().enumerate() {
        let outs = match r {
            Ok(o) => o,
            Err(e) => return Err(Issue::new("threads:panic", format!("concurrent evaluation {k} failed: {e}; {}", case_json(c)))),
        };
        for out in outs {
            if !same_outs(out, &baselines[k].0) {
                return Err(Issue::new(
                    "threads:outcomes-differ",
                    format!(
                        "concurrent evaluation {k} gives {:?} but sequentially {:?}; {}",
                        out.iter().map(|(n, v)| format!("{n}={}", v.as_ref().map(show_value).unwrap_or_else(|e| format!("Err({e})")))).collect::<Vec<_>>(),
                        baselines[k].0.iter().map(|(n, v)| format!("{n}={}", v.as_ref().map(show_value).unwrap_or_else(|e| format!("Err({e})")))).collect::<Vec<_>>(),
                        case_json(c)
                    ),
                ));
            }
        }
        // invocation multiset: `repeat` times the baseline's
        let mut want = vec![];
        for _ in 0..c.repeat {
            want.extend(baselines[k].1.clone());
        }
        want.sort();
        if !c.same_input && attributed(&log, k) != want {
            return Err(Issue::new(
                "threads:invocations-differ",
                format!(
                    "concurrent evaluation {k} invoked {:?}, sequentially {:?}; {}",
                    attributed(&log, k),
                    want,
                    case_json(c)
                ),
            ));
        }
    }
    Ok(())
}

fn main() {
    let args: Vec<String> = std::env::args().collect();
    let verif_dir = std::env::var("VERIF_DIR").unwrap_or_else(|_| "/verif".into());
    install_panic_hook();
    let rt = tokio::runtime::Builder::new_multi_thread().worker_threads(8).enable_all().build().expect("tokio runtime");
    let overlap_seen = AtomicUsize::new(0);
    if args.len() >= 4 && args[2] == "--replay" {
        let text = std::fs::read_to_string(&args[3]).expect("read replay file");
        if !text.trim_start().starts_with('{') {
            println!("replay file is a compiler log: re-run ./check C18 quick to re-check the static assertions");
            std::process::exit(2);
        }
        let j: serde_json::Value = serde_json::from_str(&text).expect("json");
        let case = j.get("case").cloned().unwrap_or(j);
        if case.get("nested_evaluations").is_some() {
            if let Err(i) = check_nested_evaluations(&rt) {
                println!("DETAIL property=C18 sig={} {}", i.sig, i.msg);
                println!("VIOLATION property=C18 replay={}", args[3]);
                std::process::exit(1);
            }
            println!("REPLAY property=C18 holds on {}", args[3]);
            return;
        }
        if case.get("input_updated_while_held").is_some() {
            if let Err(i) = check_input_updated_while_held(&rt) {
                println!("DETAIL property=C18 sig={} {}", i.sig, i.msg);
                println!("VIOLATION property=C18 replay={}", args[3]);
                std::process::exit(1);
            }
            println!("REPLAY property=C18 holds on {}", args[3]);
            return;
        }
        if case.get("same_address_inputs").is_some() {
            if let Err(i) = check_same_address_inputs(&rt) {
                println!("DETAIL property=C18 sig={} {}", i.sig, i.msg);
                println!("VIOLATION property=C18 replay={}", args[3]);
                std::process::exit(1);
            }
            println!("REPLAY property=C18 holds on {}", args[3]);
            return;
        }
        if let Some(n) = case.get("parked_others").and_then(|x| x.as_u64()) {
            if let Err(i) = check_parked(&rt, n as usize, case.get("hold_ms").and_then(|x| x.as_u64()).unwrap_or(0)) {
                println!("DETAIL property=C18 sig={} {}", i.sig, i.msg);
                println!("VIOLATION property=C18 replay={}", args[3]);
                std::process::exit(1);
            }
            println!("REPLAY property=C18 holds on {}", args[3]);
            return;
        }
        let c = case_from_json(&case).expect("decode case");
        for _ in 0..50 {
            if let Err(i) = check(&rt, &c, &overlap_seen) {
                println!("DETAIL property=C18 sig={} {}", i.sig, i.msg);
                println!("VIOLATION property=C18 replay={}", args[3]);
                std::process::exit(1);
            }
        }
        println!("REPLAY property=C18 holds on {} (50 runs)", args[3]);
        return;
    }
    let tier = match args.get(2).map(|s| s.as_str()) {
        Some("thorough") => Tier::Thorough,
        _ => Tier::Quick,
    };
    let ctx = Ctx::new("C18", tier, env_seed(), &verif_dir);
    ctx.set_rule(
        "Static half (precondition, decided by the compiler): Send + Sync instantiations for RuleSet, Rule, Expr, Value, Symbols, \
         Index, Outcome<'static>, reval::Error, parse::Error, Builder and Send for the futures of Expr::evaluate, \
         RuleSet::evaluate_value and RuleSet::evaluate(&impl Serialize + Sync); this binary does not build otherwise. Dynamic half \
         (generated): call-heavy rulesets with probes that yield, N in {2, 4, 16} evaluations of one Arc<RuleSet> (and large shared rulesets: 96-400 evaluations of deeply nested suspending rules in flight at once; 100 rules with 500 call sites over 4 functions evaluated 25 times each by 8-16 threads), each with its own \
         input id, spawned on a tokio multi-thread runtime (tasks migrate between workers at every yield) or on raw OS threads. \
         Oracle: every outcome vector and every evaluation's attributed invocation multiset equals the sequential baseline. \
         Non-trivial: >= 2 evaluations were in flight at the same time (measured) and every call suspends at least once.",
    );
    ctx.assume("real threads sample interleavings, they do not enumerate them; reval holds no shared mutable state, so this is weak evidence by design");
    let n = tier.pick(5000u64, 60_000u64);
    // cases run sequentially at the top level: each case is itself multi-threaded
    let t0 = std::time::Instant::now();
    let mut acc = Acc::default();
    let mut failed = false;
    {
        let mut hacc = Acc::default();
        let th = std::time::Instant::now();
        'heavy: for round in 0..tier.pick(4u64, 40u64) {
            for c in heavy_cases(ctx.seed.wrapping_add(round)) {
                let before = overlap_seen.load(Ordering::Relaxed);
                let r = check(&rt, &c, &overlap_seen);
                let overlapped = overlap_seen.load(Ordering::Relaxed) > before;
                hacc.case(
                    if c.n >= 96 { "heavy:hundreds-in-flight" } else { "heavy:hundred-rules-five-hundred-call-sites" },
                    overlapped,
                    || format!("round {round}: n={} repeat={} raw_threads={} rules={}", c.n, c.repeat, c.raw_threads, c.spec.rules.len()),
                );
                if let Err(issue) = r {
                    if let Err(issue) = ctx.triage(issue, &|| case_json(&c).to_string()) {
                        ctx.violation("threads", case_json(&c), &issue);
                        failed = true;
                        break 'heavy;
                    }
                }
            }
        }
        ctx.finish_phase("large-shared-rulesets", hacc, false, th);
        if !failed {
            let mut pacc = Acc::default();
            let tp = std::time::Instant::now();
            for (others, hold_ms) in [(100usize, 0u64), (70_000, 0), (600, 6_500)] {
                let r = check_parked(&rt, others, hold_ms);
                pacc.case("parked", true, || format!("one evaluation held while {others} others run (held for at least {hold_ms} ms)"));
                if let Err(issue) = r {
                    let case = json!({"parked_others": others, "hold_ms": hold_ms});
                    if let Err(issue) = ctx.triage(issue, &|| case.to_string()) {
                        ctx.violation("threads", case, &issue);
                        failed = true;
                        break;
                    }
                }
            }
            if !failed {
                for _ in 0..3 {
                    let r = check_same_address_inputs(&rt);
                    pacc.case("same-address", true, || "evaluate(&struct) held while evaluate(&struct.first_field) runs".to_string());
                    if let Err(issue) = r {
                        let case = json!({"same_address_inputs": true});
                        if let Err(issue) = ctx.triage(issue, &|| case.to_string()) {
                            ctx.violation("threads", case, &issue);
                            failed = true;
                            break;
                        }
                    }
                }
            }
            if !failed {
                for _ in 0..3 {
                    let r = check_input_updated_while_held(&rt);
                    pacc.case("input-updated-while-held", true, || "evaluate(&struct with atomic fields) held between two rules while another thread updates the fields".to_string());
                    if let Err(issue) = r {
                        let case = json!({"input_updated_while_held": true});
                        if let Err(issue) = ctx.triage(issue, &|| case.to_string()) {
                            ctx.violation("threads", case, &issue);
                            failed = true;
                            break;
                        }
                    }
                }
            }
            if !failed {
                for _ in 0..3 {
                    let r = check_nested_evaluations(&rt);
                    pacc.case("nested-evaluations", true, || "a user function evaluates another ruleset inline; 6 such evaluations at once".to_string());
                    if let Err(issue) = r {
                        let case = json!({"nested_evaluations": true});
                        if let Err(issue) = ctx.triage(issue, &|| case.to_string()) {
                            ctx.violation("threads", case, &issue);
                            failed = true;
                            break;
                        }
                    }
                }
            }
            ctx.finish_phase("one-parked-many-started", pacc, true, tp);
        }
    }
    for i in 0..n {
        if failed {
            break;
        }
        let mut bytes = vec![];
        let mut x = ctx.seed.wrapping_mul(0x9E3779B97F4A7C15).wrapping_add(i.wrapping_mul(0xD1B54A32D192ED03));
        for _ in 0..40 {
            x ^= x << 13;
            x ^= x >> 7;
            x ^= x << 17;
            bytes.extend_from_slice(&x.to_le_bytes());
        }
        let c = gen_case(&bytes);
        let before = overlap_seen.load(Ordering::Relaxed);
        let r = check(&rt, &c, &overlap_seen);
        let overlapped = overlap_seen.load(Ordering::Relaxed) > before;
        acc.case(
            if c.raw_threads { "raw-threads" } else { "tokio-multi-thread" },
            overlapped,
            || format!("n={} suspend={} rules {}", c.n, c.spec.suspend, c.spec.rules.iter().map(|(n, e)| format!("{n}: {}", show_expr(e))).collect::<Vec<_>>().join("; ")),
        );
        if let Err(issue) = r {
            if let Err(issue) = ctx.triage(issue, &|| case_json(&c).to_string()) {
                ctx.violation("threads", case_json(&c), &issue);
                failed = true;
                break;
            }
        }
    }
    let _ = failed;
    ctx.extra("cases_with_measured_overlap", json!(overlap_seen.load(Ordering::Relaxed)));
    ctx.extra("static_assertions", json!("compiled: Send+Sync for 10 public types, Send for 4 evaluation futures"));
    ctx.finish_phase("concurrent-evaluations", acc, false, t0);
    std::process::exit(ctx.finish());
}
