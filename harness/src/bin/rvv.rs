//! rvv <ID> quick|thorough          run the check of one property
//! rvv <ID> --replay <file>         re-run one saved case in strict mode (known findings not suppressed)

use rvv::core::*;

fn main() {
    let args: Vec<String> = std::env::args().collect();
    if args.len() < 3 {
        eprintln!("usage: rvv <ID> quick|thorough | rvv <ID> --replay <file>");
        std::process::exit(2);
    }
    let verif_dir = std::env::var("VERIF_DIR").unwrap_or_else(|_| "/verif".into());
    install_panic_hook();
    let prop = args[1].clone();
    if prop == "mkcase" {
        // rvv mkcase <property> <expression text>: print a regression file for an evaluation case
        let e = reval::prelude::Expr::parse(&args[3]).expect("expression parses");
        let case = rvv::props::evalcommon::EvalCase::plain(e, reval::prelude::Value::None);
        println!(
            "{}",
            serde_json::to_string_pretty(&serde_json::json!({"property": args[2], "kind": "evalcase", "source": args[3], "case": case.to_json()})).unwrap()
        );
        return;
    }
    if args[2] == "--replay" {
        let path = args.get(3).expect("replay file");
        let text = std::fs::read_to_string(path).expect("read replay file");
        let j: serde_json::Value = serde_json::from_str(&text).expect("replay file is JSON");
        let kind = j.get("kind").and_then(|k| k.as_str()).unwrap_or("").to_string();
        let case = j.get("case").cloned().unwrap_or(j.clone());
        match rvv::props::replay(&prop, &kind, &case) {
            None => {
                eprintln!("cannot decode replay case for {prop}");
                std::process::exit(2);
            }
            Some(Ok(())) => {
                println!("REPLAY property={prop} holds on {path}");
                std::process::exit(0);
            }
            Some(Err(issue)) => {
                println!("DETAIL property={prop} sig={} {}", issue.sig, issue.msg);
                println!("VIOLATION property={prop} replay={path}");
                std::process::exit(1);
            }
        }
    }
    let tier = match args[2].as_str() {
        "quick" => Tier::Quick,
        "thorough" => Tier::Thorough,
        other => {
            eprintln!("unknown tier {other}");
            std::process::exit(2);
        }
    };
    let ctx = Ctx::new(&prop, tier, env_seed(), &verif_dir);
    if !rvv::props::run(&ctx) {
        eprintln!("unknown property {prop}");
        std::process::exit(2);
    }
    std::process::exit(ctx.finish());
}
