//! Child process for C19: one construct, one depth, one operation, one stack size.
//! usage: rvv_deep <construct> <depth> <op> <stack-bytes>
//! Exits 0 when the operation completed (with a value or an error); a stack overflow kills the
//! process with a signal, which the parent observes. Exit 3 = the setup (parsing the text) was refused.

use reval::prelude::*;

fn text_for(construct: &str, depth: usize) -> String {
    match construct {
        "neg" => format!("{}a", "-".repeat(depth)),
        "not" => format!("{}true", "!".repeat(depth)),
        "add" => vec!["i1"; depth + 1].join("+"),
        "and" => vec!["true"; depth + 1].join(" and "),
        // a chain of every other binary operator (each has its own arm in the parser's actions, the printer and the evaluator)
        "chain-eq" => vec!["i1"; depth + 1].join(" == "),
        "chain-neq" => vec!["i1"; depth + 1].join(" != "),
        "chain-gt" => vec!["i1"; depth + 1].join(" > "),
        "chain-lte" => vec!["i1"; depth + 1].join(" <= "),
        "chain-sub" => vec!["i1"; depth + 1].join(" - "),
        "chain-mult" => vec!["i1"; depth + 1].join(" * "),
        "chain-div" => vec!["i1"; depth + 1].join(" / "),
        "chain-rem" => vec!["i7"; depth + 1].join(" % "),
        "chain-or" => vec!["false"; depth + 1].join(" or "),
        "chain-bitand" => vec!["i1"; depth + 1].join(" & "),
        "chain-bitor" => vec!["i1"; depth + 1].join(" | "),
        "chain-bitxor" => vec!["i1"; depth + 1].join(" ^ "),
        "call" => format!("{}i1{}", "f(".repeat(depth), ")".repeat(depth)),
        "builtin" => format!("{}i1{}", "int(".repeat(depth), ")".repeat(depth)),
        "list" => format!("{}i1{}", "[".repeat(depth), "]".repeat(depth)),
        "map" => format!("{}i1{}", "{k:".repeat(depth), "}".repeat(depth)),
        "ifcond" => format!("{}true{}", "if ".repeat(depth), " then true else false".repeat(depth)),
        "ifelse" => format!("{}i2", "if false then i1 else ".repeat(depth)),
        "paren" => format!("{}i1{}", "(".repeat(depth), ")".repeat(depth)),
        "index" => format!("a{}", ".b".repeat(depth)),
        "contains" => format!("{}[i1] contains i1{}", "[".repeat(depth), "] contains true".repeat(depth)),
        // the nested element in other positions than "last, without a comma"
        "listfirst" => format!("{}i1{}", "[".repeat(depth), ", i2]".repeat(depth)),
        "listcomma" => format!("{}i1{}", "[".repeat(depth), ",]".repeat(depth)),
        "listmap" => format!("{}i1{}", "[{k:".repeat(depth), "}, i2]".repeat(depth)),
        "mapcomma" => format!("{}i1{}", "{k:".repeat(depth), ", j: i2,}".repeat(depth)),
        "ifthen" => format!("{}i1{}", "if true then ".repeat(depth), " else i2".repeat(depth)),
        "callsum" => format!("{}i1{}", "f(i1 + ".repeat(depth), ")".repeat(depth)),
        "subright" => format!("{}i1{}", "i1 - (".repeat(depth), ")".repeat(depth)),
        "string" => format!("\"{}\"", "a\\n".repeat(depth)),
        // a deep term followed by a numeric index / numeric index chains
        "negidx" => format!("({}a).0", "-".repeat(depth)),
        "listidx" => format!("{}i1{}.0", "[".repeat(depth), "]".repeat(depth)),
        "mapidx" => format!("{}i1{}.0", "{k:".repeat(depth), "}".repeat(depth)),
        "indexnum" => format!("a{}", ".0".repeat(depth)),
        // deep operands in positions that are never evaluated
        "skipeq" => format!("none == {}a", "-".repeat(depth)),
        "skipand" => format!("false and {}true", "!".repeat(depth)),
        "skipor" => format!("true or {}i1{}", "[".repeat(depth), "]".repeat(depth)),
        "skipif" => format!("if true then i1 else {}a", "-".repeat(depth)),
        // deep items after an item that fails: evaluation stops at the failing item
        "skiplist" => format!("[missing, {}a]", "-".repeat(depth)),
        "skipmap" => format!("{{a: missing, b: {}i1{}}}", "[".repeat(depth), "]".repeat(depth)),
        "skipcallarg" => format!("nofn([missing, {}true])", "!".repeat(depth)),
        "escapes" => format!("\"{}\"", "\\\\\\t\\\"".repeat(depth)),
        // deep values in a metadata item of a rule text (constants, and a non-constant that is rejected)
        "metalist" => format!("// n\n@k: {}i1{};\na", "[".repeat(depth), "]".repeat(depth)),
        "metamap" => format!("// n\n@k: {}i1{};\na", "{k:".repeat(depth), "}".repeat(depth)),
        "metaneg" => format!("// n\n@k: {}a;\na", "-".repeat(depth)),
        // a deep term followed by a syntax error: the parser has to dispose of the partial tree
        "adderr" => format!("{} >* i1", vec!["i1"; depth + 1].join("+")),
        "negerr" => format!("{}a >* i1", "-".repeat(depth)),
        "listerr" => format!("{}i1{} >* i1", "[".repeat(depth), "]".repeat(depth)),
        // flat membership tests: the number of items is the "depth" (no nesting at all; must complete whatever the size)
        "flatcontains" => format!("i7 in [{}]", vec!["i1"; depth + 1].join(", ")),
        "flatcontainslate" => format!("[{}, i7] contains i7", vec!["i1"; depth + 1].join(", ")),
        "flatlistcalls" => format!("[{}]", vec!["f(i1)"; depth + 1].join(", ")),
        // flat (not nested) large texts for C06: long lines, long literals, many escapes, with and without a syntax error at the end
        "flat-error-line" => format!("{}>* i1", "i1 + ".repeat(depth)),
        "flat-string-error" => format!("\"{}\" >* i1", "é".repeat(depth)),
        "flat-crlf-comments-error" => format!("{}a >* b", "// c é\r\n".repeat(depth)),
        "flat-list" => format!("[{}]", "i1, ".repeat(depth)),
        "flat-list-error" => format!("[{}>* ]", "i1, ".repeat(depth)),
        "flat-unicode-escapes" => format!("\"{}\"", "\\u{41}\\n".repeat(depth)),
        "flat-bad-escape-at-end" => format!("\"{}\\q\"", "\\t".repeat(depth)),
        "flat-map" => format!("{{{}}}", (0..depth).map(|i| format!("k{i}: i1, ")).collect::<String>()),
        _ => panic!("unknown construct {construct}"),
    }
}

fn block_on<F: std::future::Future>(fut: F) -> F::Output {
    let mut fut = std::pin::pin!(fut);
    let waker = std::task::Waker::noop();
    let mut cx = std::task::Context::from_waker(waker);
    loop {
        if let std::task::Poll::Ready(v) = fut.as_mut().poll(&mut cx) {
            return v;
        }
    }
}

fn run(construct: &str, depth: usize, op: &str) -> i32 {
    let text = text_for(construct, depth);
    if op == "parse" {
        let r = Expr::parse(&text);
        std::mem::forget(r);
        return 0;
    }
    if op == "parse-rule" {
        let r = Rule::parse(&if text.starts_with("// n\n@k") { text.clone() } else { format!("// deep\n{text}") });
        std::mem::forget(r);
        return 0;
    }
    if op == "parse-rule-bare-comment" {
        // the first comment line is empty: the rule's name is the empty text
        let r = Rule::parse(&if text.starts_with("// n\n@k") { text.replacen("// n", "//", 1) } else { format!("//\n{text}") });
        std::mem::forget(r);
        return 0;
    }
    let e = match Expr::parse(&text) {
        Ok(e) => e,
        Err(_) => return 3,
    };
    match op {
        "display" => {
            let s = e.to_string();
            std::mem::forget(s);
            std::mem::forget(e);
        }
        "debug" => {
            let s = format!("{e:?}");
            std::mem::forget(s);
            std::mem::forget(e);
        }
        "clone" => {
            let c = e.clone();
            std::mem::forget(c);
            std::mem::forget(e);
        }
        "compare" => {
            let other = match Expr::parse(&text) {
                Ok(o) => o,
                Err(_) => return 3,
            };
            let eq = e == other;
            std::mem::forget(other);
            std::mem::forget(e);
            if !eq {
                return 4;
            }
        }
        "drop" => drop(e),
        "evaluate" => {
            let facts = Value::None;
            let r = block_on(e.evaluate(&facts));
            std::mem::forget(r);
            std::mem::forget(e);
        }
        "compare-rules" => {
            // two rules that share the deep expression but differ in name: telling them apart needs no look at the expression
            let other = match Expr::parse(&text) {
                Ok(o) => o,
                Err(_) => return 3,
            };
            let a = Rule::new("first", std::collections::BTreeMap::new(), e);
            let b = Rule::new("second", std::collections::BTreeMap::new(), other);
            let eq = a == b;
            let found = [&a].iter().any(|r| **r == b);
            std::mem::forget(a);
            std::mem::forget(b);
            if eq || found {
                return 4;
            }
        }
        "debug-rule" => {
            let r = Rule::new("deep", std::collections::BTreeMap::new(), e);
            let s = format!("{r:?}");
            std::mem::forget(s);
            std::mem::forget(r);
        }
        "drop-ruleset" => {
            // a ruleset of 40 rules, one of them deep, dropped on this thread; then a moment for anything the drop may
            // have handed to another thread
            let mk = |n: String, e: Expr| Rule::new(n, std::collections::BTreeMap::new(), e);
            let mut b = ruleset();
            for i in 0..39 {
                b = b.with_rule(mk(format!("small {i}"), Expr::value(i as i128))).expect("with_rule");
            }
            let rs = b.with_symbol("unused", Value::Int(1)).with_rule(mk("deep".into(), e)).expect("with_rule").build();
            drop(rs);
            std::thread::sleep(std::time::Duration::from_millis(40));
        }
        "evaluate-in-ruleset" => {
            // the tree as one rule of a ruleset assembled through both builder entry points, evaluated with the others
            let mk = |n: &str, e: Expr| Rule::new(n, std::collections::BTreeMap::new(), e);
            let rs = ruleset()
                .with_symbol("unused", Value::Int(1))
                .with_rule(mk("first", Expr::value(1)))
                .expect("with_rule")
                .with_rules(vec![mk("second", Expr::value(2)), mk("deep", e)])
                .expect("with_rules")
                .build();
            let facts = Value::None;
            let r = block_on(rs.evaluate_value(&facts));
            std::mem::forget(r);
            std::mem::forget(rs);
        }
        _ => panic!("unknown op {op}"),
    }
    0
}

fn main() {
    let a: Vec<String> = std::env::args().collect();
    if a.len() < 5 {
        eprintln!("usage: rvv_deep <construct> <depth> <op> <stack-bytes>");
        std::process::exit(2);
    }
    let construct = a[1].clone();
    let depth: usize = a[2].parse().expect("depth");
    let op = a[3].clone();
    let stack: usize = a[4].parse().expect("stack bytes");
    let h = std::thread::Builder::new()
        .stack_size(stack)
        .spawn(move || run(&construct, depth, &op))
        .expect("spawn");
    match h.join() {
        Ok(code) => std::process::exit(code),
        Err(_) => std::process::exit(5), // a panic (not a stack overflow): the operation returned by unwinding
    }
}
