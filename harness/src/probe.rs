//! Instrumented user functions ("probes") and helpers to build and run rulesets.

use crate::model::eval::{arg_key, probe_error, probe_result, FnSpec};
use async_trait::async_trait;
use reval::prelude::*;
use std::collections::{BTreeMap, HashSet};
use std::future::Future;
use std::pin::Pin;
use std::sync::{Arc, Mutex};
use std::task::{Context, Poll};

/// Leak-intern a name so it can serve as the `&'static str` a `UserFunction` must return.
pub fn intern(s: &str) -> &'static str {
    static POOL: Mutex<Option<HashSet<&'static str>>> = Mutex::new(None);
    let mut g = POOL.lock().unwrap();
    let set = g.get_or_insert_with(HashSet::new);
    if let Some(x) = set.get(s) {
        return x;
    }
    let leaked: &'static str = Box::leak(s.to_string().into_boxed_str());
    set.insert(leaked);
    leaked
}

pub type Log = Arc<Mutex<Vec<(String, String)>>>;

/// A future that returns `Pending` `n` times (waking itself each time) before completing.
pub struct Suspend(pub u32);

impl Future for Suspend {
    type Output = ();
    fn poll(mut self: Pin<&mut Self>, cx: &mut Context<'_>) -> Poll<()> {
        if self.0 == 0 {
            Poll::Ready(())
        } else {
            self.0 -= 1;
            cx.waker().wake_by_ref();
            Poll::Pending
        }
    }
}

/// While false, a call whose argument contains the text "park" keeps yielding to the runtime (tokio probes only): an
/// evaluation can be held suspended for as long as a scenario wants.
pub static PARK_RELEASE: std::sync::atomic::AtomicBool = std::sync::atomic::AtomicBool::new(true);
/// Only the first such call after this was set to true is held (so that a second evaluation that wrongly reaches the same
/// call runs on and shows its wrong result instead of waiting as well).
pub static PARK_ONCE: std::sync::atomic::AtomicBool = std::sync::atomic::AtomicBool::new(false);
/// Number of calls that have entered the held state so far (a scenario waits for this, not for the log, before it goes on:
/// the log entry is written before the call decides whether it is the one that is held).
pub static PARKED: std::sync::atomic::AtomicUsize = std::sync::atomic::AtomicUsize::new(0);

pub struct Probe {
    pub name: &'static str,
    pub spec: FnSpec,
    /// number of times each call suspends before returning
    pub suspend: u32,
    pub log: Log,
    pub counts: Arc<Mutex<BTreeMap<(String, String), u32>>>,
    /// when true, use tokio's yield_now instead of the self-waking Suspend (C18)
    pub tokio_yield: bool,
}

#[async_trait]
impl UserFunction for Probe {
    async fn call(&self, param: Value) -> FunctionResult {
        let key = (self.name.to_string(), arg_key(&param));
        self.log.lock().unwrap().push(key.clone());
        let n = {
            let mut c = self.counts.lock().unwrap();
            let e = c.entry(key.clone()).or_insert(0);
            *e += 1;
            *e
        };
        if self.tokio_yield {
            for _ in 0..self.suspend {
                tokio::task::yield_now().await;
            }
            if key.1.contains("\"park\"") && PARK_ONCE.swap(false, std::sync::atomic::Ordering::SeqCst) {
                    PARKED.fetch_add(1, std::sync::atomic::Ordering::SeqCst);
                while !PARK_RELEASE.load(std::sync::atomic::Ordering::SeqCst) {
                    tokio::task::yield_now().await;
                }
            }
        } else {
            Suspend(self.suspend).await;
        }
        if self.spec.fail_on.contains(&key.1) || n <= self.spec.fail_first {
            return Err(probe_error(self.name, &key.1));
        }
        Ok(probe_result(self.name, &param))
    }

    fn name(&self) -> &'static str {
        self.name
    }

    fn cacheable(&self) -> bool {
        if self.spec.uncacheable_after == 0 {
            return self.spec.cacheable;
        }
        let total: u32 = self.counts.lock().unwrap().iter().filter(|((f, _), _)| f == self.name).map(|(_, c)| *c).sum();
        self.spec.cacheable && total < self.spec.uncacheable_after
    }
}

/// A probe that does not override `cacheable()`: the trait's documented default (cacheable) applies.
pub struct DefaultCacheabilityProbe(pub Probe);

/// name of the probe that is registered without overriding `cacheable()` (its spec is always cacheable)
pub const DEFAULT_CACHEABILITY_NAME: &str = "fd";

#[async_trait]
impl UserFunction for DefaultCacheabilityProbe {
    async fn call(&self, param: Value) -> FunctionResult {
        self.0.call(param).await
    }

    fn name(&self) -> &'static str {
        self.0.name
    }
}

/// Two user functions without any state (zero-sized types, as in the crate's own examples): registered for the names
/// "za" / "zb"; they answer like a probe but keep no log (a boxed zero-sized value owns no allocation of its own).
pub struct ZstA;
pub struct ZstB;

#[async_trait]
impl UserFunction for ZstA {
    async fn call(&self, param: Value) -> FunctionResult {
        Ok(probe_result("za", &param))
    }
    fn name(&self) -> &'static str {
        "za"
    }
}

#[async_trait]
impl UserFunction for ZstB {
    async fn call(&self, param: Value) -> FunctionResult {
        Ok(probe_result("zb", &param))
    }
    fn name(&self) -> &'static str {
        "zb"
    }
}

/// Everything needed to build one ruleset under test.
#[derive(Clone, Debug, Default)]
pub struct SetSpec {
    pub rules: Vec<(String, Expr)>,
    pub fns: BTreeMap<String, FnSpec>,
    pub symbols: BTreeMap<String, Value>,
    pub suspend: u32,
}

pub struct Built {
    pub ruleset: RuleSet,
    pub log: Log,
}

pub fn build(spec: &SetSpec, tokio_yield: bool) -> Built {
    let log: Log = Arc::new(Mutex::new(vec![]));
    let counts = Arc::new(Mutex::new(BTreeMap::new()));
    let mut b = ruleset();
    // every builder entry point is used: the first rule through with_rule, the next two through one with_rules batch,
    // the rest one by one (so with_rules is called on a builder that already holds rules)
    let mk = |name: &String, expr: &Expr| Rule::new(name.clone(), BTreeMap::new(), expr.clone());
    let mut i = 0;
    while i < spec.rules.len() {
        if i == 1 && spec.rules.len() >= 3 {
            b = b
                .with_rules(vec![mk(&spec.rules[1].0, &spec.rules[1].1), mk(&spec.rules[2].0, &spec.rules[2].1)])
                .expect("harness generates distinct rule names");
            i += 2;
        } else {
            b = b.with_rule(mk(&spec.rules[i].0, &spec.rules[i].1)).expect("harness generates distinct rule names");
            i += 1;
        }
    }
    for (name, fs) in &spec.fns {
        if name == "za" {
            b = b.with_function(ZstA).expect("za");
            continue;
        }
        if name == "zb" {
            b = b.with_functions(vec![Box::new(ZstB) as Box<dyn UserFunction + Send + Sync>]).expect("zb");
            continue;
        }
        let p = Probe {
            name: intern(name),
            spec: fs.clone(),
            suspend: spec.suspend,
            log: log.clone(),
            counts: counts.clone(),
            tokio_yield,
        };
        b = if name == DEFAULT_CACHEABILITY_NAME && fs.cacheable {
            b.with_function(DefaultCacheabilityProbe(p))
        } else if name == "fb" || name == "lp" {
            // registered already boxed, through the batch entry point
            b.with_functions(vec![Box::new(p) as Box<dyn UserFunction + Send + Sync>])
        } else {
            b.with_function(p)
        }
        .expect("harness generates valid function names");
    }
    for (k, v) in &spec.symbols {
        b = b.with_symbol(k, v.clone());
    }
    Built { ruleset: b.build(), log }
}

/// Evaluate a single expression through a one-rule ruleset with the given functions and symbols.
pub fn eval_in_ruleset(
    expr: &Expr,
    facts: &Value,
    fns: &BTreeMap<String, FnSpec>,
    symbols: &BTreeMap<String, Value>,
) -> (Result<Value, reval::Error>, Vec<(String, String)>) {
    let spec = SetSpec {
        rules: vec![("r".into(), expr.clone())],
        fns: fns.clone(),
        symbols: symbols.clone(),
        suspend: 0,
    };
    let built = build(&spec, false);
    let mut out = crate::core::block_on(built.ruleset.evaluate_value(facts)).expect("evaluate_value is infallible");
    let v = out.pop().expect("one outcome").value;
    drop(out);
    let log = built.log.lock().unwrap().clone();
    (v, log)
}
