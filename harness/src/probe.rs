//! Instrumented user functions ("probes") and helpers to build and run rulesets.

use crate::model::eval::{arg_key, probe_error, probe_result, FnSpec};
use async_trait::async_trait;
use reval::prelude::*;
use std::collections::{BTreeMap, HashSet};
use std::future::Future;
use std::pin::Pin;
use std::sync::{Arc, Mutex};
use std::task::{Context, Poll};

/// Leak-intern a name so it can serve as the `&'static str` a `UserFunction` must return.
pub fn intern(s: &str) -> &'static str {
    static POOL: Mutex<Option<HashSet<&'static str>>> = Mutex::new(None);
    let mut g = POOL.lock().unwrap();
    let set = g.get_or_insert_with(HashSet::new);
    if let Some(x) = set.get(s) {
        return x;
    }
    let leaked: &'static str = Box::leak(s.to_string().into_boxed_str());
    set.insert(leaked);
    leaked
}

pub type Log = Arc<Mutex<Vec<(String, String)>>>;

/// A future that returns `Pending` `n` times (waking itself each time) before completing.
pub struct Suspend(pub u32);

impl Future for Suspend {
    type Output = ();
    fn poll(mut self: Pin<&mut Self>, cx: &mut Context<'_>) -> Poll<()> {
        if self.0 == 0 {
            Poll::Ready(())
        } else {
            self.0 -= 1;
            cx.waker().wake_by_ref();
            Poll::Pending
        }
    }
}

/// While false, a call whose argument contains the text "park" keeps yielding to the runtime (tokio probes only): an
/// evaluation can be held suspended for as long as a scenario wants.
pub static PARK_RELEASE: std::sync::atomic::AtomicBool = std::sync::atomic::AtomicBool::new(true);
/// Only the first such call after this was set to true is held (so that a second evaluation that wrongly reaches the same
/// call runs on and shows its wrong result instead of waiting as well).
pub static PARK_ONCE: std::sync::atomic::AtomicBool = std::sync::atomic::AtomicBool::new(false);
/// Number of calls that have entered the held state so far (a scenario waits for this, not for the log, before it goes on:
/// the log entry is written before the call decides whether it is the one that is held).
pub static PARKED: std::sync::atomic::AtomicUsize = std::sync::atomic::AtomicUsize::new(0);

pub struct Probe {
    pub name: &'static str,
    pub spec: FnSpec,
    /// number of times each call suspends before returning
    pub suspend: u32,
    pub log: Log,
    pub counts: Arc<Mutex<BTreeMap<(String, String), u32>>>,
    /// when true, use tokio's yield_now instead of the self-waking Suspend (C18)
    pub tokio_yield: bool,
}

impl Probe {
    /// what a call does on entry: it is recorded in the log and counted
    fn enter(&self, param: &Value) -> ((String, String), u32) {
        let key = (self.name.to_string(), arg_key(param));
        self.log.lock().unwrap().push(key.clone());
        let n = {
            let mut c = self.counts.lock().unwrap();
            let e = c.entry(key.clone()).or_insert(0);
            *e += 1;
            *e
        };
        (key, n)
    }

    /// the rest of a call: it suspends as often as asked, then answers
    async fn finish(&self, key: (String, String), n: u32, param: Value) -> FunctionResult {
        if self.tokio_yield {
            for _ in 0..self.suspend {
                tokio::task::yield_now().await;
            }
            if key.1.contains("\"park\"") && PARK_ONCE.swap(false, std::sync::atomic::Ordering::SeqCst) {
                PARKED.fetch_add(1, std::sync::atomic::Ordering::SeqCst);
                while !PARK_RELEASE.load(std::sync::atomic::Ordering::SeqCst) {
                    tokio::task::yield_now().await;
                }
            }
        } else {
            Suspend(self.suspend).await;
        }
        if self.spec.fail_on.contains(&key.1) || n <= self.spec.fail_first {
            return Err(probe_error(self.name, &key.1));
        }
        Ok(probe_result(self.name, &param))
    }
}

#[async_trait]
impl UserFunction for Probe {
    async fn call(&self, param: Value) -> FunctionResult {
        let (key, n) = self.enter(&param);
        self.finish(key, n, param).await
    }

    fn name(&self) -> &'static str {
        self.name
    }

    fn cacheable(&self) -> bool {
        if self.spec.uncacheable_after == 0 {
            return self.spec.cacheable;
        }
        let total: u32 = self.counts.lock().unwrap().iter().filter(|((f, _), _)| f == self.name).map(|(_, c)| *c).sum();
        self.spec.cacheable && total < self.spec.uncacheable_after
    }
}

/// A user function written without `async fn`: `call` does its bookkeeping when it is *entered* ("submit now, hand back a
/// future for the answer") and the returned future only waits and answers. Registered for the name "fc". An
/// implementation that enters `call` and then does not await the future (or enters it more often than it should) shows up
/// in the log exactly as an extra invocation does.
pub struct EagerProbe(pub Probe);

impl UserFunction for EagerProbe {
    fn call<'life0, 'async_trait>(
        &'life0 self,
        param: Value,
    ) -> std::pin::Pin<Box<dyn std::future::Future<Output = FunctionResult> + Send + 'async_trait>>
    where
        'life0: 'async_trait,
        Self: 'async_trait,
    {
        let (key, n) = self.0.enter(&param);
        Box::pin(async move { self.0.finish(key, n, param).await })
    }

    fn name(&self) -> &'static str {
        self.0.name
    }

    fn cacheable(&self) -> bool {
        self.0.cacheable()
    }
}

/// A probe that does not override `cacheable()`: the trait's documented default (cacheable) applies.
pub struct DefaultCacheabilityProbe(pub Probe);

/// name of the probe that is registered without overriding `cacheable()` (its spec is always cacheable)
pub const DEFAULT_CACHEABILITY_NAME: &str = "fd";

#[async_trait]
impl UserFunction for DefaultCacheabilityProbe {
    async fn call(&self, param: Value) -> FunctionResult {
        self.0.call(param).await
    }

    fn name(&self) -> &'static str {
        self.0.name
    }
}

/// Two user functions without any state (zero-sized types, as in the crate's own examples): registered for the names
/// "za" / "zb"; they answer like a probe but keep no log (a boxed zero-sized value owns no allocation of its own).
pub struct ZstA;
pub struct ZstB;

#[async_trait]
impl UserFunction for ZstA {
    async fn call(&self, param: Value) -> FunctionResult {
        Ok(probe_result("za", &param))
    }
    fn name(&self) -> &'static str {
        "za"
    }
}

#[async_trait]
impl UserFunction for ZstB {
    async fn call(&self, param: Value) -> FunctionResult {
        Ok(probe_result("zb", &param))
    }
    fn name(&self) -> &'static str {
        "zb"
    }
}

/// A user function that evaluates a (shared) ruleset itself, inline in the calling task, before it answers: the number of
/// outcomes of that inner evaluation that are values. Calls are logged like a probe's.
pub struct NestingFunction {
    pub name: &'static str,
    pub inner: Arc<RuleSet>,
    pub log: Log,
    pub cacheable: bool,
}

#[async_trait]
impl UserFunction for NestingFunction {
    async fn call(&self, param: Value) -> FunctionResult {
        self.log.lock().unwrap().push((self.name.to_string(), arg_key(&param)));
        let outcomes = self.inner.evaluate_value(&param).await?;
        Ok(Value::Int(outcomes.iter().filter(|o| o.value.is_ok()).count() as i128))
    }
    fn name(&self) -> &'static str {
        self.name
    }
    fn cacheable(&self) -> bool {
        self.cacheable
    }
}

/// One evaluation whose user function `nest` evaluates another ruleset (with its own calls of the same probe functions)
/// inline, between repeated cacheable calls of the outer evaluation: each evaluation keeps its own results, so the outer
/// one still invokes `fa(1)` once, and the inner one invokes its own `fa(1)` once per inner evaluation.
/// Returns (outer outcomes rendered, invocation log).
pub fn nested_evaluation(suspend: u32, tokio_yield: bool, nest_cacheable: bool) -> (RuleSet, Log) {
    let log: Log = Arc::new(Mutex::new(vec![]));
    let counts = Arc::new(Mutex::new(BTreeMap::new()));
    let probe = |name: &'static str| Probe { name, spec: FnSpec { cacheable: true, fail_on: vec![], fail_first: 0, uncacheable_after: 0 }, suspend, log: log.clone(), counts: counts.clone(), tokio_yield };
    let call = |f: &str, k: i128| Expr::func(f, Expr::value(k));
    let inner = ruleset()
        .with_rule(Rule::new("inner-a", BTreeMap::new(), Expr::Vec(vec![call("fa", 1), call("fa", 1), call("fb", 2)])))
        .expect("rule")
        .with_rule(Rule::new("inner-b", BTreeMap::new(), call("fa", 1)))
        .expect("rule")
        .with_function(probe("fa"))
        .expect("fa")
        .with_function(probe("fb"))
        .expect("fb")
        .build();
    let nest = NestingFunction { name: "nest", inner: Arc::new(inner), log: log.clone(), cacheable: nest_cacheable };
    let outer = ruleset()
        .with_rule(Rule::new("before", BTreeMap::new(), Expr::Vec(vec![call("fa", 1), call("fb", 2)])))
        .expect("rule")
        .with_rule(Rule::new("nesting", BTreeMap::new(), Expr::Vec(vec![call("nest", 5), call("fa", 1), call("nest", 5)])))
        .expect("rule")
        .with_rule(Rule::new("after", BTreeMap::new(), Expr::Vec(vec![call("fa", 1), call("fb", 2), call("fa", 3)])))
        .expect("rule")
        .with_function(probe("fa"))
        .expect("fa")
        .with_function(probe("fb"))
        .expect("fb")
        .with_function(nest)
        .expect("nest")
        .build();
    (outer, log)
}

/// What `nested_evaluation` must log: the outer evaluation invokes fa(1), fb(2), nest(5) (once or twice), fa(3) once each;
/// every inner evaluation invokes fa(1) and fb(2) once each.
pub fn nested_expected(nest_cacheable: bool) -> BTreeMap<(String, String), usize> {
    let nests = if nest_cacheable { 1 } else { 2 };
    let k = |f: &str, v: i128| (f.to_string(), arg_key(&Value::Int(v)));
    let mut m = BTreeMap::new();
    m.insert(k("fa", 1), 1 + nests);
    m.insert(k("fb", 2), 1 + nests);
    m.insert(k("fa", 3), 1);
    m.insert(k("nest", 5), nests);
    m
}

thread_local! {
    static EARLIER_SYMBOLS: std::cell::RefCell<Vec<(u8, String, Value)>> = const { std::cell::RefCell::new(vec![]) };
}

/// Runs `f` with every ruleset built on this thread first given the `earlier` symbol definitions (way, name, value), which
/// the definitions of the `SetSpec` then replace: a ruleset resolves a name to the value registered last, so nothing in
/// the outcome may depend on them. Ways 0-2 register the final definitions one by one afterwards, ways 3-5 (same earlier
/// ways) as one table.
pub fn with_earlier_symbols<R>(earlier: Vec<(u8, String, Value)>, f: impl FnOnce() -> R) -> R {
    EARLIER_SYMBOLS.with(|e| *e.borrow_mut() = earlier);
    struct Reset;
    impl Drop for Reset {
        fn drop(&mut self) {
            EARLIER_SYMBOLS.with(|e| e.borrow_mut().clear());
        }
    }
    let _reset = Reset;
    f()
}

/// Everything needed to build one ruleset under test.
#[derive(Clone, Debug, Default)]
pub struct SetSpec {
    pub rules: Vec<(String, Expr)>,
    pub fns: BTreeMap<String, FnSpec>,
    pub symbols: BTreeMap<String, Value>,
    pub suspend: u32,
}

pub struct Built {
    pub ruleset: RuleSet,
    pub log: Log,
}

pub fn build(spec: &SetSpec, tokio_yield: bool) -> Built {
    let log: Log = Arc::new(Mutex::new(vec![]));
    let counts = Arc::new(Mutex::new(BTreeMap::new()));
    let mut b = ruleset();
    // definitions that are replaced again after the rules and functions have been added (set by `with_earlier_symbols`; a
    // builder that looks at its symbols when a rule arrives sees these): way 0 = with_symbol, 1 = with_symbols
    // of a table built by insert, 2 = with_symbols of a table built by From
    let earlier = EARLIER_SYMBOLS.try_with(|e| e.borrow().clone()).unwrap_or_default();
    for (way, k, v) in &earlier {
        b = match way % 3 {
            0 => b.with_symbol(k, v.clone()),
            1 => {
                let mut t = Symbols::default();
                t.insert(k.clone(), v.clone());
                b.with_symbols(t).expect("with_symbols")
            }
            _ => b.with_symbols(Symbols::from(vec![(k.clone(), v.clone())])).expect("with_symbols"),
        };
    }
    // every builder entry point is used: the first rule through with_rule, the next two through one with_rules batch,
    // the rest one by one (so with_rules is called on a builder that already holds rules)
    let mk = |name: &String, expr: &Expr| Rule::new(name.clone(), BTreeMap::new(), expr.clone());
    let mut i = 0;
    while i < spec.rules.len() {
        if i == 1 && spec.rules.len() >= 3 {
            b = b
                .with_rules(vec![mk(&spec.rules[1].0, &spec.rules[1].1), mk(&spec.rules[2].0, &spec.rules[2].1)])
                .expect("harness generates distinct rule names");
            i += 2;
        } else {
            b = b.with_rule(mk(&spec.rules[i].0, &spec.rules[i].1)).expect("harness generates distinct rule names");
            i += 1;
        }
    }
    for (name, fs) in &spec.fns {
        if name == "za" {
            b = b.with_function(ZstA).expect("za");
            continue;
        }
        if name == "zb" {
            b = b.with_functions(vec![Box::new(ZstB) as Box<dyn UserFunction + Send + Sync>]).expect("zb");
            continue;
        }
        let p = Probe {
            name: intern(name),
            spec: fs.clone(),
            suspend: spec.suspend,
            log: log.clone(),
            counts: counts.clone(),
            tokio_yield,
        };
        b = if name == DEFAULT_CACHEABILITY_NAME && fs.cacheable {
            b.with_function(DefaultCacheabilityProbe(p))
        } else if name == "fc" {
            b.with_function(EagerProbe(p))
        } else if name == "fb" || name == "lp" {
            // registered already boxed, through the batch entry point
            b.with_functions(vec![Box::new(p) as Box<dyn UserFunction + Send + Sync>])
        } else {
            b.with_function(p)
        }
        .expect("harness generates valid function names");
    }
    let batch_last = earlier.iter().any(|(way, _, _)| *way >= 3);
    if batch_last {
        // the final definitions arrive as one table
        b = b.with_symbols(Symbols::from(spec.symbols.clone())).expect("with_symbols");
    } else {
        for (k, v) in &spec.symbols {
            b = b.with_symbol(k, v.clone());
        }
    }
    Built { ruleset: b.build(), log }
}

/// Evaluate a single expression through a one-rule ruleset with the given functions and symbols.
pub fn eval_in_ruleset(
    expr: &Expr,
    facts: &Value,
    fns: &BTreeMap<String, FnSpec>,
    symbols: &BTreeMap<String, Value>,
) -> (Result<Value, reval::Error>, Vec<(String, String)>) {
    eval_in_ruleset_suspending(expr, facts, fns, symbols, 0)
}

/// The same with user functions that suspend `suspend` times before they answer.
pub fn eval_in_ruleset_suspending(
    expr: &Expr,
    facts: &Value,
    fns: &BTreeMap<String, FnSpec>,
    symbols: &BTreeMap<String, Value>,
    suspend: u32,
) -> (Result<Value, reval::Error>, Vec<(String, String)>) {
    let spec = SetSpec {
        rules: vec![("r".into(), expr.clone())],
        fns: fns.clone(),
        symbols: symbols.clone(),
        suspend,
    };
    let built = build(&spec, false);
    let mut out = crate::core::block_on(built.ruleset.evaluate_value(facts)).expect("evaluate_value is infallible");
    let v = out.pop().expect("one outcome").value;
    drop(out);
    let log = built.log.lock().unwrap().clone();
    (v, log)
}
