//! Boundary-value pools (DESIGN.md §3.1) used for exhaustive operator × operand enumeration.

use chrono::{DateTime, TimeDelta, Utc};
use reval::value::Value;
use rust_decimal::Decimal;
use std::collections::BTreeMap;

pub const FIRST_TS: i64 = -8334601228800;
pub const LAST_TS: i64 = 8210266876799;

pub fn dec(m: i128, s: u32) -> Value {
    Value::Decimal(Decimal::try_from_i128_with_scale(m, s).expect("pool decimal"))
}

pub fn dt(secs: i64, nanos: u32) -> Value {
    Value::DateTime(DateTime::<Utc>::from_timestamp(secs, nanos).expect("pool datetime"))
}

pub fn du(secs: i64, nanos: u32) -> Value {
    Value::Duration(TimeDelta::new(secs, nanos).expect("pool duration"))
}

pub fn s(x: &str) -> Value {
    Value::String(x.to_string())
}

pub fn map(items: &[(&str, Value)]) -> Value {
    Value::Map(items.iter().map(|(k, v)| (k.to_string(), v.clone())).collect::<BTreeMap<_, _>>())
}

pub fn ints() -> Vec<Value> {
    let m = i128::MAX;
    let n = i128::MIN;
    let dmax = i64::MAX as i128 / 1000;
    let mut v: Vec<i128> = vec![
        n,
        n + 1,
        -(1i128 << 96),
        -(1i128 << 96) + 1,
        -(1i128 << 64) - 1,
        -(1i128 << 64),
        -(1i128 << 63) - 1,
        -(1i128 << 63),
        -dmax - 1,
        -dmax,
        FIRST_TS as i128 - 1,
        FIRST_TS as i128,
        -61,
        -7,
        -1,
        0,
        1,
        2,
        7,
        0b1010,
        1 << 31,
        LAST_TS as i128,
        LAST_TS as i128 + 1,
        dmax,
        dmax + 1,
        (1i128 << 63) - 1,
        1i128 << 63,
        (1i128 << 64) - 1,
        1i128 << 64,
        (1i128 << 64) + 1,
        // floor(sqrt(2^127)) and its successor: the largest operands whose square still fits / no longer fits
        13_043_817_825_332_782_212,
        13_043_817_825_332_782_213,
        -13_043_817_825_332_782_213,
        (1i128 << 32) - 1,
        (1i128 << 96) - 1,
        1i128 << 96,
        m - 1,
        m,
        // i64 weeks/days/hours/minutes limits
        dmax / 604800,
        dmax / 604800 + 1,
        dmax / 86400 + 1,
        dmax / 3600 + 1,
        dmax / 60 + 1,
        (1i128 << 126) + 12345,
    ];
    v.sort();
    v.dedup();
    v.into_iter().map(Value::Int).collect()
}

pub fn floats() -> Vec<Value> {
    let p127 = 2f64.powi(127);
    let below = f64::from_bits(p127.to_bits() - 1);
    let v = vec![
        0.0,
        -0.0,
        1.0,
        -1.0,
        0.5,
        -0.5,
        1.5,
        -1.5,
        2.5,
        -2.5,
        0.1,
        f64::from_bits(1),
        -f64::from_bits(1),
        f64::MAX,
        f64::MIN,
        p127,
        -p127,
        below,
        -below,
        f64::INFINITY,
        f64::NEG_INFINITY,
        f64::NAN,
        1e40,
        7.0,
        0.49999999999999994,
        4503599627370497.0,
        7.9228162514264337593543950335e28,
        1e-29,
    ];
    v.into_iter().map(Value::Float).collect()
}

pub fn decimals() -> Vec<Value> {
    let max = (1i128 << 96) - 1;
    vec![
        dec(0, 0),
        dec(1, 0),
        dec(-1, 0),
        dec(5, 1),
        dec(-5, 1),
        dec(15, 1),
        dec(-15, 1),
        dec(25, 1),
        dec(-25, 1),
        dec(10, 1),
        dec(100, 2),
        dec(max, 0),
        dec(-max, 0),
        dec(max - 1, 0),
        dec(-(max - 1), 0),
        dec(1, 28),
        dec(max, 28),
        dec(-max, 28),
        dec(1, 1),
        dec(-7, 0),
        dec(3, 0),
        dec(max / 2 + 1, 0),
        dec(123456789, 4),
    ]
}

pub fn strings() -> Vec<Value> {
    vec![
        s(""),
        s("1"),
        s("i1"),
        s("1.5"),
        s("abc"),
        s(" aBc "),
        s("ß"),
        s("2015-07-30T03:26:13Z"),
        s("nan"),
        s("inf"),
        s("1e3"),
        s("-170141183460469231731687303715884105728"),
        s("170141183460469231731687303715884105728"),
        s("\u{a0}ǅ ΑΣ\u{2003}"),
        s("bc"),
        s("true"),
        // context-sensitive case mapping (word-final sigma), one-to-many mappings, Turkish dotted I
        s("ΟΔΥΣΣΕΥΣ ΑΣ"),
        s("İstanbul ﬁ ǆ"),
        // a leap second, and one in the last representable minute
        s("2016-12-31T23:59:60Z"),
        s("+262142-12-31T23:59:60.5Z"),
        s("-262143-01-01T00:00:00Z"),
        // 20-byte look-alikes of a plain UTC timestamp
        s("2015-07-30T 3:26:13Z"),
        s("+015-07-30T03:26:13Z"),
        s("2015-07-30T03:26:.5Z"),
    ]
}

pub fn bools() -> Vec<Value> {
    vec![Value::Bool(true), Value::Bool(false)]
}

pub fn datetimes() -> Vec<Value> {
    vec![
        dt(FIRST_TS, 0),
        dt(LAST_TS, 0),
        dt(LAST_TS, 999_999_999),
        dt(0, 0),
        dt(1438226773, 0),
        dt(1438226773, 123_456_789),
        dt(-1, 0),
        dt(951782400, 0), // 2000-02-29
    ]
}

pub fn durations() -> Vec<Value> {
    let dmax = i64::MAX / 1000;
    vec![
        du(dmax, 807_000_000),
        du(-dmax - 1, 193_000_000),
        du(dmax, 0),
        du(-dmax, 0),
        du(0, 0),
        du(1, 0),
        du(-1, 0),
        du(61, 0),
        du(-61, 0),
        du(14 * 86400, 0),
        du(-2, 500_000_000),
        du(86399, 999_999_999),
        du(-604800, 0),
    ]
}

pub fn vecs() -> Vec<Value> {
    vec![
        Value::Vec(vec![]),
        Value::Vec(vec![Value::Int(1)]),
        Value::Vec(vec![Value::None]),
        Value::Vec(vec![Value::Int(1), s("1"), Value::Float(1.0)]),
        Value::Vec(vec![Value::Vec(vec![Value::Int(1)])]),
        Value::Vec(vec![Value::Float(f64::NAN), dec(10, 1)]),
    ]
}

pub fn maps() -> Vec<Value> {
    vec![
        map(&[]),
        map(&[("a", Value::Int(1))]),
        map(&[("a", Value::None)]),
        map(&[("a", map(&[("b", Value::Vec(vec![Value::Int(1)]))]))]),
        map(&[("facts", Value::Int(1)), ("A", Value::Int(2)), ("abc", s("x"))]),
        map(&[("1", Value::Int(1)), ("", Value::Int(0))]),
        // a key that is present and holds none, next to one that holds a value
        map(&[("abc", Value::None), ("bc", Value::Int(1)), ("1", Value::None)]),
    ]
}

/// The full boundary pool `B`.
pub fn boundary() -> Vec<Value> {
    let mut v = vec![];
    v.extend(strings());
    v.extend(ints());
    v.extend(floats());
    v.extend(decimals());
    v.extend(bools());
    v.extend(datetimes());
    v.extend(durations());
    v.extend(vecs());
    v.extend(maps());
    v.push(Value::None);
    v
}

/// Small mid-range values: Ok cells dominate.
pub fn plain() -> Vec<Value> {
    vec![
        s("abc"),
        s("b"),
        s("12"),
        s(" x "),
        s("2024-02-29T12:30:45Z"),
        Value::Int(-17),
        Value::Int(0),
        Value::Int(3),
        Value::Int(5),
        Value::Int(12),
        Value::Int(1_000_000_007),
        Value::Float(-3.75),
        Value::Float(0.25),
        Value::Float(2.0),
        Value::Float(3.5),
        Value::Float(1e10),
        dec(-375, 2),
        dec(25, 2),
        dec(2, 0),
        dec(35, 1),
        dec(45, 1),
        dec(123456, 3),
        Value::Bool(true),
        Value::Bool(false),
        dt(1709209845, 0),
        dt(1709209845, 500_000_000),
        dt(86400 * 365, 0),
        du(3600, 0),
        du(90061, 0),
        du(-90061, 0),
        du(1_209_600, 0),
        Value::Vec(vec![Value::Int(3), s("b"), Value::Float(2.0)]),
        Value::Vec(vec![dec(20, 1), Value::Bool(true), Value::None]),
        map(&[("b", Value::Int(3)), ("abc", Value::Int(5))]),
        Value::None,
    ]
}

/// 2-3 extremes per type (for exhaustive depth-2 compositions).
pub fn extremes() -> Vec<Value> {
    let max = (1i128 << 96) - 1;
    let dmax = i64::MAX / 1000;
    vec![
        Value::Int(i128::MAX),
        Value::Int(i128::MIN),
        Value::Int(-1),
        Value::Int(1i128 << 96),
        Value::Int(1i128 << 64),
        Value::Int(LAST_TS as i128),
        Value::Int(2),
        Value::Float(f64::MAX),
        Value::Float(f64::NAN),
        Value::Float(f64::INFINITY),
        Value::Float(-0.0),
        Value::Float(2f64.powi(127)),
        dec(max, 0),
        dec(-max, 0),
        dec(max, 28),
        dec(2, 0),
        dt(FIRST_TS, 0),
        dt(LAST_TS, 999_999_999),
        du(dmax, 807_000_000),
        du(-dmax - 1, 193_000_000),
        du(1, 0),
        s("170141183460469231731687303715884105727"),
        s("1e999"),
        Value::Bool(true),
        Value::Vec(vec![]),
        map(&[]),
        Value::None,
    ]
}

/// Two values per type (reduced pool for exhaustive depth-2 in C02).
pub fn reduced() -> Vec<Value> {
    vec![
        s("abc"),
        s("12"),
        Value::Int(3),
        Value::Int(-12),
        Value::Float(2.5),
        Value::Float(-0.5),
        dec(25, 1),
        dec(-3, 0),
        Value::Bool(true),
        Value::Bool(false),
        dt(1709209845, 0),
        dt(0, 0),
        du(3600, 0),
        du(-61, 0),
        Value::Vec(vec![Value::Int(3), s("abc")]),
        Value::Vec(vec![]),
        map(&[("abc", Value::Int(3))]),
        map(&[]),
        Value::None,
    ]
}

/// Values that would coincide after coercion (C03).
pub fn coinciding() -> Vec<Value> {
    vec![
        Value::Int(1),
        Value::Float(1.0),
        dec(1, 0),
        s("1"),
        Value::Bool(true),
        Value::Vec(vec![Value::Int(1)]),
        Value::Int(0),
        Value::Float(0.0),
        dec(0, 0),
        s(""),
        Value::Bool(false),
        Value::Vec(vec![]),
        map(&[]),
        dt(1, 0),
        du(1, 0),
        dt(0, 0),
        du(0, 0),
        map(&[("a", Value::Int(1))]),
        s("true"),
        s("abc"),
        Value::Int(-7),
        Value::Float(2.5),
        dec(25, 1),
        // text that coincides with a value of another type
        s("2015-07-30T03:26:13Z"),
        dt(1438226773, 0),
        s("1.5"),
        Value::Float(1.5),
        s("i1"),
        s("PT1S"),
        // range edges (a result type may only change through an explicit cast, also at the edges)
        Value::Int(i128::MIN),
        Value::Int(-1),
        Value::Int(i128::MAX),
        Value::Float(f64::NAN),
    ]
}
