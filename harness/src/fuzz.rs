//! Entry points of the libFuzzer targets (semantic oracles inside the target). A disagreement that is
//! not a listed known finding panics, which libFuzzer records as a crash with the input as artifact.

use crate::core::{install_panic_hook, Known, Verdict};
use std::sync::OnceLock;

fn known() -> &'static Known {
    static K: OnceLock<Known> = OnceLock::new();
    K.get_or_init(|| {
        install_panic_hook();
        let dir = std::env::var("VERIF_DIR").unwrap_or_else(|_| "/verif".into());
        Known::load(&format!("{dir}/KNOWN_FINDINGS.txt"))
    })
}

fn settle(prop: &str, v: Verdict) {
    if let Err(issue) = v {
        if known().lookup(prop, &issue.sig).is_some() {
            return;
        }
        eprintln!("FUZZ-VIOLATION property={prop} sig={} {}", issue.sig, issue.msg);
        std::process::abort();
    }
}

pub fn parse_diff(data: &[u8]) {
    let _ = known();
    let text = match std::str::from_utf8(data) {
        Ok(t) => t,
        Err(_) => return,
    };
    if text.len() > 4096 {
        return;
    }
    settle("C06", crate::props::c06::check_text(text));
    settle("C07", crate::props::c07::check_text_against(text, crate::model::parse::parse_expr(text)));
    if let Ok(Ok(e)) = crate::core::catch(|| reval::prelude::Expr::parse(text)) {
        if crate::data::expr_depth(&e) < 200 {
            settle("C16", crate::props::c16::check(&e));
        }
    }
}

pub fn eval_diff(data: &[u8]) {
    let _ = known();
    let case = crate::props::c01::random_case(data, 7);
    settle("C01", crate::props::c01::check(&case));
    settle("C02", crate::props::c02::check(&case));
}

pub fn ser_diff(data: &[u8]) {
    let _ = known();
    let v = crate::sval::gen_sval(&mut crate::gen::Dec::new(data), 5);
    settle("C13", crate::props::c13::check(&v));
}

/// Properties served by the `set_diff` target; the campaign's property comes from `RVV_SET_PROP` (default: the
/// first input byte picks one), the second input byte picks among that property's generators, the rest is the recipe.
pub const SET_PROPS: [&str; 9] = ["C03", "C04", "C05", "C09", "C10", "C11", "C12", "C14", "C15"];

pub fn set_case(prop: &str, sel: u8, bytes: &[u8]) -> Verdict {
    use crate::props::*;
    match prop {
        "C03" => c03::fuzz_bytes(bytes),
        "C04" => c04::fuzz_bytes(bytes),
        "C05" => c05::check(&c05::random_case(bytes)),
        "C09" => c09::fuzz_bytes(sel, bytes),
        "C10" => c10::fuzz_bytes(sel, bytes),
        "C11" => c11::check(&c11::random_case(bytes)),
        "C12" => {
            if sel % 2 == 0 {
                c12::check(&c12::random_case(bytes))
            } else {
                c12::check_expression_history(bytes)
            }
        }
        "C14" => c14::fuzz_bytes(bytes),
        "C15" => c15::fuzz_bytes(bytes),
        _ => Ok(()),
    }
}

pub fn set_diff(data: &[u8]) {
    let _ = known();
    static PROP: OnceLock<Option<String>> = OnceLock::new();
    let fixed = PROP.get_or_init(|| std::env::var("RVV_SET_PROP").ok().filter(|p| SET_PROPS.contains(&p.as_str())));
    if data.len() < 2 {
        return;
    }
    let prop = match fixed {
        Some(p) => p.as_str(),
        None => SET_PROPS[data[0] as usize % SET_PROPS.len()],
    };
    settle(prop, set_case(prop, data[1], &data[2..]));
}

/// Replay of a `set_diff` artifact: `{"set_fuzz_bytes": [...], "set_prop": "C09"}`.
pub fn set_replay(prop: &str, j: &serde_json::Value) -> Option<Verdict> {
    let data: Vec<u8> = j.get("set_fuzz_bytes")?.as_array()?.iter().filter_map(|b| b.as_u64().map(|x| x as u8)).collect();
    if data.len() < 2 {
        return None;
    }
    Some(set_case(prop, data[1], &data[2..]))
}
