//! Entry points of the libFuzzer targets (semantic oracles inside the target). A disagreement that is
//! not a listed known finding panics, which libFuzzer records as a crash with the input as artifact.

use crate::core::{install_panic_hook, Known, Verdict};
use std::sync::OnceLock;

fn known() -> &'static Known {
    static K: OnceLock<Known> = OnceLock::new();
    K.get_or_init(|| {
        install_panic_hook();
        let dir = std::env::var("VERIF_DIR").unwrap_or_else(|_| "/verif".into());
        Known::load(&format!("{dir}/KNOWN_FINDINGS.txt"))
    })
}

fn settle(prop: &str, v: Verdict) {
    if let Err(issue) = v {
        if known().lookup(prop, &issue.sig).is_some() {
            return;
        }
        eprintln!("FUZZ-VIOLATION property={prop} sig={} {}", issue.sig, issue.msg);
        std::process::abort();
    }
}

pub fn parse_diff(data: &[u8]) {
    let _ = known();
    let text = match std::str::from_utf8(data) {
        Ok(t) => t,
        Err(_) => return,
    };
    if text.len() > 4096 {
        return;
    }
    settle("C06", crate::props::c06::check_text(text));
    settle("C07", crate::props::c07::check_text_against(text, crate::model::parse::parse_expr(text)));
    if let Ok(Ok(e)) = crate::core::catch(|| reval::prelude::Expr::parse(text)) {
        if crate::data::expr_depth(&e) < 200 {
            settle("C16", crate::props::c16::check(&e));
        }
    }
}

pub fn eval_diff(data: &[u8]) {
    let _ = known();
    let case = crate::props::c01::random_case(data, 7);
    settle("C01", crate::props::c01::check(&case));
    settle("C02", crate::props::c02::check(&case));
}

pub fn ser_diff(data: &[u8]) {
    let _ = known();
    let v = crate::sval::gen_sval(&mut crate::gen::Dec::new(data), 5);
    settle("C13", crate::props::c13::check(&v));
}
