#![no_main]
//! Coverage-guided fuzzing of the serializer against the data-model image and serde_json (C13).
use libfuzzer_sys::fuzz_target;

fuzz_target!(|data: &[u8]| {
    rvv::fuzz::ser_diff(data);
});
