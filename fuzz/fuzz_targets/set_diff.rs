#![no_main]
//! Coverage-guided fuzzing of the ruleset-level checks (C03, C04, C05, C09, C10, C11, C12, C14, C15): the input bytes are the
//! recipe of that property's own case generator, the oracle is the property's own check (reference evaluator, cache model,
//! builder model, schedule baseline, script construction).
use libfuzzer_sys::fuzz_target;

fuzz_target!(|data: &[u8]| {
    rvv::fuzz::set_diff(data);
});
