#![no_main]
//! Coverage-guided fuzzing of the parsers with the semantic oracles inside the target:
//! totality (C06), agreement with the reference parser (C07/C08), Display round trip (C16).
use libfuzzer_sys::fuzz_target;

fuzz_target!(|data: &[u8]| {
    rvv::fuzz::parse_diff(data);
});
