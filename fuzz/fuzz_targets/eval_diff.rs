#![no_main]
//! Coverage-guided fuzzing of the evaluator against the reference evaluator (C01/C02).
use libfuzzer_sys::fuzz_target;

fuzz_target!(|data: &[u8]| {
    rvv::fuzz::eval_diff(data);
});
