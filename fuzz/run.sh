#!/bin/bash
# fuzz/run.sh <ID>  — thorough-tier libFuzzer campaign for the properties that have a target.
# Semantic oracles live inside the targets (harness/src/fuzz.rs). exit 0 = nothing found, 1 = VIOLATION printed,
# 2 = infrastructure problem.
set -u
ID="$1"
HERE="$(cd "$(dirname "$0")" && pwd)"; VERIF="$(dirname "$HERE")"
case "$ID" in
  C06|C07|C08|C16) T=parse_diff ;;
  C01|C02) T=eval_diff ;;
  C13) T=ser_diff ;;
  C03|C04|C05|C09|C10|C11|C12|C14|C15) T=set_diff; export RVV_SET_PROP="$ID" ;;
  *) exit 0 ;;
esac
SECS="${VERIF_FUZZ_SECS:-90}"
JOBS="${VERIF_FUZZ_JOBS:-16}"
SEED="${VERIF_SEED:-12648430}"; [ "$SEED" = 0 ] && SEED=1
export CARGO_NET_OFFLINE=true VERIF_DIR="$VERIF"
( cd "$VERIF/harness" && cargo +nightly fuzz build --fuzz-dir "$HERE" -s none "$T" ) >"$VERIF/.build-fuzz-$T.log" 2>&1 || { echo "fuzz build failed (see $VERIF/.build-fuzz-$T.log)" >&2; exit 2; }
BIN="$HERE/target/x86_64-unknown-linux-gnu/release/$T"
W="$HERE/work/$T-$ID"; rm -rf "$W"; mkdir -p "$W/corpus" "$W/artifacts" "$W/logs"
cp "$VERIF/corpus/$T"/* "$W/corpus/" 2>/dev/null
EXTRA=""; [ "$T" = parse_diff ] && EXTRA="-dict=$HERE/dict.txt -max_len=512"; [ "$T" != parse_diff ] && EXTRA="-max_len=600"
( cd "$W/logs" && timeout $((SECS + 120)) "$BIN" "$W/corpus" -max_total_time="$SECS" -jobs="$JOBS" -workers="$JOBS" -seed="$SEED" -len_control=0 -rss_limit_mb=3000 -timeout=30 -artifact_prefix="$W/artifacts/" $EXTRA >"$W/run.log" 2>&1 )
VERIF_FUZZ_JOBS="$JOBS" python3 - "$ID" "$T" "$W" "$VERIF" "$SECS" <<'PY'
import sys, os, re, json, glob
ID, T, W, VERIF, SECS = sys.argv[1:6]
execs = 0; cov = 0
for f in glob.glob(W + '/logs/fuzz-*.log'):
    s = open(f, errors='replace').read()
    m = re.findall(r'stat::number_of_executed_units:\s*(\d+)', s)
    if m: execs += int(m[-1])
    else:
        m = re.findall(r'#(\d+)\s', s)
        if m: execs += int(m[-1])
    c = re.findall(r'cov: (\d+)', s)
    if c: cov = max(cov, int(c[-1]))
corpus = len(os.listdir(W + '/corpus'))
arts = sorted(glob.glob(W + '/artifacts/*'))
viol = []
for f in glob.glob(W + '/logs/fuzz-*.log'):
    for line in open(f, errors='replace'):
        if line.startswith('FUZZ-VIOLATION'):
            viol.append(line.strip())
ev = VERIF + '/evidence/' + ID + '.json'
try:
    e = json.load(open(ev))
    e['coverage']['fuzz'] = {'target': T, 'seconds': int(SECS), 'jobs': int(os.environ.get('VERIF_FUZZ_JOBS','16')), 'executions': execs, 'corpus_files': corpus,
                             'edge_coverage': cov, 'artifacts': len(arts), 'seed_corpus': 'corpus/' + T}
    json.dump(e, open(ev, 'w'), indent=1); open(ev, 'a').write('\n')
except Exception as ex:
    print('could not update evidence:', ex, file=sys.stderr)
timeouts = [a for a in arts if os.path.basename(a).startswith(('timeout-', 'oom-', 'slow-unit-'))]
crashes = [a for a in arts if a not in timeouts]
if not crashes:
    print(f'FUZZ property={ID} target={T} executions={execs} corpus={corpus} cov={cov} artifacts=0' + (f' (ignored {len(timeouts)} timeout/oom artifacts: inconclusive)' if timeouts else ''))
    sys.exit(0)
os.makedirs(VERIF + '/replays', exist_ok=True)
a = crashes[0]
data = open(a, 'rb').read()
prop = ID
m = re.search(r'property=(C\d+)', viol[0]) if viol else None
if m: prop = m.group(1)
if T == 'parse_diff':
    case = {'text': data.decode('utf-8', errors='replace'), 'source_text': data.decode('utf-8', errors='replace')}
elif T == 'eval_diff':
    case = {'fuzz_bytes': list(data)}
elif T == 'set_diff':
    case = {'set_fuzz_bytes': list(data)}
else:
    case = {'sval_bytes': list(data)}
path = f'{VERIF}/replays/{prop}-fuzz-{os.path.basename(a)}.json'
json.dump({'property': prop, 'kind': 'fuzz', 'case': case, 'artifact': a, 'message': viol[0] if viol else 'crash without FUZZ-VIOLATION line (panic/abort inside the target)'}, open(path, 'w'), indent=1)
print('DETAIL ' + (viol[0] if viol else f'property={prop} libFuzzer crash artifact {a}'))
print(f'VIOLATION property={prop} replay={path}')
sys.exit(1)
PY
